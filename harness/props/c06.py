"""C06 - written text obeys the BibtexFormat contract and carries every block's content."""
from props import pubapi
import copy
import itertools
import json
import re

ENGINE = "writer"
RULE = ("libraries built from the model classes (any block mix incl. plain / middleware-error / duplicate-key / duplicate-field "
        "failed blocks, 0..n fields, keys of length 0..45 incl. non-ASCII) and libraries obtained by parse_string(text, parse_stack=[]) "
        "x value_column in {0..40,'auto'} x indents x multi-character separators x trailing_comma x custom failed comments "
        "({n}, {{ }}); bounded-exhaustive key length x column x trailing grid around the padding boundary; exhaustive short strings "
        "over the line-boundary alphabet for str.splitlines; {n}-templates for str.format; sessions on ONE Library and ONE format object "
        "(oracle only): lists/dicts handed out by library.entries/strings/failed_blocks/preambles/comments/entries_dict edited by the "
        "caller (at once or after later library calls), add/remove/replace, in-place edits of entries/fields/strings/comments, format "
        "attributes changed between writes, writes that raise, a second Library sharing block objects - every write of the session is "
        "judged against the blocks the library holds at that moment (views x edits x entrypoint bounded-exhaustive on a fixed library); re-configuration of ONE format object: every attribute x every "
        "ordered pair of settings (write, set, write, set back, write - the same field keys under each setting; int -> int columns) "
        "bounded-exhaustive, and random set/write rounds over libraries with recurring field keys incl. a fresh format object "
        "replacing the dropped one. "
        "user classes (harness/props/userclasses.py): every block kind as an instance of a user SUBCLASS (SubEntry, CopyFieldsEntry - a "
        "defensive fields view -, SubString, SubPreamble, SubExplicitComment, SubImplicitComment, a ParsingFailedBlock subclass, SubField, "
        "also inside middleware-error / duplicate-field blocks), field keys / values / entry type / key / raw / comment text as str "
        "SUBCLASS instances, a Library subclass, BibtexFormat subclasses (trivial; extra constructor state; the five properties "
        "overridden over one dict) and format strings incl. 'auto' as str subclass instances - bounded-exhaustive block kind x flag set "
        "x column x entrypoint and format class x str kind x library class x column x entrypoint on a fixed library, random libraries, "
        "parsed libraries rebuilt block by block, sessions and re-configuration sessions; compared with the model on the plain twin "
        "(same content in the library's own classes: for the writer a SubEntry IS an Entry) and judged by the oracle on the real objects. "
        "numeric and size edges of the layout (streams layout_*): integer columns 63..4097 (every power of two 32..4096 and 100 / 1000 from "
        "both sides) x keys of length 1..3 and 60..140; EVERY padding 0..1146 as a contiguous sweep (50 keys of length 1..50 under "
        "columns 50, 100 .. 1150) for integer columns and for 'auto' (longest key 50 .. 1150), and around 2048 / 4096; 'auto' over two "
        "entries whose key lengths differ by 1..1025 (edges from both sides); indents of 0..4096 characters (edges from both sides) x "
        "columns; 0..257 fields per entry, 1..257 entries, separators of 0..4096 characters; one library holding keys of every length "
        "1..300; values of 0..10000 characters; random mixtures of all of these; sessions re-configuring ONE format object between "
        "narrow and wide columns / indents - every field line re-derived from (library, format) with EXACTLY the computed padding. "
        "distinct = distinct (library, format); "
        "non-trivial = the library has an entry with a field or a failed block")
TRUSTED = ["oracle instances: str.splitlines (ten line boundaries) and str.format on templates whose only replacement field is {n} "
           "are modelled and compared with CPython on every run (ops 62, 63); templates outside are skipped by the model"]
ASSUMPTIONS = ["field values, keys, types, separators are str or instances of a str subclass that overrides nothing (a few libraries with "
               "non-str values check the TypeError class only)",
               "user subclasses of blocks / Library / BibtexFormat keep the public attribute contract of their base class",
               "entries with the same key in ONE library are of related classes (Library.add asserts it: C08/C09's business)",
               "parsing_failed_comment templates use only {n} and the {{ }} escapes (DESIGN C06 Limits)"]
CASE_TIMEOUT_S = 30

BREAKS = "\n\r\x0b\x0c\x1c\x1d\x1e\x85\u2028\u2029"
BREAK_RE = re.compile("\r\n|[" + BREAKS + "]")
TEMPLATE_OK = re.compile(r"(?:[^{}]|\{\{|\}\}|\{n\})*")
TEMPLATE_TOK = re.compile(r"\{\{|\}\}|\{n\}")

INDENTS = ["", "\t", "  ", "    ", "xx", "\t\t", " \t"]
SEPS = ["\n\n", "\n", "", "\n%%\n", " ", "\r\n\r\n", "---", "\n\n\n", ",", "}\n@"]
COMMENTS = [None, "% FAIL {n}", "{{n}} {n} lines {{}}", "", "{n}{n}", "%% {{{n}}}", "no field at all", "\u2211 {n} \u00fcn\u00ef",
            "% WARNING {n}\n% second line", "{n}", "}}{{"]
KEY_ALPHA = "abcdefghijklmnopqrstuvwxyzABCXYZ0123456789_-:.\u00e9\u00df\u4e2d\U0001d518"
VAL_ALPHA = "abc XYZ019{}\"\\,=#@~\n\t\u00e9\u4e2d\U0001d518%"
RAW_ALPHA = "ab @{},=\"" + BREAKS + "\x1f\u00e9"


# ------------------------------------------------------------------ generators
def rkey(rng, maxlen=45):
    r = rng.random()
    if r < 0.03:
        n = 0
    elif r < 0.65:
        n = rng.randint(1, 9)
    elif r < 0.9:
        n = rng.randint(10, 25)
    else:
        n = rng.randint(26, max(26, maxlen))
    return "".join(rng.choice(KEY_ALPHA) for _ in range(min(n, maxlen)))


def rval(rng):
    n = rng.choice([0, 1, 2, 5, 12, 30])
    body = "".join(rng.choice(VAL_ALPHA) for _ in range(n))
    return rng.choice(["{%s}", '"%s"', "%s", "{%s} # abc"]) % body


def rraw(rng):
    r = rng.random()
    if r < 0.05:
        return ""
    n = rng.choice([1, 2, 3, 6, 15, 40])
    return "".join(rng.choice(RAW_ALPHA) for _ in range(n))


def rfields(rng, allow_bad):
    n = rng.choice([0, 0, 1, 1, 2, 3, 4, 6])
    fs = []
    for _ in range(n):
        k = rkey(rng)
        if fs and rng.random() < 0.1:
            k = fs[0][0]                        # duplicate field key in a directly built entry
        v = rval(rng)
        if allow_bad and rng.random() < 0.25:
            v = rng.choice([{"int": 7}, {"int": -3}, {"none": 1}, {"list": ["a"]}])
        fs.append([k, v])
    return fs


def rentry(rng, keys, allow_bad=False):
    key = rkey(rng, 12) or "k"
    if keys and rng.random() < 0.15:
        key = rng.choice(keys)                  # duplicate entry key -> DuplicateBlockKeyBlock
    keys.append(key)
    raw = rraw(rng) if rng.random() < 0.8 else None
    return ["entry", rng.choice(["article", "book", "misc", "Article", "x"]), key, rfields(rng, allow_bad), raw]


def rblock(rng, keys, skeys, allow_bad=False):
    r = rng.random()
    if r < 0.40:
        return rentry(rng, keys, allow_bad)
    if r < 0.50:
        k = rkey(rng, 10) or "s"
        if skeys and rng.random() < 0.2:
            k = rng.choice(skeys)
        skeys.append(k)
        v = rval(rng)
        if allow_bad and rng.random() < 0.3:
            v = {"int": 3}
        return ["string", k, v, rraw(rng)]
    if r < 0.56:
        return ["preamble", rval(rng)]
    if r < 0.62:
        return ["expl", rval(rng)]
    if r < 0.70:
        return ["impl", rng.choice(["free text", "% a comment\nsecond line", "", "x"])]
    if r < 0.82:
        return ["failed", rraw(rng) if rng.random() < 0.97 or not allow_bad else None]
    if r < 0.88:
        return ["mwerr", rraw(rng), rng.choice([["expl", "c"], rentry(rng, [], False), ["string", "s", "{v}", None]])]
    if r < 0.94:
        e = rentry(rng, [], False)
        e[4] = rraw(rng)
        return ["dupfield", e]
    return ["failed", rraw(rng)]


def rfmt(rng):
    if rng.random() < 0.04:
        return None
    return {"indent": rng.choice(INDENTS), "col": rng.choice(list(range(41)) + ["auto"] * 12), "sep": rng.choice(SEPS),
            "trailing": rng.random() < 0.5, "failed": rng.choice(COMMENTS)}


SNIPPETS = [
    "@article{<K>,\n  title = {A Title},\n  year = 2020\n}",
    "@book{<K>, author = \"A and B\", <F> = {x}, }",
    "@misc{<K>}",
    "@misc{<K>,}",
    "@string{<F> = \"value\"}",
    "@string{dup = {v}}",
    "@preamble{\"\\newcommand{\\x}{y}\"}",
    "@comment{an explicit comment}",
    "% free text line",
    "some text\nover two lines",
    "@article{<K>,\n  title = {unclosed,\n  year = 2020\n",
    "@article{<K>, title = {a}, title = {b}, <F> = {c}}",
    "@article{same, a = {1}}",
    "@article{<K>, a = {1} b = {2}}",
    "@string{broken = }",
    "@article{<K>,\r\n  title = {crlf\r\nvalue},\r\n}",
    "@article{<K>, t\u00eftle = {\u00fcnic\u00f6de \u2028 sep}}",
    "@article{<K>, note = {\x0b\x0c\x1c\x1d\x1e\x85}, title = {unclosed",
]


def rtext(rng):
    n = rng.choice([0, 1, 2, 3, 4, 6, 9])
    parts = []
    for _ in range(n):
        s = rng.choice(SNIPPETS).replace("<K>", rkey(rng, 8) or "k").replace("<F>", rkey(rng, 30) or "f")
        parts.append(s)
    return rng.choice(["\n", "\n\n", " ", "\r\n"]).join(parts) + rng.choice(["", "\n", "  "])

VIEWS = ["entries", "strings", "failed_blocks", "preambles", "comments", "entries_dict"]
VIEW_OPS = ["clear", "pop", "reverse", "append_foreign", "del_first", "double"]
FMT_ATTRS = ["indent", "col", "sep", "trailing", "failed"]
SESSION_BASE = [["entry", "article", "first", [["title", "{A title}"], ["year", "2020"], ["organization", "{Org}"]], None],
                ["expl", "between"],
                ["entry", "book", "second", [["author", "{Some One}"], ["isbn", "{123}"]], "raw second"],
                ["string", "jan", '"January"', "@string{jan = \"January\"}"],
                ["preamble", '"pre"'],
                ["failed", "@broken{x,\n y"]]


def rfmt_value(rng, attr):
    if attr == "indent":
        return rng.choice(INDENTS)
    if attr == "col":
        return rng.choice(list(range(41)) + ["auto"] * 40)
    if attr == "sep":
        return rng.choice(SEPS)
    if attr == "trailing":
        return rng.random() < 0.5
    return rng.choice(COMMENTS[1:])


def redit(rng):
    kind = rng.choice(["set_field", "set_field", "setitem", "pop", "delitem", "rename", "rename", "revalue", "fields_set",
                       "fields_clear", "fields_append", "key", "type", "other"])
    return ["edit", rng.randint(0, 7), kind, rng.randint(0, 5), rkey(rng), rval(rng)]


def rstep(rng, keys, skeys, allow_bad):
    r = rng.random()
    if r < 0.28:
        return ["view", rng.choice(VIEWS[:1] * 4 + VIEWS), rng.choice(VIEW_OPS + ["keep"])]
    if r < 0.36:
        return ["held", rng.randint(0, 3), rng.choice(VIEW_OPS)]
    if r < 0.46:
        b = rentry(rng, keys, allow_bad) if rng.random() < 0.6 else rblock(rng, keys, skeys, allow_bad)
        return ["add", [b] if rng.random() < 0.7 else [b, rblock(rng, keys, skeys, allow_bad)], rng.random() < 0.2, rng.random() < 0.5]
    if r < 0.53:
        return ["remove", rng.randint(0, 9)]
    if r < 0.60:
        return ["replace", rng.randint(0, 9), rentry(rng, keys, allow_bad) if rng.random() < 0.7 else rblock(rng, keys, skeys, allow_bad),
                rng.random() < 0.5]
    if r < 0.75:
        return redit(rng)
    if r < 0.82:
        a = rng.choice(FMT_ATTRS + ["col"] * 3)
        return ["fmt", a, rfmt_value(rng, a)]
    if r < 0.95:
        return ["write", rng.choice(["write", "write_string"])]
    return ["write_sub", rng.choice(["write", "write_string"]), [rng.randint(0, 9) for _ in range(rng.randint(0, 4))]]


def rsession(rng):
    keys, skeys = [], []
    allow_bad = rng.random() < 0.12
    blocks = [rentry(rng, keys, allow_bad) if rng.random() < 0.6 else rblock(rng, keys, skeys, allow_bad)
              for _ in range(rng.choice([0, 1, 2, 2, 3, 4, 5]))]
    f = rfmt(rng)
    if f is not None and rng.random() < 0.6:
        f["col"] = "auto"
    steps = [rstep(rng, keys, skeys, allow_bad) for _ in range(rng.randint(1, 8))]
    steps.append(["write", rng.choice(["write", "write_string"])])
    return {"mode": "session", "blocks": blocks, "fmt": f, "steps": steps}


RECONF_KEYS = ["author", "title", "year", "a", "", "organization", "k" * 17, "t\u00eftle", "ID", "Author", "x" * 30]
RECONF_VALUES = {"col": [0, 5, 9, 12, 20, "auto"], "indent": ["", "  ", "\t", "xx"], "sep": ["\n\n", "", "\n%%\n", ","],
                 "trailing": [False, True], "failed": ["% FAIL {n}", "{n}", "", "{{n}} {n}"]}


def rreconf(rng):
    """ONE format object written with, re-configured, written with again ... over a library whose field keys recur
    (in several entries and in every write): whatever is remembered per format object / per key must not outlive a setter."""
    pool = rng.sample(RECONF_KEYS, rng.randint(2, 5)) + [rkey(rng, 30)]
    blocks = []
    for i in range(rng.randint(1, 4)):
        ks = rng.sample(pool, rng.randint(1, min(4, len(pool))))
        blocks.append(["entry", rng.choice(["article", "book"]), "e%d" % i, [[k, rval(rng)] for k in ks], None])
        if rng.random() < 0.2:
            blocks.append(rblock(rng, [], []))
    f = rfmt(rng) or {"indent": "\t", "col": 0, "sep": "\n\n", "trailing": False, "failed": None}
    f["col"] = rng.randint(0, 40) if rng.random() < 0.8 else "auto"
    steps = [["write", rng.choice(["write", "write_string"])]]
    for _ in range(rng.randint(2, 5)):
        for _ in range(rng.choice([1, 1, 2])):
            a = rng.choice(["col"] * 5 + ["indent"] * 2 + FMT_ATTRS)
            v = rfmt_value(rng, a)
            if a == "col" and rng.random() < 0.75:
                v = rng.choice([0, 1, 3, 4, 5, 7, 8, 9, 12, 20, 25, 33, 40])
            steps.append(["fmt", a, v])
        r = rng.random()
        if r < 0.12:
            nf = dict(f, col=rng.choice([0, 6, 14, 30, "auto"]), indent=rng.choice(INDENTS))
            steps.append(["fmt_new", nf])        # a fresh object (possibly at the address of the dropped one)
        elif r < 0.24:
            steps.append(["add", [["entry", "misc", "n%d" % len(steps), [[k, rval(rng)] for k in rng.sample(pool, 2)], None]],
                          False, False])
        elif r < 0.34:
            steps.append(redit(rng))
        if rng.random() < 0.9:
            steps.append(["write", rng.choice(["write", "write_string"])])
        else:
            steps.append(["write_sub", rng.choice(["write", "write_string"]), [rng.randint(0, 9) for _ in range(rng.randint(1, 4))]])
    return {"mode": "session", "blocks": blocks, "fmt": f, "steps": steps}


# ---- user classes: ["u", flags, block] = the block rebuilt from user-side classes (convert below).  flags: S trivial subclass of the
# block's class, C CopyFieldsEntry, F SubField fields, k / v / h = field (or @string) keys / values and block texts / entry type, key
# and raw as str-subclass instances.  One library mixes plain entries with ONE entry subclass (its flavour): Library.add asserts that
# two entries with the same key are of related classes, which SubEntry and CopyFieldsEntry are not.
UC_FLAGS = {"entry": "kvhF", "string": "kvh", "preamble": "vh", "expl": "vh", "impl": "vh", "failed": "h"}
UC_FMT_CLASSES = ["plain", "sub", "attrs", "props"]
UC_BASE = SESSION_BASE + [["impl", "% free text\nsecond line"],
                          ["mwerr", "raw of mw\nline 2", ["entry", "misc", "m", [["k" * 20, "{hidden}"]], None]],
                          ["dupfield", ["entry", "misc", "d", [["a", "{1}"], ["a", "{2}"], ["k" * 25, "{hidden}"]],
                                        "@misc{d, a={1},\r a={2}}"]]]


def rflags(rng, kind, flavor):
    cls = "C" if (flavor == "copy" and kind == "entry") else "S"
    avail = UC_FLAGS[kind]
    r = rng.random()
    if r < 0.35:
        return cls
    if r < 0.55:
        return rng.choice(avail)                # the library's own class holding one kind of str-subclass text
    if r < 0.70:
        return cls + avail
    return (("" if rng.random() < 0.3 else cls) + "".join(c for c in avail if rng.random() < 0.5)) or cls


def uwrap(rng, d, flavor, p=0.6):
    t = d[0]
    if t == "mwerr":
        return [t, d[1], uwrap(rng, d[2], flavor, p)]
    if t == "dupfield":
        return [t, uwrap(rng, d[1], flavor, p)]
    if t == "u" or rng.random() >= p:
        return d
    return ["u", rflags(rng, t, flavor), d]


def ruc(rng):
    return {"lib": rng.random() < 0.5, "fmt": rng.choice(UC_FMT_CLASSES + ["sub", "props"]), "fstr": rng.random() < 0.35}


def uc_session(rng, inp):
    """The blocks of a session (initial ones and those added / put in place later) drawn from the user classes."""
    flavor = rng.choice(["sub", "copy"])
    inp["blocks"] = [uwrap(rng, d, flavor) for d in inp["blocks"]]
    for st in inp["steps"]:
        if st[0] == "add":
            st[1] = [uwrap(rng, d, flavor) for d in st[1]]
        elif st[0] == "replace":
            st[2] = uwrap(rng, st[2], flavor)
    inp["uc"] = ruc(rng)
    return inp


def uc_grid_configs():
    """Every block of UC_BASE alone x (its subclass, each kind of str-subclass text alone, everything at once), and all blocks at once."""
    out = []
    for i, d in enumerate(UC_BASE):
        inner = d[2] if d[0] == "mwerr" else d[1] if d[0] == "dupfield" else d
        kind = inner[0]
        sets = ["S"] + (["C"] if kind == "entry" else []) + list(UC_FLAGS[kind]) + ["S" + UC_FLAGS[kind]] + (
            ["C" + UC_FLAGS[kind]] if kind == "entry" else [])
        for fl in sets:
            w = ["u", fl, inner]
            nb = ["mwerr", d[1], w] if d[0] == "mwerr" else ["dupfield", w] if d[0] == "dupfield" else w
            out.append(UC_BASE[:i] + [nb] + UC_BASE[i + 1:])
    for cls in ("S", "C", ""):
        for strs in (False, True):
            if not cls and not strs:
                continue
            bs = []
            for d in UC_BASE:
                inner = d[2] if d[0] == "mwerr" else d[1] if d[0] == "dupfield" else d
                c = cls if (cls != "C" or inner[0] == "entry") else "S"
                w = ["u", c + (UC_FLAGS[inner[0]] if strs else ""), inner]
                bs.append(["mwerr", d[1], w] if d[0] == "mwerr" else ["dupfield", w] if d[0] == "dupfield" else w)
            out.append(bs)
    return out


def generate_uc(rng, quick):
    cases = []
    # 8a. bounded-exhaustive on a fixed library: block kind x flag set x column x entrypoint (library / format class drawn)
    for blocks in uc_grid_configs():
        for col in ("auto", 9):
            for via in ("write", "write_string"):
                f = {"indent": "  ", "col": col, "sep": "\n\n", "trailing": rng.random() < 0.5, "failed": rng.choice(COMMENTS[:4])}
                cases.append({"stream": "uc_grid", "input": {"mode": "build", "via": via, "blocks": blocks, "fmt": f, "uc": ruc(rng)}})
    # 8b. bounded-exhaustive: format class x str kind of its settings x library class x column x entrypoint, blocks plain / user classes
    allsub = uc_grid_configs()[-4]
    for blocks in (UC_BASE, allsub):
        for fcls in UC_FMT_CLASSES:
            for fstr in (False, True):
                for lib in (False, True):
                    for col in ("auto", 9, 0):
                        for via in ("write", "write_string"):
                            f = {"indent": rng.choice(INDENTS), "col": col, "sep": rng.choice(SEPS), "trailing": rng.random() < 0.5,
                                 "failed": rng.choice(COMMENTS)}
                            cases.append({"stream": "uc_fmt_grid", "input": {
                                "mode": "build", "via": via, "blocks": blocks, "fmt": f, "uc": {"lib": lib, "fmt": fcls, "fstr": fstr}}})
    # 8c. random libraries of user-class blocks x random formats of user classes (a few with non-str values: exception class)
    for _ in range(500 if quick else 20000):
        keys, skeys = [], []
        flavor = rng.choice(["sub", "copy"])
        bad = rng.random() < 0.06
        blocks = [uwrap(rng, rblock(rng, keys, skeys, allow_bad=bad), flavor, 0.7) for _ in range(rng.choice([1, 1, 2, 3, 4, 6, 9]))]
        cases.append({"stream": "uc_build", "input": {"mode": "build", "via": rng.choice(["write", "write_string"]),
                                                      "blocks": blocks, "fmt": rfmt(rng), "uc": ruc(rng)}})
    # 8d. parsed libraries rebuilt block by block from user classes (conv: flag sets applied round-robin to the parsed blocks)
    for _ in range(150 if quick else 4000):
        cls = rng.choice("SC")
        conv = [rng.choice(["", cls, cls, cls + "kvhF", "".join(c for c in cls + "kvhF" if rng.random() < 0.5)])
                for _ in range(rng.randint(1, 4))]
        if not any(conv):
            conv[0] = cls
        cases.append({"stream": "uc_parse", "input": {"mode": "parse", "via": rng.choice(["write", "write_string"]),
                                                      "text": rtext(rng), "fmt": rfmt(rng), "uc": dict(ruc(rng), conv=conv)}})
    # 8e. sessions and re-configuration sessions (oracle only) over user-class blocks / library / format
    for _ in range(200 if quick else 6000):
        cases.append({"stream": "uc_session", "input": uc_session(rng, rsession(rng))})
    for _ in range(80 if quick else 2000):
        cases.append({"stream": "uc_session_reconf", "input": uc_session(rng, rreconf(rng))})
    return cases


# ---- numeric and size edges of the layout.  Whatever the writer keeps of a FIXED size (a run of blanks the padding is sliced from, a
# table of paddings / indents / separators, a line buffer, a cache by key length) must be exceeded, and every threshold is crossed
# from both sides.  All cases are ordinary "build" / "session" cases: the verdict is expected_text (every line re-derived from the
# library and the format, the padding being exactly max(0, column - len(key) - 3) blanks) and the model comparison as for every other
# build case.  inp["layout"] names the kind for the distribution only.
def _edges(bases, lo=0):
    return sorted({b + d for b in bases for d in (-1, 0, 1) if b + d >= lo})


LAYOUT_COLS = sorted(set([64, 65, 67, 68, 72, 100, 127, 128, 129, 255, 256, 1000, 4096] + _edges([32, 64, 128, 256, 512, 1024, 2048, 4096, 100, 1000])
                         + [66, 69, 70, 71, 80, 120, 200, 300, 500]))
LAYOUT_KLENS_SHORT = [1, 2, 3]
LAYOUT_KLENS_LONG_Q = [60, 63, 64, 65, 100, 128, 140]
LAYOUT_DIFFS = sorted(set([1, 2, 63, 64, 65, 100, 300] + _edges([32, 64, 128, 256, 512, 1024, 100, 300, 1000])))
LAYOUT_INDENT_LENS = sorted(set([0, 1, 2] + _edges([8, 16, 32, 64, 128, 256, 1000, 4096])))
LAYOUT_COUNTS = sorted(set([0, 1, 2, 3, 4, 50] + _edges([8, 16, 32, 50, 64, 128, 256]) + [100]))
LAYOUT_SEP_LENS = sorted(set([0, 1, 2] + _edges([64, 256]) + [1000, 4096]))
LAYOUT_VAL_LENS = [0, 1, 63, 64, 65, 255, 256, 257, 1000, 4096, 10000]
LAYOUT_KEY_CHARS = "abcdefghijklmnopqrstuvwxyz"
LAYOUT_MODEL_LIMIT = 4500          # characters of written text up to which a layout case is also put to the model


def lkey(rng, n):
    """A field key of exactly n characters."""
    r = rng.random()
    if r < 0.6:
        return rng.choice(LAYOUT_KEY_CHARS) * n
    if r < 0.9:
        return "".join(rng.choice(LAYOUT_KEY_CHARS + "0123456789_-:.") for _ in range(n))
    return "".join(rng.choice(KEY_ALPHA) for _ in range(n))


def lindent(rng, n):
    r = rng.random()
    if r < 0.5:
        return " " * n
    if r < 0.7:
        return "\t" * n
    if r < 0.9:
        return "".join(rng.choice(" \t") for _ in range(n))
    return "x" * n


def lval(rng, j):
    if rng.random() < 0.04:
        return "{" + "v" * rng.choice(LAYOUT_VAL_LENS) + "}" if rng.random() < 0.8 else ""
    return rng.choice(["{v%d}", '"w%d"', "%d", "{a = %d}"]) % j


def lfields(rng, klens):
    return [[lkey(rng, n), lval(rng, j)] for j, n in enumerate(klens)]


def lentry(rng, i, klens):
    return ["entry", rng.choice(["article", "book", "misc"]), "e%d" % i, lfields(rng, klens), None]


def lfmt(rng, col, indent=None, sep=None):
    return {"indent": rng.choice(["", " ", "\t", "  ", "    "]) if indent is None else indent, "col": col,
            "sep": rng.choice(["\n\n", "\n", ""]) if sep is None else sep, "trailing": rng.random() < 0.5,
            "failed": rng.choice([None, None, "% FAIL {n}"])}


def lcase(rng, kind, blocks, f, via=None):
    return {"stream": "layout_" + kind, "input": {"mode": "build", "via": via or rng.choice(["write", "write_string"]), "blocks": blocks,
                                                   "fmt": f, "layout": kind}}


def lother(rng):
    """A block that is not an entry; failed blocks hide an entry with a very long key, which must not count for 'auto'."""
    r = rng.random()
    if r < 0.3:
        return ["string", lkey(rng, rng.choice([1, 3, 70, 200])), '"s"', None]
    if r < 0.5:
        return ["expl", "a comment"]
    if r < 0.7:
        return ["failed", "@broken{x,\n y"]
    hidden = ["entry", "misc", "h", [[lkey(rng, rng.choice([80, 150, 600])), "{hidden}"]], "raw of h"]
    return rng.choice([["dupfield", ["entry", "misc", "h", [["a", "{1}"], ["a", "{2}"]] + hidden[3], "raw of h"]],
                       ["mwerr", "raw text", hidden]])


def rlayout(rng):
    """A random mixture: every number drawn from the edge pools (with a little jitter) or, sometimes, from the ordinary range."""
    def jit(x):
        return max(0, x + rng.choice([0, 0, 0, -1, 1, -2, 2, rng.randint(-8, 8)]))

    def klen():
        r = rng.random()
        if r < 0.3:
            return rng.randint(1, 3)
        if r < 0.6:
            return rng.randint(60, 140)
        if r < 0.8:
            return rng.randint(4, 59)
        return jit(rng.choice([64, 128, 256, 300, 512, 1000]))
    blocks = []
    r = rng.random()
    ne = 1 if r < 0.4 else 2 if r < 0.7 else 3 if r < 0.9 else rng.choice([4, 8, 50])
    for i in range(ne):
        nf = rng.choice([1, 1, 2, 2, 3, 3, 50 if ne < 4 else 2, rng.randint(0, 12)])
        base = klen()
        r = rng.random()
        if r < 0.35:
            ks = [klen() for _ in range(nf)]
        elif r < 0.7:
            ks = [max(0, base + rng.choice([0, 1, -1, 63, 64, 65, 100, 300, rng.randint(0, 70)]) * (j > 0)) for j in range(nf)]
        else:
            ks = [max(1, base - j) for j in range(nf)]
        rng.shuffle(ks)
        blocks.append(lentry(rng, i, ks))
        if rng.random() < 0.15:
            blocks.append(lother(rng))
    r = rng.random()
    if r < 0.35:
        col = "auto"
    elif r < 0.85:
        col = jit(rng.choice(LAYOUT_COLS))
    elif r < 0.95:
        longest = max([len(k) for b in blocks if b[0] == "entry" for k, _ in b[3]] + [0])
        col = jit(longest + 3 + rng.choice([0, 1, 63, 64, 65, 127, 128, 129, 255, 256, 257, 1000]))
    else:
        col = rng.randint(0, 5000)
    r = rng.random()
    ind = lindent(rng, jit(rng.choice(LAYOUT_INDENT_LENS))) if r < 0.35 else None
    sep = None
    if rng.random() < 0.1:
        sep = rng.choice(["\n", " ", "\n%\n", "-"]) * rng.choice(LAYOUT_SEP_LENS)
    return lcase(rng, "random", blocks, lfmt(rng, col, ind, sep))


def rlayout_session(rng):
    """ONE format object re-configured between narrow and wide layouts, written with each time (oracle only, as every session)."""
    blocks = [lentry(rng, i, [rng.choice([1, 2, 3, rng.randint(60, 140), rng.randint(4, 30)]) for _ in range(rng.choice([1, 2, 3, 6]))])
              for i in range(rng.choice([1, 2, 3]))]
    if rng.random() < 0.3:
        blocks.append(lentry(rng, 9, [rng.choice([65, 128, 200, 303])]))
    f = lfmt(rng, rng.choice([0, 9, 40, "auto", 64, 65, 68, 200]))
    steps = [["write", rng.choice(["write", "write_string"])]]
    for _ in range(rng.randint(2, 5)):
        a = rng.choice(["col", "col", "col", "indent", "sep"])
        if a == "col":
            v = rng.choice(LAYOUT_COLS + [0, 5, 12, 40, "auto", "auto", "auto", "auto"] * 3)
        elif a == "indent":
            v = lindent(rng, rng.choice(LAYOUT_INDENT_LENS[:-3] + [0, 1, 2, 4]))
        else:
            v = "\n" * rng.choice(LAYOUT_SEP_LENS[:-2])
        steps.append(["fmt", a, v])
        if rng.random() < 0.25:
            steps.append(["add", [lentry(rng, 20 + len(steps), [rng.choice([1, 70, 135, 260, 400]), 2])], False, False])
        steps.append(["write", rng.choice(["write", "write_string"])])
    return {"stream": "layout_session", "input": {"mode": "session", "blocks": blocks, "fmt": f, "steps": steps, "layout": "session"}}


def generate_layout(rng, quick):
    cases = []
    # 9a. bounded-exhaustive: key length x integer column far beyond it.  One library per column: an entry holding a key of every
    #     length of the group (paddings col - klen - 3), an entry with ONE field and an entry with TWO fields
    groups = [LAYOUT_KLENS_SHORT] + ([LAYOUT_KLENS_LONG_Q] if quick else [list(range(a, a + 9)) for a in range(60, 141, 9)])
    n = 0
    for g in groups:
        for col in LAYOUT_COLS:
            n += 1
            ks = list(g)
            rng.shuffle(ks)
            blocks = [lentry(rng, 0, ks), lentry(rng, 1, [g[n % len(g)]]), lentry(rng, 2, [g[(n + 1) % len(g)], rng.choice([1, 2, 3, 70])])]
            rng.shuffle(blocks)
            cases.append(lcase(rng, "col_grid", blocks, lfmt(rng, col)))
    # 9b. EVERY padding 0..1146: 50 keys of length 1..50 under columns 50, 100 .. 1150; around 2048, 4096 (.. 65536): 11 / 3 keys
    sweep = [(c, list(range(1, 51))) for c in range(50, 1151, 50)]
    sweep += [(b + 3 + 25, list(range(20, 31))) for b in (2048, 4096)]
    if not quick:
        sweep += [(b + 3 + 2, [1, 2, 3]) for b in (8192, 16384, 32768, 65536)]
    for c, ks in sweep:
        ks = list(ks)
        rng.shuffle(ks)
        cases.append(lcase(rng, "pad_sweep_int", [lentry(rng, 0, ks)], lfmt(rng, c)))
        # the same paddings under 'auto': the longest key (c - 3 characters) in the same / an earlier / a later entry
        ks = list(ks)
        rng.shuffle(ks)
        where = rng.choice(["same", "before", "after"])
        if where == "same":
            ks.insert(rng.randint(0, len(ks)), c - 3)
            blocks = [lentry(rng, 0, ks)]
        else:
            blocks = [lentry(rng, 0, ks), lentry(rng, 1, [c - 3] + [2] * rng.choice([0, 1]))]
            if where == "before":
                blocks.reverse()
        cases.append(lcase(rng, "pad_sweep_auto", blocks, lfmt(rng, "auto")))
    # 9c. 'auto' over two entries whose key lengths differ by d: the short key is padded with exactly d blanks
    for kl in ([[1, 2, 3], [60, 64, 100, 140]] if quick else [[1], [2], [3], [60], [64], [100], [128], [140]]):
        for d in LAYOUT_DIFFS:
            klen = rng.choice(kl)
            n += 1
            a = lentry(rng, 0, [klen] + [rng.choice([1, klen, klen + d - 1, max(1, klen - 1)]) for _ in range(n % 3)])
            b = lentry(rng, 1, [klen + d] + [klen] * (n % 2))
            blocks = [a, b] if rng.random() < 0.5 else [b, a]
            if rng.random() < 0.2:
                blocks.insert(rng.randint(0, 2), lother(rng))
            cases.append(lcase(rng, "auto_diff", blocks, lfmt(rng, "auto")))
    # 9d. indents of 0 .. 4096 characters x columns
    for ilen in LAYOUT_INDENT_LENS:
        for col in ((0, 9, 65, "auto") if quick else (0, 9, 40, 64, 65, 129, "auto")):
            for rep in range(1 if quick else 3):
                n += 1
                ks = [rng.choice([1, 2, 3, 5, 8, 70]) for _ in range(1 + n % 3)]
                cases.append(lcase(rng, "indent_grid", [lentry(rng, 0, ks)], lfmt(rng, col, lindent(rng, ilen))))
    # 9e. sizes: fields per entry, entries per library, length of the separator
    #     ('auto': the ONE longest key sits in the first / the last / some field or entry - nothing may stop counting early)
    def longest_at(cnt):
        return rng.choice([0, cnt - 1, cnt - 1, rng.randrange(cnt)])
    for cnt in LAYOUT_COUNTS:
        for col in (("auto", rng.choice([12, 70])) if quick else ("auto", 12, 70)):
            ks = [rng.randint(1, 20) for _ in range(cnt)]
            if cnt and col == "auto":
                ks[longest_at(cnt)] = rng.choice([21, 40, 90])
            cases.append(lcase(rng, "count_fields", [lentry(rng, 0, ks)], lfmt(rng, col)))
        if cnt:
            for col in ("auto", 70):
                ks = [rng.choice([1, 2, 3, 9, 66]) for _ in range(cnt)]
                if col == "auto":
                    ks[longest_at(cnt)] = rng.choice([67, 80, 131])
                blocks = [lentry(rng, i, [k]) for i, k in enumerate(ks)]
                # the number of separators is the subject: a separator that can be seen
                cases.append(lcase(rng, "count_entries", blocks, lfmt(rng, col, None, rng.choice(["\n\n", "\n", "\n%\n", " "]))))
    for slen in LAYOUT_SEP_LENS:
        for nb in (1, 2, 3, 50):
            blocks = [lentry(rng, i, [rng.choice([1, 2, 3, 9])] * rng.choice([1, 2])) if rng.random() < 0.8 else lother(rng)
                      for i in range(nb)]
            sep = rng.choice(["\n", " ", "\n%\n", "-"]) * slen
            cases.append(lcase(rng, "sep_len", blocks, lfmt(rng, rng.choice(["auto", 12, 70]), None, sep[:slen] if slen else "")))
    # 9f. one library holding keys of EVERY length 1..300 (one entry / six entries), below, inside and above the column
    for col in ("auto", 64, 150, 400):
        for split in (False, True):
            ks = list(range(1, 301))
            rng.shuffle(ks)
            blocks = [lentry(rng, i, ks[i * 50:(i + 1) * 50]) for i in range(6)] if split else [lentry(rng, 0, ks)]
            cases.append(lcase(rng, "key_lengths_1_300", blocks, lfmt(rng, col)))
    # 9g. long values on wide and narrow layouts
    for vlen in LAYOUT_VAL_LENS:
        for col in (("auto", 70) if quick else ("auto", 9, 70)):
            e = lentry(rng, 0, [rng.choice([1, 2, 3, 66]), 5, rng.choice([1, 90])])
            e[3][rng.randint(0, 2)][1] = "{" + "v" * vlen + "}" if vlen else ""
            cases.append(lcase(rng, "value_len", [e], lfmt(rng, col)))
    # 9h. random mixtures; sessions
    for _ in range(220 if quick else 20000):
        cases.append(rlayout(rng))
    for _ in range(60 if quick else 3000):
        cases.append(rlayout_session(rng))
    return cases


def generate(rng, tier):
    quick = tier == "quick"
    cases = []
    # 0. the validating setter of value_column
    for v in [0, 1, 7, 40, -1, -100, 10 ** 6, "auto", "Auto", "AUTO", "", "auto ", "0", "12", True, False, {"t": "none"}]:
        cases.append({"stream": "setter", "input": {"mode": "setter", "arg": v}})
    # 1. bounded-exhaustive grid around the padding boundary: key length x column x trailing x number of fields
    for klen in range(0, 8):
        for col in list(range(0, 13)) + ["auto"]:
            for trailing in (False, True):
                for nf in ((1, 2) if quick else (0, 1, 2, 3)):
                    fields = [["k" * klen, "{v}"]] + [["ab" * j, "{w%d}" % j] for j in range(1, nf)]
                    fields = fields[:nf]
                    cases.append({"stream": "grid", "input": {
                        "mode": "build", "via": "write", "blocks": [["entry", "article", "key", fields, None]],
                        "fmt": {"indent": " ", "col": col, "sep": "\n\n", "trailing": trailing, "failed": None}}})
    # 2. auto over several entries (and keys hidden in non-entry blocks, which must not count)
    for _ in range(60 if quick else 1500):
        keys = []
        blocks = []
        for _ in range(rng.randint(1, 5)):
            blocks.append(rentry(rng, keys))
            if rng.random() < 0.4:
                e = rentry(rng, [])
                e[3].append(["k" * rng.randint(20, 60), "{hidden}"])
                e[4] = "raw"
                blocks.append(rng.choice([["dupfield", e], ["mwerr", "raw text", e]]))
        f = rfmt(rng) or {"indent": "\t", "col": "auto", "sep": "\n\n", "trailing": False, "failed": None}
        f["col"] = "auto"
        cases.append({"stream": "auto", "input": {"mode": "build", "via": rng.choice(["write", "write_string"]),
                                                  "blocks": blocks, "fmt": f}})
    # 3. random libraries x random formats
    for _ in range(1200 if quick else 100000):
        keys, skeys = [], []
        blocks = [rblock(rng, keys, skeys) for _ in range(rng.choice([0, 1, 1, 2, 3, 4, 6, 9]))]
        cases.append({"stream": "build", "input": {"mode": "build", "via": rng.choice(["write", "write_string"]),
                                                   "blocks": blocks, "fmt": rfmt(rng)}})
    # 4. libraries with non-str values / raw None: exception class
    for _ in range(80 if quick else 1500):
        keys, skeys = [], []
        blocks = [rblock(rng, keys, skeys, allow_bad=True) for _ in range(rng.choice([1, 2, 3, 5]))]
        cases.append({"stream": "badvalue", "input": {"mode": "build", "via": "write", "blocks": blocks, "fmt": rfmt(rng)}})
    # 5. parsed libraries
    for _ in range(300 if quick else 12000):
        cases.append({"stream": "parse", "input": {"mode": "parse", "via": rng.choice(["write", "write_string"]),
                                                   "text": rtext(rng), "fmt": rfmt(rng)}})
    # 6. CPython oracle instances: splitlines (exhaustive short strings), format templates
    alpha = "a" + BREAKS + "\x1f"
    for n in range(0, 4 if quick else 5):
        for t in itertools.product(alpha, repeat=n):
            cases.append({"stream": "splitlines", "input": {"mode": "lines", "s": "".join(t)}})
    toks = ["{{", "}}", "{n}", "a", "%", " ", "n", "{", "}", "{0}", "{n!r}", "{m}", "\u00e9"]
    for _ in range(300 if quick else 4000):
        t = "".join(rng.choice(toks[:7] if rng.random() < 0.7 else toks) for _ in range(rng.randint(0, 7)))
        cases.append({"stream": "template", "input": {"mode": "tmpl", "t": t, "n": rng.choice([0, 1, 7, 10, 123, 10 ** 6])}})
    # 7. sessions (oracle only): one Library and one format object used over several steps.
    #    7a. bounded-exhaustive: every copy-returning view x every edit of the returned container x entrypoint x column,
    #        with and without a write before the view is taken, and with the view taken before / edited after a library call
    for name in VIEWS:
        for op in VIEW_OPS:
            for via in ("write", "write_string"):
                for col in ("auto", 9):
                    f = {"indent": "  ", "col": col, "sep": "\n\n", "trailing": False, "failed": None}
                    for pre in ([],) if col != "auto" else ([], [["write", via]],
                                [["view", name, "keep"], ["add", [["entry", "misc", "third", [["k" * 17, "{v}"]], "r"]], False, True],
                                 ["held", 0, op]]):
                        cases.append({"stream": "session_grid", "input": {
                            "mode": "session", "blocks": SESSION_BASE, "fmt": f, "steps": pre + [["view", name, op], ["write", via]]}})
    #    7b. random sessions
    for _ in range(400 if quick else 30000):
        cases.append({"stream": "session", "input": rsession(rng)})
    #    7c. bounded-exhaustive: every format attribute x every ordered pair of settings x entrypoint on ONE format object:
    #        write, set, write, set back, write (the same field keys are written under each setting)
    for attr in FMT_ATTRS:
        vals = RECONF_VALUES[attr]
        for v1 in vals:
            for v2 in vals:
                if v1 == v2:
                    continue
                for via in ("write", "write_string"):
                    f = {"indent": "  ", "col": 9, "sep": "\n\n", "trailing": False, "failed": None}
                    f[attr] = v1
                    cases.append({"stream": "session_reconf_grid", "input": {
                        "mode": "session", "blocks": SESSION_BASE, "fmt": f,
                        "steps": [["write", via], ["fmt", attr, v2], ["write", via], ["fmt", attr, v1], ["write", via]]}})
    #    7d. random re-configuration sessions
    for _ in range(250 if quick else 20000):
        cases.append({"stream": "session_reconf", "input": rreconf(rng)})
    # 8. user classes (drawn after every other stream: the streams above are the same for a given seed as before)
    cases.extend(generate_uc(rng, quick))
    # 9. numeric and size edges of the layout (drawn after every other stream)
    cases.extend(generate_layout(rng, quick))
    return cases


def shrink(case):
    inp = case["input"]
    out = []

    def mk(**kw):
        c = {"stream": case.get("stream", "shrink"), "input": dict(inp, **kw)}
        out.append(c)
    if inp.get("uc"):
        u = inp["uc"]
        if u.get("lib"):
            mk(uc=dict(u, lib=False))
        if u.get("fmt") != "plain":
            mk(uc=dict(u, fmt="plain"))
        if u.get("fstr"):
            mk(uc=dict(u, fstr=False))
        if u.get("conv") and any(u["conv"]):
            mk(uc=dict(u, conv=[""]))
            mk(uc=dict(u, conv=[x[:1] for x in u["conv"]]))
        bs = inp.get("blocks") or []
        for i, b in enumerate(bs):                  # one block back in the library's own class / with fewer str-subclass texts
            w = b[2] if b[0] == "mwerr" else b[1] if b[0] == "dupfield" else b
            if w[0] != "u":
                continue
            for nw in [w[2]] + ([["u", w[1][:1], w[2]]] if len(w[1]) > 1 else []):
                nb = ["mwerr", b[1], nw] if b[0] == "mwerr" else ["dupfield", nw] if b[0] == "dupfield" else nw
                mk(blocks=bs[:i] + [nb] + bs[i + 1:])
    if inp.get("mode") == "build":
        bs = inp["blocks"]
        for i in range(len(bs)):
            mk(blocks=bs[:i] + bs[i + 1:])
        for i, b in enumerate(bs):
            e = b[2] if b[0] == "u" else b
            if e[0] == "entry" and e[3]:
                for j in range(len(e[3])):
                    nb = list(e)
                    nb[3] = e[3][:j] + e[3][j + 1:]
                    mk(blocks=bs[:i] + [nb if b[0] != "u" else ["u", b[1], nb]] + bs[i + 1:])
    elif inp.get("mode") == "session":
        st, bs = inp["steps"], inp["blocks"]
        for i in range(len(st)):
            mk(steps=st[:i] + st[i + 1:])
        for i in range(len(bs)):
            mk(blocks=bs[:i] + bs[i + 1:])
    elif inp.get("mode") == "parse":
        t = inp["text"]
        for k in (2, 4, 8):
            step = max(1, len(t) // k)
            for i in range(0, len(t), step):
                mk(text=t[:i] + t[i + step:])
    if inp.get("fmt"):
        f = inp["fmt"]
        for k, v in (("indent", ""), ("sep", "\n"), ("failed", None), ("trailing", False), ("col", 0)):
            if f.get(k) != v:
                mk(fmt=dict(f, **{k: v}))
    elif inp.get("mode") == "lines" and inp["s"]:
        for i in range(len(inp["s"])):
            mk(s=inp["s"][:i] + inp["s"][i + 1:])
    return out


# ------------------------------------------------------------------ building libraries
def unval(v):
    if isinstance(v, dict):
        if "int" in v:
            return v["int"]
        if "none" in v:
            return None
        if "list" in v:
            return list(v["list"])
    return v


_UCX = None


def ucx():
    """userclasses.get() plus the classes only this property needs, derived from the classes of the tree under test."""
    global _UCX
    if _UCX is not None:
        return _UCX
    from bibtexparser.model import ParsingFailedBlock
    from bibtexparser.writer import BibtexFormat
    from . import userclasses
    uc = userclasses.get()

    class SubFailed(ParsingFailedBlock):
        pass

    class SubFormat(BibtexFormat):
        pass

    class AttrsFormat(BibtexFormat):
        """State of its own next to the settings (constructor arguments with defaults)."""

        def __init__(self, owner="a user", *, notes=None):
            super().__init__()
            self.owner = owner
            self.notes = ["n", 1] if notes is None else notes

    class PropsFormat(BibtexFormat):
        """The five public settings overridden as properties over ONE dict; validation of value_column as in the base class.
        (The counterpart of CopyFieldsEntry: the public attributes are the contract, not the private slots of the base class.)"""

        def __init__(self):
            super().__init__()
            base = BibtexFormat
            self._cfg = {n: getattr(base, n).fget(self) for n in ("indent", "value_column", "block_separator", "trailing_comma",
                                                                  "parsing_failed_comment")}

        def _get(name):                                          # noqa: N805
            return lambda self: self._cfg[name]

        def _set(name):                                          # noqa: N805
            def setter(self, value):
                if name == "value_column":
                    if isinstance(value, int):
                        if value < 0:
                            raise ValueError("value_column must be >= 0")
                    elif value != "auto":
                        raise ValueError("value_column must be an integer or 'auto'")
                self._cfg[name] = value
            return setter
        indent = property(_get("indent"), _set("indent"))
        value_column = property(_get("value_column"), _set("value_column"))
        block_separator = property(_get("block_separator"), _set("block_separator"))
        trailing_comma = property(_get("trailing_comma"), _set("trailing_comma"))
        parsing_failed_comment = property(_get("parsing_failed_comment"), _set("parsing_failed_comment"))
        del _get, _set

    _UCX = (uc, {"failed": SubFailed, "plain": BibtexFormat, "sub": SubFormat, "attrs": AttrsFormat, "props": PropsFormat})
    return _UCX


def convert(b, flags):
    """The block rebuilt from user classes: same content, same raw / start line / metadata.  flags as in the generators; flags that do
    not apply to the block's kind are ignored, blocks that are not of exactly one of the library's six plain classes are returned as is."""
    from bibtexparser import model as M
    uc, own = ucx()
    k, v, h, fsub = "k" in flags, "v" in flags, "h" in flags, "F" in flags

    def s(x, on):
        return uc.StrSub(x) if (on and type(x) is str) else x

    def carry(nb):
        pubapi.set_backing(nb, "block.parser_metadata", dict(b.parser_metadata))
        return nb
    t = type(b)
    if t is M.Entry:
        if k or v or h or fsub:
            fcls = uc.SubField if fsub else M.Field
            fields = [fcls(s(f.key, k), s(f.value, v), f.start_line) for f in b.fields] if (k or v or fsub) else list(b.fields)
            b = carry(M.Entry(s(b.entry_type, h), s(b.key, h), fields, b.start_line, s(b.raw, h)))
        return uc.as_copyfields(b) if "C" in flags else uc.as_sub(b) if "S" in flags else b
    if t is M.String:
        if k or v or h:
            b = carry(M.String(s(b.key, k), s(b.value, v), b.start_line, s(b.raw, h)))
    elif t is M.Preamble:
        if v or h:
            b = carry(M.Preamble(s(b.value, v), b.start_line, s(b.raw, h)))
    elif t in (M.ExplicitComment, M.ImplicitComment):
        if v or h:
            b = carry(t(s(b.comment, v), b.start_line, s(b.raw, h)))
    elif t is M.ParsingFailedBlock:
        if h or "S" in flags or "C" in flags:
            b = carry((own["failed"] if ("S" in flags or "C" in flags) else t)(b.error, b.start_line, s(b.raw, h), b.ignore_error_block))
        return b
    else:
        return b
    return uc.as_sub(b) if ("S" in flags or "C" in flags) else b


def strip_u(d):
    """The plain twin of a block description: the same content in the library's own classes."""
    if d[0] == "u":
        return strip_u(d[2])
    if d[0] == "mwerr":
        return [d[0], d[1], strip_u(d[2])]
    if d[0] == "dupfield":
        return [d[0], strip_u(d[1])]
    return d


def has_u(d):
    return d[0] == "u" or (d[0] == "mwerr" and has_u(d[2])) or (d[0] == "dupfield" and has_u(d[1]))


def build_block(d):
    from bibtexparser import model as M
    t = d[0]
    if t == "u":
        return convert(build_block(d[2]), d[1])
    if t == "entry":
        fs = [M.Field(k, unval(v), i + 1) for i, (k, v) in enumerate(d[3])]
        return M.Entry(d[1], d[2], fs, start_line=0, raw=d[4])
    if t == "string":
        return M.String(d[1], unval(d[2]), start_line=3, raw=d[3])
    if t == "preamble":
        return M.Preamble(d[1], start_line=1, raw="@preamble{" + d[1] + "}")
    if t == "expl":
        return M.ExplicitComment(d[1], start_line=None, raw=None)
    if t == "impl":
        return M.ImplicitComment(d[1], start_line=2, raw=d[1])
    if t == "failed":
        return M.ParsingFailedBlock(error=Exception("x"), start_line=5, raw=d[1])
    if t == "mwerr":
        inner = build_block(d[2])
        pubapi.set_backing(inner, "block.raw", d[1])
        return M.MiddlewareErrorBlock(inner, ValueError("boom"))
    if t == "dupfield":
        e = build_block(d[1])
        ks = [f.key for f in e.fields]
        return M.DuplicateFieldKeyBlock({k for k in ks if ks.count(k) > 1}, e)
    raise ValueError(t)


def make_fmt(f, ucd=None):
    """ucd (the "uc" of the case): the class of the format object and whether its str settings are str-subclass instances."""
    from bibtexparser.writer import BibtexFormat
    if f is None:
        return None
    s = str
    if ucd:
        uc, own = ucx()
        o = own[ucd.get("fmt") or "plain"]()
        if ucd.get("fstr"):
            s = uc.StrSub
    else:
        o = BibtexFormat()
    o.indent = s(f["indent"])
    o.value_column = s(f["col"]) if isinstance(f["col"], str) else f["col"]
    o.block_separator = s(f["sep"])
    o.trailing_comma = f["trailing"]
    if f["failed"] is not None:
        o.parsing_failed_comment = s(f["failed"])
    return o


# ------------------------------------------------------------------ the property, re-derived (no writer internals)
def count_lines(s):
    n = len(BREAK_RE.findall(s))
    m = None
    for m in BREAK_RE.finditer(s):
        pass
    tail = s if m is None else s[m.end():]
    return n + (1 if tail else 0)


def expand_template(t, n):
    if not TEMPLATE_OK.fullmatch(t):
        return None
    return TEMPLATE_TOK.sub(lambda m: {"{{": "{", "}}": "}", "{n}": str(n)}[m.group()], t)


DEFAULT_COMMENT = "% WARNING Parsing failed for the following {n} lines."


def expected_text(blocks, f):
    """(kind, value, checks): kind 'text' | 'exc' | 'outside'."""
    from bibtexparser import model as M
    if f is None:
        f = {"indent": "\t", "col": 0, "sep": "\n\n", "trailing": False, "failed": None}
    comment = DEFAULT_COMMENT if f["failed"] is None else f["failed"]
    entries = [b for b in blocks if isinstance(b, M.Entry)]
    if f["col"] == "auto":
        col = 3 + max([len(fl.key) for e in entries for fl in e.fields] + [0])
    else:
        col = f["col"]
    notes = {"fields": 0, "short": 0, "long": 0, "zero_pad": 0, "failed": 0, "max_pad": 0, "max_key": 0}
    texts = []
    bad = None
    for b in blocks:
        if isinstance(b, M.Entry):
            lines = []
            for i, fl in enumerate(b.fields):
                last = i == len(b.fields) - 1
                padding = " " * max(0, col - len(fl.key) - 3)
                if not isinstance(fl.value, str):
                    bad = bad or "TypeError"
                    continue
                line = f["indent"] + fl.key + padding + " = " + fl.value + ("," if (f["trailing"] or not last) else "") + "\n"
                # the column clause of the property, checked on the line itself
                start = len(f["indent"] + fl.key + padding + " = ")
                if len(fl.key) + 3 <= col:
                    assert start == len(f["indent"]) + col, "column"
                    notes["short"] += 1
                else:
                    assert padding == "" and start == len(f["indent"]) + len(fl.key) + 3
                    notes["long"] += 1
                if padding == "":
                    notes["zero_pad"] += 1
                notes["max_pad"] = max(notes["max_pad"], len(padding))
                notes["max_key"] = max(notes["max_key"], len(fl.key))
                notes["fields"] += 1
                lines.append(line)
            texts.append("@" + b.entry_type + "{" + b.key + ",\n" + "".join(lines) + "}\n")
        elif isinstance(b, M.String):
            if not isinstance(b.value, str):
                bad = bad or "TypeError"
                continue
            texts.append("@string{" + b.key + " = " + b.value + "}\n")
        elif isinstance(b, M.Preamble):
            texts.append("@preamble{" + b.value + "}\n")
        elif isinstance(b, M.ExplicitComment):
            texts.append("@comment{" + b.comment + "}\n")
        elif isinstance(b, M.ImplicitComment):
            texts.append(b.comment + "\n")
        elif isinstance(b, M.ParsingFailedBlock):
            if b.raw is None:
                return "exc", "AttributeError", notes       # outside the property: nothing to emit verbatim
            c = expand_template(comment, count_lines(b.raw))
            if c is None:
                return "outside", None, notes
            notes["failed"] += 1
            texts.append(c + "\n" + b.raw + "\n")
        else:
            return "exc", "ValueError", notes
    if bad:
        return "exc", bad, notes
    if f["col"] == "auto" and notes["fields"]:
        assert notes["zero_pad"] >= 1, "auto column is not minimal"
    return "text", f["sep"].join(texts), notes


def line_diagnostic(text, exp, k):
    """Wording only (the verdict is text != exp): the line of the contract text in which the first difference lies, summarised as
    (characters before ' = ', of which trailing blanks) - a run of 4000 blanks is not readable in the 60-character excerpt."""
    def summary(t):
        a = t.rfind("\n", 0, k) + 1
        b = t.find("\n", k)
        line = t[a:len(t) if b < 0 else b]
        i = line.find(" = ")
        if i < 0:
            return "line of %d characters without ' = '" % len(line)
        head = line[:i]
        return "line of %d characters, %d before the first ' = ' of which %d trailing blanks, starts %r" % (
            len(line), len(head), len(head) - len(head.rstrip(" ")), line[:24])
    if max(len(text), len(exp)) < 200:
        return ""
    return "; got: %s; contract: %s" % (summary(text), summary(exp))


def layout_size(inp):
    """About how many characters the written text of a layout case has, from its description."""
    f = inp.get("fmt") or {"indent": "\t", "col": 0, "sep": "\n\n"}
    entries = [b for b in inp["blocks"] if b[0] == "entry"]
    col = f["col"] if f["col"] != "auto" else 3 + max([len(k) for b in entries for k, _ in b[3]] + [0])
    n = (len(f["sep"]) + 40) * len(inp["blocks"])
    for b in entries:
        for k, v in b[3]:
            n += len(f["indent"]) + max(col, len(k) + 3) + len(v) + 2
    return n


def layout_tags(inp, notes):
    """Distribution of the layout streams: the kind and how far the widest padding / longest key of the case go."""
    tags = ["layout", "layout_" + inp["layout"]]
    for b in (65, 129, 257, 1025, 4097):
        if notes.get("max_pad", 0) >= b:
            tags.append("layout_padding_ge_%d" % b)
    for b in (60, 141, 257):
        if notes.get("max_key", 0) >= b:
            tags.append("layout_key_length_ge_%d" % b)
    f = inp.get("fmt") or {}
    for b in (63, 255, 1000):
        if len(f.get("indent", "")) >= b:
            tags.append("layout_indent_ge_%d" % b)
    if notes.get("fields", 0) >= 50:
        tags.append("layout_fields_ge_50")
    return tags


FMT_PUBLIC = ("indent", "value_column", "block_separator", "trailing_comma", "parsing_failed_comment")


def fmt_state(o):
    """Everything the object holds (deep snapshot, exact classes of the values) and what its five public attributes answer."""
    if o is None:
        return None
    st = {k: (type(v).__name__, copy.deepcopy(v)) for k, v in vars(o).items()}
    for k in FMT_PUBLIC:
        v = getattr(o, k)
        st["public " + k] = (type(v).__name__, v)
    st["class"] = type(o).__name__
    return st


def uc_tags(lib, blocks, fo):
    """Which user classes took part in a write, read off the real objects."""
    from bibtexparser import model as M
    tags = set()

    def user(x):
        return not type(x).__module__.startswith("bibtexparser")

    def ss(x):
        return isinstance(x, str) and type(x) is not str
    if user(lib):
        tags.add("uc_" + type(lib).__name__)
    for b in blocks:
        if user(b):
            tags.add("uc_" + type(b).__name__)
        inner = getattr(b, "ignore_error_block", None)
        if inner is not None and (user(inner) or (isinstance(inner, M.Entry) and any(ss(f.key) or ss(f.value) for f in inner.fields))):
            tags.add("uc_inside_failed_block")
        if ss(b.raw) or ss(getattr(b, "entry_type", None)) or (isinstance(b, M.Entry) and ss(b.key)):
            tags.add("uc_strsub_type_key_raw")
        if isinstance(b, M.Entry):
            if any(user(f) for f in b.fields):
                tags.add("uc_SubField")
            if any(ss(f.key) for f in b.fields):
                tags.add("uc_strsub_field_key")
            if any(ss(f.value) for f in b.fields):
                tags.add("uc_strsub_field_value")
        elif any(ss(getattr(b, a, None)) for a in ("value", "comment")) or (isinstance(b, M.String) and ss(b.key)):
            tags.add("uc_strsub_block_text")
    if fo is not None:
        if user(fo):
            tags.add("uc_" + type(fo).__name__)
        if any(ss(getattr(fo, a)) for a in FMT_PUBLIC):
            tags.add("uc_strsub_format_setting")
        if ss(fo.value_column):
            tags.add("uc_strsub_auto")
    return tags

# ------------------------------------------------------------------ sessions: one Library / one format object, several steps
def judge(r, blocks, f, before, after):
    """One write judged against the property: blocks = what the library held when it was written, f = the format settings."""
    kind, exp, notes = expected_text(blocks, f)
    ok, detail = True, ""
    if r[0] == "exc":
        if kind == "exc":
            if exp != r[2]:
                ok, detail = False, "writer raised %s, expected %s" % (r[2], exp)
        elif kind == "text":
            ok, detail = False, "writer raised %s on a library of str values" % r[2]
    else:
        text = r[1]
        if kind == "exc":
            ok, detail = False, "writer returned text, expected %s" % exp
        elif kind == "text" and text != exp:
            if not isinstance(text, str):
                return False, "writer returned %r" % (text,), kind, exp, notes
            k = next((i for i in range(min(len(text), len(exp))) if text[i] != exp[i]), min(len(text), len(exp)))
            ok, detail = False, "written text differs from the format contract at offset %d: got %r, contract %r%s" % (
                k, text[max(0, k - 30):k + 30], exp[max(0, k - 30):k + 30], line_diagnostic(text, exp, k))
    if ok and before != after:
        ok, detail = False, "the BibtexFormat object was changed by writing: %r -> %r" % (before, after)
    return ok, detail, kind, exp, notes


def edit_view(view, op):
    """The caller edits a list / dict the library handed out.  The library itself is not touched."""
    from bibtexparser import model as M
    foreign = M.Entry("misc", "foreign", [M.Field("k" * 50, "{not in the library}")], start_line=0, raw="foreign")
    try:
        if isinstance(view, dict):
            if op in ("clear", "reverse"):
                view.clear()
            elif op in ("pop", "del_first"):
                view.pop(next(iter(view)))
            else:
                view["foreign"] = foreign
        elif op == "clear":
            while view:
                view.pop()
        elif op == "pop":
            view.pop()
        elif op == "reverse":
            view.reverse()
        elif op == "append_foreign":
            view.append(foreign)
        elif op == "del_first":
            del view[0]
        elif op == "double":
            view.extend(list(view))
    except (IndexError, KeyError, StopIteration):
        pass


def edit_block(blocks, st):
    """In-place edit of a block the library holds, through the public setters of the model classes."""
    from bibtexparser import model as M
    _, i, kind, j, k, v = st
    entries = [b for b in blocks if isinstance(b, M.Entry)]
    if kind == "other" or not entries:
        others = [b for b in blocks if isinstance(b, (M.String, M.Preamble, M.ExplicitComment, M.ImplicitComment))]
        if not others:
            return "noop"
        b = others[i % len(others)]
        if isinstance(b, M.String):
            if j % 2:
                b.key = k
            else:
                b.value = v
        elif isinstance(b, M.Preamble):
            b.value = v
        else:
            b.comment = v
        return "edit_" + type(b).__name__
    e = entries[i % len(entries)]
    fs = e.fields
    if kind == "set_field":
        e.set_field(M.Field(k, v))
    elif kind == "setitem":
        e[fs[j % len(fs)].key if (fs and j % 2) else k] = v
    elif kind == "pop":
        e.pop(fs[j % len(fs)].key if fs else k)
    elif kind == "delitem":
        del e[fs[j % len(fs)].key if fs else k]
    elif kind == "rename":
        if fs:
            fs[j % len(fs)].key = k
    elif kind == "revalue":
        if fs:
            fs[j % len(fs)].value = v
    elif kind == "fields_set":
        e.fields = [M.Field(k, v, 1)] + list(fs[:j])
    elif kind == "fields_clear":
        e.fields = []
    elif kind == "fields_append":
        fs.append(M.Field(k, v))
    elif kind == "key":
        e.key = k
    elif kind == "type":
        e.entry_type = k or "t"
    return "edit_" + kind


def set_fmt(fo, f, attr, val, ucd=None):
    name = {"indent": "indent", "col": "value_column", "sep": "block_separator", "trailing": "trailing_comma",
            "failed": "parsing_failed_comment"}[attr]
    setattr(fo, name, ucx()[0].StrSub(val) if (ucd and ucd.get("fstr") and isinstance(val, str)) else val)
    f[attr] = val


def run_session(inp):
    import bibtexparser
    import implutil
    from bibtexparser import writer
    from bibtexparser.library import Library
    ucd = inp.get("uc")
    if ucd and ucd.get("lib"):
        Library = ucx()[0].SubLibrary                        # noqa: N806 - also the class of the second libraries (write_sub)
    lib = Library([build_block(d) for d in inp["blocks"]])
    f = None if inp.get("fmt") is None else dict(inp["fmt"])
    fo = make_fmt(f, ucd)
    held = []
    tags = set()
    agg = {"fields": 0, "failed": 0, "writes": 0, "after_edit": 0, "max_pad": 0, "max_key": 0}
    dirty = False
    summary = ""
    for n, st in enumerate(inp["steps"]):
        op = st[0]
        if op == "view":
            v = getattr(lib, st[1])
            held.append(v)
            if st[2] != "keep":
                edit_view(v, st[2])
                dirty = True
            tags.add("view_" + st[1])
        elif op == "held":
            if held:
                edit_view(held[st[1] % len(held)], st[2])
                dirty = True
                tags.add("held_view_edited")
        elif op == "add":
            bs = [build_block(d) for d in st[1]]
            r = implutil.guarded(lambda: lib.add(bs if (len(bs) > 1 or st[3]) else bs[0], fail_on_duplicate_key=st[2]))
            tags.add("add" if r[0] == "ok" else "add_raised")
            dirty = True
        elif op == "remove":
            cur = list(lib.blocks)
            if cur:
                r = implutil.guarded(lambda: lib.remove(cur[st[1] % len(cur)]))
                tags.add("remove" if r[0] == "ok" else "remove_raised")
                dirty = True
        elif op == "replace":
            cur = list(lib.blocks)
            if cur:
                nb = build_block(st[2])
                r = implutil.guarded(lambda: lib.replace(cur[st[1] % len(cur)], nb, fail_on_duplicate_key=st[3]))
                tags.add("replace" if r[0] == "ok" else "replace_raised")
                dirty = True
        elif op == "edit":
            r = implutil.guarded(lambda: edit_block(list(lib.blocks), st))
            tags.add(r[1] if r[0] == "ok" and isinstance(r[1], str) else "edit_raised")
            dirty = True
        elif op == "fmt":
            if fo is not None:
                old = f[st[1]]
                set_fmt(fo, f, st[1], st[2], ucd)
                tags.add("fmt_changed_between_writes" if agg["writes"] else "fmt_set")
                if agg["writes"] and st[1] == "col" and old != st[2] and "auto" not in (old, st[2]):
                    tags.add("int_column_changed_between_writes")
                dirty = True
        elif op == "fmt_new":
            f = dict(st[1])
            fo = None                          # drop the old object first: the new one may get its address
            fo = make_fmt(f, ucd)
            tags.add("fmt_object_replaced")
            dirty = True
        elif op in ("write", "write_sub"):
            target = lib
            if op == "write_sub":
                cur = list(lib.blocks)
                target = Library([cur[i % len(cur)] for i in st[2]] if cur else [])
                tags.add("second_library_sharing_blocks")
            blocks = list(target.blocks)
            if ucd:
                tags |= uc_tags(target, blocks, fo)
            before = fmt_state(fo)
            if st[1] == "write_string":
                r = implutil.guarded(lambda: bibtexparser.write_string(target, unparse_stack=[], bibtex_format=fo))
            else:
                r = implutil.guarded(lambda: writer.write(target, fo))
            after = fmt_state(fo)
            ok, detail, kind, exp, notes = judge(r, blocks, f, before, after)
            agg["writes"] += 1
            agg["fields"] += notes["fields"]
            agg["failed"] += notes["failed"]
            agg["max_pad"] = max(agg["max_pad"], notes["max_pad"])
            agg["max_key"] = max(agg["max_key"], notes["max_key"])
            if dirty and agg["writes"] > 1:
                agg["after_edit"] += 1
            dirty = False
            if r[0] == "exc":
                tags.add("write_raised_" + r[2])
                if kind == "exc":
                    tags.add("expects_" + exp)
            if f and f["col"] == "auto":
                tags.add("col_auto")
            summary = ("raised " + r[2]) if r[0] == "exc" else repr(r[1])[:120]
            if not ok:
                return False, "step %d %r of the session: %s" % (n, st[:2], detail), agg, tags, summary
    if agg["after_edit"]:
        tags.add("written_again_after_changes")
    return True, "", agg, tags, summary


def impl(case):
    import enc
    import implutil
    inp = case["input"]
    mode = inp["mode"]
    if mode == "lines":
        s = inp["s"]
        got = s.splitlines()
        return {"sx_in": [62, enc.enc_str(s)], "sx_out": implutil.r_ok([enc.enc_str(x) for x in got]),
                "oracle": {"ok": len(got) == count_lines(s), "detail": "oracle count_lines differs from CPython on %r" % s},
                "nontrivial": any(c in BREAKS for c in s), "key": "L" + json.dumps(s), "tags": ["splitlines"], "summary": repr(got)[:80]}
    if mode == "tmpl":
        t, n = inp["t"], inp["n"]
        r = implutil.guarded(lambda: t.format(n=n))
        exp = expand_template(t, n)
        rec = {"sx_in": [63, enc.enc_str(t), n], "key": "T" + json.dumps([t, n]), "tags": ["template"], "nontrivial": "{" in t}
        if r[0] == "ok":
            rec["sx_out"] = implutil.r_ok(enc.enc_str(r[1]))
            # templates the regex accepts must expand identically; templates it rejects are outside the domain
            rec["oracle"] = {"ok": exp is None or exp == r[1], "detail": "template oracle differs from str.format on %r" % t}
            rec["summary"] = repr(r[1])[:80]
        else:
            rec["sx_out"] = implutil.r_exc(r[1])
            rec["oracle"] = {"ok": exp is None, "detail": "str.format raised %s on a template of the modelled class %r" % (r[2], t)}
            rec["summary"] = "raised " + r[2]
        return rec

    if mode == "setter":
        import bibtexparser
        a = inp["arg"]
        v = None if isinstance(a, dict) else a
        f = bibtexparser.BibtexFormat()
        before = f.value_column
        r = implutil.guarded(lambda: setattr(f, "value_column", v))
        raised = r[0] == "exc"
        after = f.value_column
        legal = (isinstance(v, int) and v >= 0) or v == "auto"
        ok = (raised == (not legal)) and (not raised or r[2] == "ValueError") and (after == (v if legal else before))
        return {"sx_in": [64, enc.enc_value(v)],
                "sx_out": implutil.r_ok([int(raised), ([] if after == "auto" else [int(after)])]),
                "oracle": {"ok": ok, "detail": "value_column = %r: raised=%r after=%r" % (v, raised, after)},
                "nontrivial": True, "key": "S" + repr(v), "tags": ["setter"], "summary": "raised=%r after=%r" % (raised, after)}

    if mode == "session":
        ok, detail, agg, tags, summary = run_session(inp)
        return {"sx_in": None, "sx_out": None, "oracle": {"ok": ok, "detail": detail},
                "nontrivial": bool(agg["fields"] or agg["failed"]),
                "key": json.dumps(["session", inp["blocks"], inp.get("fmt"), inp["steps"]] + ([inp["uc"]] if inp.get("uc") else []),
                                  sort_keys=True),
                "tags": ["session"] + (["uc", "uc_session"] if inp.get("uc") else []) + (
                    layout_tags(inp, agg) if inp.get("layout") else []) + sorted(tags), "summary": "%d writes; last: %s" % (agg["writes"], summary)}

    import bibtexparser
    from bibtexparser import writer
    from bibtexparser.library import Library
    ucd = inp.get("uc")
    lib_cls = ucx()[0].SubLibrary if (ucd and ucd.get("lib")) else Library
    if mode == "build":
        lib = lib_cls([build_block(d) for d in inp["blocks"]])
        # user classes: the model is asked about the plain twin (same content in the library's own classes)
        twin = Library([build_block(strip_u(d)) for d in inp["blocks"]]) if (ucd or any(has_u(d) for d in inp["blocks"])) else lib
    else:
        lib = twin = bibtexparser.parse_string(inp["text"], parse_stack=[])
        if ucd:
            conv = ucd.get("conv") or [""]
            lib = lib_cls([convert(b, conv[i % len(conv)]) for i, b in enumerate(twin.blocks)])
    f = inp.get("fmt")
    fo = make_fmt(f, ucd)
    blocks = list(lib.blocks)
    # layout streams: the model can represent every case; the encodings of the large ones would dominate the run, so those are judged
    # by the oracle only, as the sessions are (decided on the description of the case, before anything is written or encoded)
    big = bool(inp.get("layout")) and layout_size(inp) > LAYOUT_MODEL_LIMIT
    enc_blocks = [[99]] if big else [enc.enc_block(b) for b in twin.blocks]
    if len(enc_blocks) != len(blocks):
        enc_blocks = [[99]]                                  # no twin: oracle only
    if f is None:
        sx_in = [61, enc_blocks]
    else:
        sx_in = [60, [enc.enc_str(f["indent"]), [] if f["col"] == "auto" else [f["col"]], enc.enc_str(f["sep"]),
                      int(f["trailing"]), enc.enc_str(str(fo.parsing_failed_comment))], enc_blocks]
    before = fmt_state(fo)
    if inp.get("via") == "write_string":
        r = implutil.guarded(lambda: bibtexparser.write_string(lib, unparse_stack=[], bibtex_format=fo))
    else:
        r = implutil.guarded(lambda: writer.write(lib, fo))
    after = fmt_state(fo)
    ok, detail, kind, exp, notes = judge(r, blocks, f, before, after)
    rec = {"sx_in": sx_in, "key": json.dumps([inp.get("blocks"), inp.get("text"), f] + ([ucd] if ucd else []), sort_keys=True)}
    if r[0] == "exc":
        rec["sx_out"] = implutil.r_exc(r[1])
        rec["summary"] = "raised " + r[2]
    else:
        text = r[1]
        rec["sx_out"] = implutil.r_ok(enc.enc_str(text)) if (isinstance(text, str) and not big) else implutil.r_ok([99])
        rec["summary"] = repr(text)[:200]
    if any(x == 99 for b in enc_blocks for x in b[:1]):
        rec["sx_in"] = None
    rec["oracle"] = {"ok": ok, "detail": detail}
    rec["nontrivial"] = bool(notes["fields"] or notes["failed"])
    tags = [mode, "col_auto" if (f and f["col"] == "auto") else "col_int"]
    if notes["short"]:
        tags.append("key_shorter_than_column")
    if notes["long"]:
        tags.append("key_longer_than_column")
    if notes["failed"]:
        tags.append("failed_block")
    if kind == "exc":
        tags.append("expects_" + exp)
    if not blocks:
        tags.append("empty_library")
    if inp.get("layout"):
        tags += layout_tags(inp, notes)
        if big:
            rec["sx_in"] = rec["sx_out"] = None
            tags.append("layout_oracle_only_above_%d_characters" % LAYOUT_MODEL_LIMIT)
        elif rec["sx_in"] is not None:
            tags.append("layout_compared_with_model")
    if ucd:
        ut = uc_tags(lib, blocks, fo)
        tags += ["uc"] + sorted(ut) + (["uc_compared_with_model_on_plain_twin"] if rec["sx_in"] is not None else [])
    rec["tags"] = tags
    return rec
