"""JSON specs of values / blocks / libraries shared by the middleware-level engines (C10, C11, C18).

A value spec: str | None | {"int": n} | {"bool": b} | {"list": [...]} | {"parts": [first, von, last, jr]} |
{"dict": [[k, v], ...]} | {"other": 0}.
A block spec: {"t": "entry", "type", "key", "fields": [[key, value, line]], "sl", "raw", "meta": [[k, value]]} |
{"t": "string", "key", "value", ...} | {"t": "preamble"|"expl"|"impl", "text", ...} | {"t": "failed", ...}.
`build_blocks` needs bibtexparser importable (child process only).
"""


def jv(v):
    if isinstance(v, bool):
        return {"bool": v}
    if isinstance(v, int):
        return {"int": v}
    if isinstance(v, list):
        return {"list": [jv(x) for x in v]}
    if isinstance(v, dict):
        return {"dict": [[k, jv(x)] for k, x in v.items()]}
    return v


class _Opaque:
    """An object the models do not look into (no strip / get / ...)."""
    __slots__ = ()

    def __repr__(self):
        return "<opaque>"


def unjv(v):
    if isinstance(v, dict):
        if "int" in v:
            return v["int"]
        if "bool" in v:
            return v["bool"]
        if "list" in v:
            return [unjv(x) for x in v["list"]]
        if "dict" in v:
            return {k: unjv(x) for k, x in v["dict"]}
        if "parts" in v:
            from bibtexparser.middlewares.names import NameParts
            f, vo, la, jr = v["parts"]
            return NameParts(first=list(f), von=list(vo), last=list(la), jr=list(jr))
        if "other" in v:
            return _Opaque()
    return v


def build_block(spec):
    from bibtexparser import model as M
    t = spec["t"]
    sl, raw = spec.get("sl"), spec.get("raw")
    if t == "entry":
        b = M.Entry(spec["type"], spec["key"], [M.Field(k, unjv(v), ln) for k, v, ln in spec["fields"]], start_line=sl, raw=raw)
    elif t == "string":
        b = M.String(spec["key"], unjv(spec["value"]), start_line=sl, raw=raw)
    elif t == "preamble":
        b = M.Preamble(spec["text"], start_line=sl, raw=raw)
    elif t == "expl":
        b = M.ExplicitComment(spec["text"], start_line=sl, raw=raw)
    elif t == "impl":
        b = M.ImplicitComment(spec["text"], start_line=sl, raw=raw)
    elif t == "failed":
        from bibtexparser.exceptions import BlockAbortedException
        b = M.ParsingFailedBlock(BlockAbortedException("Unexpectedly reached end of file."), start_line=sl, raw=raw)
    else:
        raise ValueError(t)
    for k, v in spec.get("meta", []):
        b.parser_metadata[k] = unjv(v)
    return b


def build_blocks(specs):
    return [build_block(s) for s in specs]


# ---------------------------------------------------------------- random libraries (parent process; no imports of the repo)
KEYS = ["k1", "k2", "K1", "dup"]
SKEYS = ["s1", "s2", "S1", "jan"]
FKEYS = ["title", "year", "author", "note", "month", "pages", "Year"]


def gen_library(rng, gen_value, n_max=5, meta_gen=None, string_value=None):
    """A small library spec: entries / strings (with repeated keys) / comments / preamble / failed block."""
    specs = []
    for i in range(rng.randint(1, n_max)):
        r = rng.random()
        sl = rng.choice([None, i, 3 * i + 1])
        raw = rng.choice([None, "@raw%d{...}" % i])
        if r < 0.55:
            nf = rng.choice([0, 1, 1, 2, 2, 3])
            keys = [rng.choice(FKEYS) for _ in range(nf)]
            fields = [[k, gen_value(rng, k), rng.choice([None, j + 1])] for j, k in enumerate(keys)]
            s = {"t": "entry", "type": rng.choice(["article", "book"]), "key": rng.choice(KEYS), "fields": fields, "sl": sl,
                 "raw": raw}
        elif r < 0.8:
            s = {"t": "string", "key": rng.choice(SKEYS), "value": (string_value or gen_value)(rng, None), "sl": sl, "raw": raw}
        elif r < 0.85:
            s = {"t": "preamble", "text": "{p}", "sl": sl, "raw": raw}
        elif r < 0.9:
            s = {"t": "expl", "text": "c {x}", "sl": sl, "raw": raw}
        elif r < 0.95:
            s = {"t": "impl", "text": "free \"text\"", "sl": sl, "raw": raw}
        else:
            s = {"t": "failed", "sl": sl, "raw": raw or "@x{"}
        if meta_gen is not None:
            m = meta_gen(rng, s)
            if m:
                s["meta"] = m
        specs.append(s)
    return specs


def shrink_library(specs):
    """Candidates: drop one block, drop one field, drop metadata."""
    for i in range(len(specs)):
        if len(specs) > 1:
            yield specs[:i] + specs[i + 1:]
    for i, s in enumerate(specs):
        if s["t"] == "entry":
            for j in range(len(s["fields"])):
                t = dict(s, fields=s["fields"][:j] + s["fields"][j + 1:])
                yield specs[:i] + [t] + specs[i + 1:]
        if s.get("meta"):
            t = dict(s)
            del t["meta"]
            yield specs[:i] + [t] + specs[i + 1:]
