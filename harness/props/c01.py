"""C01 - parsing and re-writing never raise: bad input becomes failed blocks."""
import itertools
import re

import gens_split as G
import splitcommon as SC
from props import c01_blank
from props import c01_selfref
from props import c01_hang

ENGINE = "split"
RULE = ("streams: T = all token sequences over the 14-token splitter alphabet up to length 4 (quick) / 5 (thorough) plus random "
        "longer ones; M = mutations of grammar documents; U = arbitrary code points (astral, NUL, surrogates, Unicode digits/letters "
        "in @types); S = size-scaled families (10^3..10^5 lines, blank/comment-only runs, deep nesting, unterminated blocks); "
        "L = lexer cases (re.finditer on the mark regex read from the source vs Model/Lexer.v); K = documents whose entry keys, "
        "@string names and field names are RELATED (identical, differing only in letter case incl. Unicode case pairs, "
        "normalisation forms, prefixes, reserved names), exhaustive over 8 small blocks up to length 3 plus random ones; "
        "K-inc = the same documents fed in pieces through parse_string(text, library=lib), write_string after every step "
        "(oracle only). B / P-B = pieces of text MADE OF or EDGED WITH blank-like characters (props/c01_blank.py): "
        "slot (value of the first / last / only field, @string value / name, entry key, field name, gap after @type, "
        "preamble / comment body, free text; closed, unterminated, at the end of the input) x form (0..3 characters of one "
        "class, an ASCII blank between two of them, a word edged with them) x wrapping (bare, braced, quoted, outside the "
        "delimiters) x class (ASCII blanks, other isspace, string.whitespace only, splitlines boundaries, invisible but not "
        "space), every character of every class in every slot; B additionally writes with the empty write stack and parses / "
        "writes with the empty parse stack (oracle: nothing raises, str comes back). W / P-W / W-inc = THE LIBRARY'S OWN ARTEFACTS AS "
        "INPUT (props/c01_selfref.py; the text is rendered in the implementation child from a recipe, with the warning sentence, "
        "separator, indent and VAL_SEP of the tree under test): the writer's parsing-failed comment - exact for the line count of "
        "the block that follows, and ~65 near misses (other counts, other digit systems incl. isdigit-but-not-int characters, 4400 "
        "digits, case, blanks, doubled, the bare template) - under the default and custom parsing_failed_comment templates / "
        "separators / layouts, placed directly above / a blank line above / below / far from blocks that fail in the splitter, "
        "duplicate-key blocks, duplicate-field blocks and every kind of valid block, as free text, in explicit comments, in values, "
        "as a key; the tree's own output with its warning sentences replaced by the variants; parse -> write -> parse -> write "
        "2, 3 and 4 times under one or two alternating formats; separator / indent / VAL_SEP / template and the library's reserved "
        "words in every slot of a document (oracle on every parse and every write of every cycle: nothing raises, a Library / a str "
        "comes back, every failed block has an error and a raw text that occurs in the text parsed, no block is lost; model "
        "comparison on the rendered text: splitter for W, composed pipeline for P-W; W-inc oracle only). H / P-H = RUNNING TIME IS "
        "PART OF 'ALWAYS RETURNS' (props/c01_hang.py): small texts on which a backtracking pattern or a rescanning loop explodes: "
        "prefix that leaves something open (unterminated braced / quoted / nested value, entry head, @string head, @preamble{, "
        "@comment{, free text, nothing) x a mid-line token not closed on its line (`@w{` `@w(` `@w {` `{` `\"` `=` `#` `,` backslash "
        "`@` ...) x a run of n = 8..512 characters of one class on the same line (letters, digits, blanks, tabs, commas, `=`, `@`, "
        "`#`, backslashes, quotes, mixed, ...) x tail (end of input | newline and a well-formed block | a closing brace lines "
        "away | on the same line); the whole evaluation of a case runs under a limit of CPU time of the child process and a case "
        "that uses it up while a well-formed document of the same length is through in a twentieth of it is a violation with that "
        "text; the ordinary oracle and model comparison (splitter for H, composed pipeline for P-H) apply, plus: a text without "
        "any `}` whose prefix opens a block yields failed blocks and nothing complete, raw texts occur in the text. distinct = distinct text; "
        "non-trivial = at least one failed block or >= 2 blocks")
TRUSTED = ["oracle instance: str.lower restricted to ASCII for the @type text (others skipped for the model comparison, still run "
           "through parse_string/write_string for the no-raise oracle)",
           "memory exhaustion and interpreter stack depth are environment limits observed only by stream S"]
ASSUMPTIONS = ["CPython's Unicode predicates (isspace, \\w) enter the model as per-character flags",
               "termination of the model is by structural recursion; hangs of the Python are caught by the per-case timeout "
               "(wall clock, harness) and, on stream H / P-H, by a CPU-time limit of the child process (ITIMER_PROF) inside the case"]
CASE_TIMEOUT_S = 120


def generate(rng, tier):
    cases = []
    maxlen = 4 if tier == "quick" else 5
    for t in G.token_seqs(maxlen):
        cases.append({"stream": "T", "input": {"text": t}})
    for t in G.token_seqs(3):
        cases.append({"stream": "L", "input": {"text": t, "lex": 1}})
    for _ in range(2000 if tier == "quick" else 60000):
        cases.append({"stream": "T-long", "input": {"text": G.random_token_seq(rng, maxlen + 1, 16)}})
    docs = [G.gen_doc(rng)[0] for _ in range(300)]
    for _ in range(600 if tier == "quick" else 30000):
        cases.append({"stream": "M", "input": {"text": G.mutate(rng, rng.choice(docs))}})
    for i in range(400 if tier == "quick" else 8000):
        g = G.garbage(rng)
        cases.append({"stream": "U", "input": {"text": g}})
        if i % 4 == 0:
            cases.append({"stream": "L", "input": {"text": g, "lex": 1}})
    # E: edge characters in front of / behind documents, mutated documents and token sequences
    for _ in range(400 if tier == "quick" else 10000):
        r = rng.random()
        t = rng.choice(docs) if r < 0.4 else (G.mutate(rng, rng.choice(docs)) if r < 0.7 else G.random_token_seq(rng, 0, 6))
        cases.append({"stream": "E", "input": {"text": G.edge_wrap(rng, t)}})
    for name, text in G.scaled(tier):
        cases.append({"stream": "S", "input": {"text": text, "name": name}})
        if len(text) <= 60000:
            cases.append({"stream": "P-S", "input": {"text": text, "name": name, "pipe": 1}})
    # P: the public entry points with their default stacks, against the composed model (op 151)
    for t in G.token_seqs(3 if tier == "quick" else 4):
        cases.append({"stream": "P", "input": {"text": t, "pipe": 1}})
    for _ in range(1500 if tier == "quick" else 40000):
        r = rng.random()
        t = G.random_token_seq(rng, 4, 14) if r < 0.4 else (G.mutate(rng, rng.choice(docs)) if r < 0.8 else rng.choice(docs))
        cases.append({"stream": "P", "input": {"text": t, "pipe": 1}})
    # K: blocks whose keys / names are related to each other (same, case variants, normal forms, prefixes)
    for n in (1, 2, 3):
        for tup in itertools.product(K_SMALL, repeat=n):
            for sep in (("\n",) if n == 3 else ("\n", "")):
                t = sep.join(tup)
                cases.append({"stream": "K", "input": {"text": t}})
                if n > 1:
                    cases.append({"stream": "K-inc", "input": {"text": t, "texts": list(tup)}})
            if n == 2:
                cases.append({"stream": "P-K", "input": {"text": "\n".join(tup), "pipe": 1}})
    for i in range(1200 if tier == "quick" else 30000):
        blocks = related_blocks(rng)
        t = "".join(blocks)
        cases.append({"stream": "K", "input": {"text": t}})
        if i % 3 == 0:
            cases.append({"stream": "P-K", "input": {"text": t, "pipe": 1}})
        if i % 2 == 0:
            cases.append({"stream": "K-inc", "input": {"text": t, "texts": cut_pieces(rng, blocks)}})
    # B / P-B: text made of or edged with blank-like characters in every slot of a document (props/c01_blank.py)
    cases.extend(c01_blank.generate(rng, tier))
    # W / P-W / W-inc: the library's own artefacts as input (props/c01_selfref.py)
    cases.extend(c01_selfref.generate(rng, tier))
    # H / P-H: small texts on which a backtracking pattern or a rescanning loop explodes (props/c01_hang.py)
    cases.extend(c01_hang.generate(rng, tier))
    return cases


# ------------------------------------------------------------------ K: related keys
K_SMALL = ["@a{k,}", "@a{K,}", "@b{k, t = {x}, T = k}", "@a{K}", "@string{k = {v}}", "@string{K = \"w\"}", "@STRING{k = K}", "@a{kK, k = K # k}"]
# bases: ASCII, digits/punctuation, reserved names, and letters whose case mappings are not 1:1 or not ASCII
# (sharp s, dz digraph with a title-case form, dotted capital I, fi ligature, Kelvin sign, final sigma, combining accent)
KEY_BASES = ["k", "key", "Knuth1984", "jan", "a.b", "x_1", "smith:2020", "ID", "entrytype", "i", "abc", "stra\u00dfe", "\u01c6x",
             "\u0130x", "\ufb01le", "\u212a1", "\u00e9t\u00e9", "o\u03c3\u03c2", "e\u0301a", "\u0131d", "\u1e9e", "\u00b5m", "\u0434\u0430"]
FIELD_BASES = ["title", "t", "month", "author", "ID", "ENTRYTYPE", "key", "\u00e9", "stra\u00dfe", "i"]
K_SEPS = ["\n", "\n", "\n\n", " ", "", "\r\n", "\n% c\n"]
# other blocks around them (\x01 = the key, \x02 = a variant of it): comments, failed blocks, blocks without a key
K_OTHER = ["@comment{\x01}", "@preamble{\"\x01\"}", "stray \x01", "@a{\x01", "@a{\x01,, x}", "@string{\x01}", "@string{= {v}}", "@a{,}",
           "@a{}", "@a{\x01 x = {1}}", "@a{\x01, x = {1} y = {2}}", "@string{\x01 = {v}, \x02 = {w}}"]


def key_variant(rng, base):
    import unicodedata
    r = rng.randrange(16)
    if r < 3:
        return base
    if r == 3:
        return base.lower()
    if r == 4:
        return base.upper()
    if r == 5:
        return base.swapcase()
    if r == 6:
        return base.title()
    if r == 7:
        return base.capitalize()
    if r == 8:
        return base.casefold()
    if r in (9, 10):                                  # the case of one letter flipped
        i = rng.randrange(len(base))
        return base[:i] + base[i].swapcase() + base[i + 1:]
    if r == 11:
        return unicodedata.normalize(rng.choice(["NFC", "NFD", "NFKC", "NFKD"]), base)
    if r == 12:
        return base.upper().lower()
    if r == 13:
        return base[:-1] if len(base) > 1 else base + base
    if r == 14:
        return base + rng.choice(["2", "a", "A", ".", "\u0307"])
    return rng.choice(["x", "K", "k"]) + base


def _k_value(rng, names):
    r = rng.random()
    if r < 0.3:
        return "{" + rng.choice(["v", "", "The {T}itle", "a # b", "{v}", "\u00e9"]) + "}"
    if r < 0.5:
        return '"' + rng.choice(["w", "", "x {\"} y", "{w}"]) + '"'
    if r < 0.6:
        return rng.choice(["1984", "0", "12"])
    ref = key_variant(rng, rng.choice(names))
    if r < 0.85:
        return ref
    return ref + rng.choice([" # ", "#", " #\n"]) + (key_variant(rng, rng.choice(names)) if rng.random() < 0.5 else '"z"')


def related_blocks(rng):
    """list of source pieces (block text followed by its separator) whose keys are variants of one or two bases"""
    bases = [rng.choice(KEY_BASES) for _ in range(rng.choice([1, 1, 1, 2]))]
    fbases = [rng.choice(FIELD_BASES) for _ in range(rng.choice([1, 1, 2]))]
    names = bases + ["jan"]
    out = []
    for _ in range(rng.randint(2, 6)):
        r = rng.random()
        key = key_variant(rng, rng.choice(bases))
        if r < 0.55:
            typ = rng.choice(["a", "book", "Article", "MISC", "string2", "comment_"])
            w1, w2 = rng.choice(G.INNER_WS), rng.choice(G.INNER_WS)
            nf = rng.randint(0, 3)
            if nf == 0 and rng.random() < 0.4:
                b = "@" + typ + "{" + w1 + key + w2 + "}"
            else:
                fs = [rng.choice(G.INNER_WS) + key_variant(rng, rng.choice(fbases)) + rng.choice([" = ", "="]) + _k_value(rng, names)
                      for _ in range(nf)]
                b = "@" + typ + "{" + w1 + key + w2 + "," + ",".join(fs) + rng.choice(["", ",", "\n", ",\n"]) + "}"
        elif r < 0.9:
            kw = rng.choice(["string", "String", "STRING"])
            b = "@" + kw + rng.choice(G.HWS) + "{" + rng.choice(G.INNER_WS) + key + rng.choice(G.INNER_WS) + "=" + rng.choice(["", " "]) + _k_value(rng, names) + "}"
        else:
            b = rng.choice(K_OTHER).replace("\x01", key).replace("\x02", key_variant(rng, key))
        out.append(b + rng.choice(K_SEPS))
    return out


def cut_pieces(rng, blocks):
    """the document as a sequence of texts for incremental parsing: cut at block boundaries, sometimes a piece twice"""
    pieces, cur = [], ""
    for b in blocks:
        cur += b
        if rng.random() < 0.6:
            pieces.append(cur)
            cur = ""
    if cur:
        pieces.append(cur)
    r = rng.random()
    if r < 0.2:
        pieces.append(rng.choice(pieces))               # the same text once more into the same library
    elif r < 0.3:
        pieces.reverse()
    elif r < 0.4:
        pieces.insert(rng.randrange(len(pieces) + 1), rng.choice(["", "\n", "@a{", "}", "@string{", "% only a comment"]))
    return pieces


def incremental(texts):
    """C01 on parse_string(text, library=lib): one library filled by several calls, written after every call."""
    import implutil, bibtexparser
    from bibtexparser.library import Library
    lib, expected = None, 0
    outs = []
    for i, t in enumerate(texts):
        where = "step %d of %d (text %r)" % (i + 1, len(texts), t[:60])
        s = SC.split_impl(t)
        if s[0] == "exc":
            return False, "parse_string(text, parse_stack=[]) raised %s at %s" % (s[2], where), outs
        expected += len(s[1].blocks)
        r = implutil.guarded(lambda: bibtexparser.parse_string(t) if lib is None else bibtexparser.parse_string(t, library=lib))
        if r[0] == "exc":
            return False, "parse_string(text, library=<library of the earlier texts>) raised %s at %s" % (r[2], where), outs
        lib = r[1]
        if not isinstance(lib, Library):
            return False, "parse_string returned %s at %s" % (type(lib).__name__, where), outs
        w = implutil.guarded(lambda: bibtexparser.write_string(lib))
        if w[0] == "exc":
            return False, "write_string raised %s at %s" % (w[2], where), outs
        if not isinstance(w[1], str):
            return False, "write_string returned %s at %s" % (type(w[1]).__name__, where), outs
        outs.append(w[1])
        for b in lib.failed_blocks:
            if not isinstance(b.raw, str) or not isinstance(b.error, Exception):
                return False, "failed block without raw text or error: %r at %s" % (b, where), outs
        if len(lib.blocks) != expected:
            return False, "the texts so far split into %d blocks, the library holds %d at %s" % (expected, len(lib.blocks), where), outs
    return True, "", outs


def _regex_from_source():
    import ast, os, bibtexparser
    src = open(os.path.join(os.path.dirname(bibtexparser.__file__), "splitter.py")).read()
    for node in ast.walk(ast.parse(src)):
        if isinstance(node, ast.Call) and getattr(node.func, "attr", None) == "finditer":
            return node.args[0].value
    raise RuntimeError("mark regex not found in splitter.py")


_RX = None


def impl(case):
    if case["input"].get("hang") is not None:
        # "always returns": the ordinary evaluation below, under a limit of CPU time of this process (props/c01_hang.py)
        return c01_hang.run(case, _impl)
    return _impl(case)


def _impl(case):
    import enc, implutil, bibtexparser
    global _RX
    text = case["input"]["text"]
    sr = case["input"].get("self")
    stags, pieces = [], None
    if sr is not None:
        # the text of these cases is made here, from the recipe, with what the tree under test writes (props/c01_selfref.py)
        text, stags, failure, pieces = c01_selfref.build(sr)
        if failure is not None:
            return {"sx_in": None, "sx_out": None, "oracle": {"ok": False, "detail": failure}, "nontrivial": True,
                    "key": "self:" + repr(sorted(sr.items()))[:300], "tags": stags, "summary": failure[:160]}
        if pieces is not None:
            ok, detail, more = c01_selfref.judge(text, sr, pieces)
            return {"sx_in": None, "sx_out": None, "oracle": {"ok": ok, "detail": detail}, "nontrivial": True,
                    "key": "self-inc:" + (text if len(text) < 200 else str(hash(text))) + repr(sr.get("fmt")),
                    "tags": ["incremental"] + stags + sorted(more), "summary": detail[:160] or "ok"}
    if case["input"].get("lex"):
        if _RX is None:
            # The lexer model (Model/Lexer.v classify) implements ONE pattern, the pinned tree's.  This stream checks that model
            # against CPython's `re` on the pattern the code uses - meaningful only while the code uses that very pattern as a
            # literal argument of finditer.  A tree that builds its marks differently (precompiled constant, an equivalent
            # pattern, no regex at all) is not wrong for that: the stream is skipped for it and says so in the evidence; what the
            # splitter DOES is compared on every other stream.
            import gen_constants
            try:
                pat = _regex_from_source()
            except Exception:  # noqa: BLE001
                pat = None
            _RX = re.compile(pat, re.MULTILINE) if isinstance(pat, str) and pat == gen_constants.PINNED["mark_regex_src"] else False
        if _RX is False:
            return {"sx_in": None, "sx_out": None, "nontrivial": False, "key": "lex:" + text[:100],
                    "tags": ["lexer:skipped-the-tree-does-not-use-the-modelled-pattern-literally"], "summary": "skipped"}
        marks = [[m.start(), enc.enc_str(m.group(0))] for m in _RX.finditer("\n" + text)]
        return {"sx_in": [130, enc.enc_str(text)], "sx_out": implutil.r_ok(marks), "nontrivial": len(marks) > 1,
                "key": "lex:" + text[:100], "tags": ["lexer"], "summary": "%d marks" % len(marks)}
    if case["input"].get("texts") is not None:
        texts = case["input"]["texts"]
        ok, detail, outs = incremental(texts)
        return {"sx_in": None, "sx_out": None, "oracle": {"ok": ok, "detail": detail}, "nontrivial": len(texts) > 1,
                "key": "inc:" + "\x1e".join(texts)[:300], "tags": ["incremental"], "summary": repr(outs[-1:])[:160]}
    blank = case["input"].get("blank")
    btags = ["blank:slot=" + blank[0], "blank:form=" + blank[1], "blank:wrap=" + blank[2], "blank:class=" + blank[3]] if blank else []
    hang = case["input"].get("hang")
    if hang is not None:
        btags = btags + c01_hang.tags(hang)
    if case["input"].get("pipe"):
        w = implutil.guarded(lambda: bibtexparser.write_string(bibtexparser.parse_string(text)))
        rec = {"sx_in": [151, enc.enc_str(text)], "key": "pipe:" + (text if len(text) < 200 else str(hash(text))),
               "tags": ["pipeline"] + btags + stags}
        if w[0] == "exc":
            rec["sx_out"] = implutil.r_exc(6 if w[1] not in (5, 9, 99) else w[1])
            rec["oracle"] = {"ok": False, "detail": "write_string(parse_string(text)) raised " + w[2]}
            rec["summary"] = "raised " + w[2]
        else:
            rec["sx_out"] = implutil.r_ok(enc.enc_str(w[1]))
            rec["oracle"] = {"ok": isinstance(w[1], str), "detail": ""}
            rec["summary"] = repr(w[1])[:120]
        rec["nontrivial"] = "@" in text
        if not SC.lower_ok(text):
            rec["skip"] = True
        return rec
    rec, r = SC.base_record(text)
    if sr is not None:
        # the statement on every parse and every write of every cycle, under the format(s) of the recipe and the default one
        if r[0] == "exc":
            ok, detail = False, "parse_string(text, parse_stack=[]) raised " + r[2]
        else:
            ok, detail, more = c01_selfref.judge(text, sr, first_split=r)
            stags = stags + sorted(more)
        if not ok and "input of this cycle" not in detail:
            detail += " on the text " + c01_selfref._show(text)
    else:
        ok, detail = plain_oracle(text, r, blank, hang)
    rec["oracle"] = {"ok": ok, "detail": detail}
    kinds = SC.block_kinds(r[1]) if r[0] == "ok" else ["exc"]
    rec["nontrivial"] = len(kinds) >= 2 or "ParsingFailedBlock" in kinds
    rec["key"] = text if len(text) < 200 else str(hash(text))
    rec["tags"] = (sorted(set(kinds)) or ["empty"]) + btags + stags
    return rec


def plain_oracle(text, r, blank, hang=None):
    """the property itself on one text: default parse stack, then default write.  `r` = the guarded parse with the empty stack"""
    import implutil, bibtexparser

    def full():
        lib = bibtexparser.parse_string(text)
        out = bibtexparser.write_string(lib)
        out2 = bibtexparser.write_string(lib)
        return lib, out, out2
    f = implutil.guarded(full)
    ok, detail = True, ""
    if r[0] == "exc":
        ok, detail = False, "parse_string(text, parse_stack=[]) raised " + r[2]
    elif f[0] == "exc":
        ok, detail = False, "parse_string / write_string raised " + f[2]
    else:
        lib, out, out2 = f[1]
        if not isinstance(out, str):
            ok, detail = False, "write_string returned %s" % type(out).__name__
        for b in lib.failed_blocks:
            if not isinstance(b.raw, str) or not isinstance(b.error, Exception):
                ok, detail = False, "failed block without raw text or error: %r" % (b,)
        # syntax errors surface only as failed blocks: every block of the split is in the parsed library too
        if ok and len(lib.blocks) != len(r[1].blocks):
            ok, detail = False, "default stack changed the number of blocks: %d -> %d" % (len(r[1].blocks), len(lib.blocks))
        if ok and blank:
            ok, detail = other_stacks(text, lib, r[1])
        if ok and hang is not None:
            ok, detail = c01_hang.surfaces(text, hang, lib)
            if not ok:
                detail += " on the text " + c01_hang._show(text)
    return ok, detail


def other_stacks(text, lib, lib0):
    """stream B: the statement with the EMPTY stacks too.  `lib` = parse_string(text), `lib0` = parse_string(text, parse_stack=[]);
    writing either of them with the default and with the empty write stack returns a str, nothing raises."""
    import implutil, bibtexparser
    for what, fn in (("write_string(parse_string(text), unparse_stack=[])", lambda: bibtexparser.write_string(lib, unparse_stack=[])),
                     ("write_string(parse_string(text, parse_stack=[]))", lambda: bibtexparser.write_string(lib0)),
                     ("write_string(parse_string(text, parse_stack=[]), unparse_stack=[])",
                      lambda: bibtexparser.write_string(lib0, unparse_stack=[]))):
        w = implutil.guarded(fn)
        if w[0] == "exc":
            return False, "%s raised %s" % (what, w[2])
        if not isinstance(w[1], str):
            return False, "%s returned %s" % (what, type(w[1]).__name__)
    return True, ""


def shrink(case):
    if case["input"].get("texts") is not None or case["input"].get("self") is not None:
        return iter(())                                  # a recipe, not a text: the case is reported as generated
    if case["input"].get("hang") is not None:
        # candidates stay under the CPU-time limit (a shortened text may be the one that does not return); the description of
        # the generated text does not apply to them any more
        return SC.shrink_text(dict(case, input=dict(case["input"], hang={"shrunk": 1})))
    return SC.shrink_text(case)
