"""C01 - parsing and re-writing never raise: bad input becomes failed blocks."""
import re

import gens_split as G
import splitcommon as SC

ENGINE = "split"
RULE = ("streams: T = all token sequences over the 14-token splitter alphabet up to length 4 (quick) / 5 (thorough) plus random "
        "longer ones; M = mutations of grammar documents; U = arbitrary code points (astral, NUL, surrogates, Unicode digits/letters "
        "in @types); S = size-scaled families (10^3..10^5 lines, blank/comment-only runs, deep nesting, unterminated blocks); "
        "L = lexer cases (re.finditer on the mark regex read from the source vs Model/Lexer.v). distinct = distinct text; "
        "non-trivial = at least one failed block or >= 2 blocks")
TRUSTED = ["oracle instance: str.lower restricted to ASCII for the @type text (others skipped for the model comparison, still run "
           "through parse_string/write_string for the no-raise oracle)",
           "memory exhaustion and interpreter stack depth are environment limits observed only by stream S"]
ASSUMPTIONS = ["CPython's Unicode predicates (isspace, \\w) enter the model as per-character flags",
               "termination of the model is by structural recursion; hangs of the Python are caught by the per-case timeout"]
CASE_TIMEOUT_S = 120


def generate(rng, tier):
    cases = []
    maxlen = 4 if tier == "quick" else 5
    for t in G.token_seqs(maxlen):
        cases.append({"stream": "T", "input": {"text": t}})
    for t in G.token_seqs(3):
        cases.append({"stream": "L", "input": {"text": t, "lex": 1}})
    for _ in range(2000 if tier == "quick" else 60000):
        cases.append({"stream": "T-long", "input": {"text": G.random_token_seq(rng, maxlen + 1, 16)}})
    docs = [G.gen_doc(rng)[0] for _ in range(300)]
    for _ in range(600 if tier == "quick" else 30000):
        cases.append({"stream": "M", "input": {"text": G.mutate(rng, rng.choice(docs))}})
    for i in range(400 if tier == "quick" else 8000):
        g = G.garbage(rng)
        cases.append({"stream": "U", "input": {"text": g}})
        if i % 4 == 0:
            cases.append({"stream": "L", "input": {"text": g, "lex": 1}})
    # E: edge characters in front of / behind documents, mutated documents and token sequences
    for _ in range(400 if tier == "quick" else 10000):
        r = rng.random()
        t = rng.choice(docs) if r < 0.4 else (G.mutate(rng, rng.choice(docs)) if r < 0.7 else G.random_token_seq(rng, 0, 6))
        cases.append({"stream": "E", "input": {"text": G.edge_wrap(rng, t)}})
    for name, text in G.scaled(tier):
        cases.append({"stream": "S", "input": {"text": text, "name": name}})
        if len(text) <= 60000:
            cases.append({"stream": "P-S", "input": {"text": text, "name": name, "pipe": 1}})
    # P: the public entry points with their default stacks, against the composed model (op 151)
    for t in G.token_seqs(3 if tier == "quick" else 4):
        cases.append({"stream": "P", "input": {"text": t, "pipe": 1}})
    for _ in range(1500 if tier == "quick" else 40000):
        r = rng.random()
        t = G.random_token_seq(rng, 4, 14) if r < 0.4 else (G.mutate(rng, rng.choice(docs)) if r < 0.8 else rng.choice(docs))
        cases.append({"stream": "P", "input": {"text": t, "pipe": 1}})
    return cases


def _regex_from_source():
    import ast, os, bibtexparser
    src = open(os.path.join(os.path.dirname(bibtexparser.__file__), "splitter.py")).read()
    for node in ast.walk(ast.parse(src)):
        if isinstance(node, ast.Call) and getattr(node.func, "attr", None) == "finditer":
            return node.args[0].value
    raise RuntimeError("mark regex not found in splitter.py")


_RX = None


def impl(case):
    import enc, implutil, bibtexparser
    global _RX
    text = case["input"]["text"]
    if case["input"].get("lex"):
        if _RX is None:
            _RX = re.compile(_regex_from_source(), re.MULTILINE)
        marks = [[m.start(), enc.enc_str(m.group(0))] for m in _RX.finditer("\n" + text)]
        return {"sx_in": [130, enc.enc_str(text)], "sx_out": implutil.r_ok(marks), "nontrivial": len(marks) > 1,
                "key": "lex:" + text[:100], "tags": ["lexer"], "summary": "%d marks" % len(marks)}
    if case["input"].get("pipe"):
        w = implutil.guarded(lambda: bibtexparser.write_string(bibtexparser.parse_string(text)))
        rec = {"sx_in": [151, enc.enc_str(text)], "key": "pipe:" + (text if len(text) < 200 else str(hash(text))), "tags": ["pipeline"]}
        if w[0] == "exc":
            rec["sx_out"] = implutil.r_exc(6 if w[1] not in (5, 9, 99) else w[1])
            rec["oracle"] = {"ok": False, "detail": "write_string(parse_string(text)) raised " + w[2]}
            rec["summary"] = "raised " + w[2]
        else:
            rec["sx_out"] = implutil.r_ok(enc.enc_str(w[1]))
            rec["oracle"] = {"ok": isinstance(w[1], str), "detail": ""}
            rec["summary"] = repr(w[1])[:120]
        rec["nontrivial"] = "@" in text
        if not SC.lower_ok(text):
            rec["skip"] = True
        return rec
    rec, r = SC.base_record(text)
    # the property itself: default parse stack, then default write
    def full():
        lib = bibtexparser.parse_string(text)
        out = bibtexparser.write_string(lib)
        out2 = bibtexparser.write_string(lib)
        return lib, out, out2
    f = implutil.guarded(full)
    ok, detail = True, ""
    if r[0] == "exc":
        ok, detail = False, "parse_string(text, parse_stack=[]) raised " + r[2]
    elif f[0] == "exc":
        ok, detail = False, "parse_string / write_string raised " + f[2]
    else:
        lib, out, out2 = f[1]
        if not isinstance(out, str):
            ok, detail = False, "write_string returned %s" % type(out).__name__
        for b in lib.failed_blocks:
            if not isinstance(b.raw, str) or not isinstance(b.error, Exception):
                ok, detail = False, "failed block without raw text or error: %r" % (b,)
        # syntax errors surface only as failed blocks: every block of the split is in the parsed library too
        if ok and len(lib.blocks) != len(r[1].blocks):
            ok, detail = False, "default stack changed the number of blocks: %d -> %d" % (len(r[1].blocks), len(lib.blocks))
    rec["oracle"] = {"ok": ok, "detail": detail}
    kinds = SC.block_kinds(r[1]) if r[0] == "ok" else ["exc"]
    rec["nontrivial"] = len(kinds) >= 2 or "ParsingFailedBlock" in kinds
    rec["key"] = text if len(text) < 200 else str(hash(text))
    rec["tags"] = sorted(set(kinds)) or ["empty"]
    return rec


def shrink(case):
    return SC.shrink_text(case)
