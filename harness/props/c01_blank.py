"""C01, streams B / P-B: text MADE OF or EDGED WITH blank-like characters, in every place where the library looks at text.

`parse_string` / `write_string` strip, split and index the pieces of a document (entry keys, field names, field values, @string
names and values, comment / preamble bodies, free text).  A piece that consists only of blank-like characters - or that is empty
once "the blanks" have been removed, for whichever notion of blank a given line of code uses - is where an index, an unpacking
or a `[0]` raises.  The notions that diverge are the pools of props/charclasses.py:

    ASCII_BLANKS            space, tab, LF, CR                     (what BibTeX skips)
    OTHER_ISSPACE           str.isspace() is true, none of the four  (str.strip() removes them, strip(" \\t\\r\\n") does not)
    STRING_WHITESPACE_ONLY  \\x0b \\x0c                              (in string.whitespace)
    LINE_BOUNDARIES         str.splitlines() breaks there, not LF / CR
    INVISIBLE_NOT_SPACE     blank-looking, str.isspace() is FALSE    (nothing strips them)

A case is  slot x form x wrapping x class:

    slot      where the piece stands (SLOTS below): value of the first / last / only field, with or without trailing comma, at the
              end of the input (closed and unterminated), a piece of a `#` concatenation; value and name of an @string (referenced
              by a field or not, at the end of the input); entry key (with / without comma, unterminated); field name (first /
              last); between `@type` and `{`; body of @preamble / @comment; free text (alone, before / between / behind blocks)
    form      k0 k1 k2 k2d k3 (only k characters of the class: the same one, or two different ones), mix (an ASCII blank between
              two of them), then a word with such characters in front / behind / around / doubled around / in the middle
    wrapping  bare, {braced}, "quoted" (value-like slots), or the whole braced / quoted piece edged from OUTSIDE ({a} with the
              characters between the delimiter and the `=` / `,` / `}` of the block)

`quick` runs every slot x form x wrapping x class once (the characters are drawn from the class with the check's PRNG) and, in
addition, EVERY character of every class in every slot for the forms k1 / k2 / mix (bare) and k2 (braced, quoted); `thorough`
runs the whole product over all characters.  Every choice comes from the rng passed in."""
from props import charclasses as CC

CLASSES = [("ascii", CC.ASCII_BLANKS), ("isspace", CC.OTHER_ISSPACE), ("strws", CC.STRING_WHITESPACE_ONLY),
           ("linebreak", CC.LINE_BOUNDARIES), ("invisible", CC.INVISIBLE_NOT_SPACE)]

# slot name -> (template with \x01 where the piece goes, value-like?)
#   value-like slots take bare / braced / quoted pieces; the others take the bare piece only (a brace there is another document,
#   which the T / M streams explore)
SLOTS = [
    ("value:first", "@article{key,\n  title = \x01,\n  year = 2020\n}\n", True),
    ("value:last", "@article{key,\n  year = 2020,\n  title = \x01\n}\n", True),
    ("value:last-tight-eoi", "@article{key, year = 2020, title = \x01}", True),
    ("value:only-trailing-comma", "@article{key, title = \x01,}", True),
    ("value:only-tight", "@a{k,t=\x01}", True),
    ("value:unterminated-eoi", "@article{key, title = \x01", True),
    ("value:concat-left", "@article{key, title = \x01 # {b}}\n", True),
    ("value:concat-right", "@article{key, title = {a} #\x01}\n", True),
    ("value:two-entries", "@article{k1, title = \x01}\n\n@book{k2, title = \x01, note = \x01}\n", True),
    ("string-value:referenced", "@string{name = \x01}\n@article{key, title = name}\n", True),
    ("string-value:eoi", "@string{name = \x01}", True),
    ("string-value:unterminated-eoi", "@string{name = \x01", True),
    ("string-name:referenced", "@string{\x01 = {a}}\n@article{key, title = \x01}\n", False),
    ("string-name:eoi", "@string{\x01=\"a\"}", False),
    ("entry-key:fields", "@article{\x01,\n  title = {a}\n}\n", False),
    ("entry-key:no-comma-eoi", "@article{\x01}", False),
    ("entry-key:comma-only", "@article{\x01,}\n", False),
    ("entry-key:unterminated-eoi", "@article{\x01", False),
    ("entry-key:twice", "@article{\x01, a = {1}}\n@article{\x01, a = {2}}\n", False),
    ("field-name:first", "@article{key,\n  \x01 = {a},\n  year = 2020\n}\n", False),
    ("field-name:last-eoi", "@article{key, year = 2020, \x01 = {a}}", False),
    ("field-name:twice", "@article{key, \x01 = {a}, \x01 = {b}}\n", False),
    ("field-name:unterminated-eoi", "@article{key, \x01", False),
    ("type-gap", "@article\x01{key, title = {a}}\n", False),
    ("type", "@\x01{key, title = {a}}\n", False),
    ("preamble-body", "@preamble{\x01}\n", True),
    ("preamble-body:eoi-unterminated", "@preamble{\x01", True),
    ("comment-body", "@comment{\x01}\n", True),
    ("comment-body:eoi", "@article{k,}\n@comment{\x01}", True),
    ("free-text:alone", "\x01", True),
    ("free-text:before-block", "\x01@article{k, t = {a}}", False),
    ("free-text:behind-block-eoi", "@article{k, t = {a}}\x01", False),
    ("free-text:between-blocks", "@article{k1,}\x01@article{k2,}\n", False),
    ("free-text:around-blocks", "\x01@string{n = {a}}\x01@article{k,}\x01", False),
    ("free-text:behind-failed-block", "@article{k, t = {a}\n\x01@comment{c}\x01", False),
]

WORDS = ["a", "ab", "Word", "1984", "name", "é"]

PURE_FORMS = ["k0", "k1", "k2", "k2d", "k3", "mix", "mix-nl"]
EDGE_FORMS = ["lead", "trail", "both", "both2", "mid", "both-blank"]
FORMS = PURE_FORMS + EDGE_FORMS
WRAPS = ["bare", "braced", "quoted", "outside-braced", "outside-quoted"]
QUICK_OUTSIDE_FORMS = ("k1", "k2", "k2d", "mix", "both")      # quick tier: the forms run with the outside-* wrappings


def piece(rng, form, pool, a=None):
    """the piece of text for `form` from the characters of `pool` (first character `a` when given)"""
    if a is None:
        a = rng.choice(pool)
    if form == "k0":
        return ""
    if form == "k1":
        return a
    if form == "k2":
        return a + a
    if form == "k2d":
        others = [c for c in pool if c != a]
        return a + (rng.choice(others) if others else a)
    if form == "k3":
        return a + rng.choice([a, rng.choice(pool)]) + a
    if form == "mix":
        return a + " " + rng.choice([a, rng.choice(pool)])
    if form == "mix-nl":
        return a + rng.choice(["\n", "\t", "\r", "\r\n", " \n "]) + a
    w = rng.choice(WORDS)
    if form == "lead":
        return a + w
    if form == "trail":
        return w + a
    if form == "both":
        return a + w + rng.choice([a, rng.choice(pool)])
    if form == "both2":
        return a + a + w + a + a
    if form == "mid":
        return w + a + rng.choice(WORDS)
    if form == "both-blank":                               # an ASCII blank between the word and the character, and outside it
        return rng.choice([a + " " + w + " " + a, " " + a + w + a + " ", a + "\n" + w + "\n" + a])
    raise ValueError(form)


def wrap(rng, how, p):
    if how == "bare":
        return p
    if how == "braced":
        return "{" + p + "}"
    if how == "quoted":
        return '"' + p + '"'
    core = rng.choice(["{a}", "{}", "{The {T}itle}"]) if how == "outside-braced" else rng.choice(['"a"', '""', '"a {"} b"'])
    # the piece goes OUTSIDE the delimiters: in front, behind, or split around
    if len(p) >= 2 and rng.random() < 0.5:
        h = len(p) // 2
        return p[:h] + core + p[h:]
    return rng.choice([p + core, core + p, p + core + p])


def _case(stream, slot, tmpl, form, how, cname, text_piece, pipe=False):
    text = tmpl.replace("\x01", text_piece)
    inp = {"text": text, "blank": [slot, form, how, cname]}
    if pipe:
        inp["pipe"] = 1
    return {"stream": stream, "input": inp}


def generate(rng, tier):
    cases = []
    seen = set()

    def add(slot, tmpl, form, how, cname, p):
        text = tmpl.replace("\x01", p)
        if text in seen:
            return
        seen.add(text)
        cases.append(_case("B", slot, tmpl, form, how, cname, p))
        # the public entry points with their default stacks against the composed model: every fifth one
        if len(seen) % 5 == 0:
            cases.append(_case("P-B", slot, tmpl, form, how, cname, p, pipe=True))

    thorough = tier != "quick"
    for slot, tmpl, valuelike in SLOTS:
        wraps = WRAPS if valuelike else ["bare"]
        # 1. every slot x form x wrapping x class, characters drawn from the class
        for cname, pool in CLASSES:
            for form in FORMS:
                for how in wraps:
                    if how.startswith("outside") and (form == "k0" or (not thorough and form not in QUICK_OUTSIDE_FORMS)):
                        continue
                    for _ in range(3 if thorough else 1):
                        add(slot, tmpl, form, how, cname, wrap(rng, how, piece(rng, form, pool)))
        # 2. every character of every class in this slot
        done = set()
        for cname, pool in CLASSES:
            for a in pool:
                if a in done:                               # \x0b, \x0c, ... are in several pools: once is enough here
                    continue
                done.add(a)
                if thorough:
                    for form in FORMS[1:]:
                        for how in wraps:
                            add(slot, tmpl, form, how, cname, wrap(rng, how, piece(rng, form, pool, a)))
                else:
                    for form in ("k1", "k2", "mix"):
                        add(slot, tmpl, form, "bare", cname, piece(rng, form, pool, a))
                    if valuelike:
                        for how in ("braced", "quoted"):
                            add(slot, tmpl, "k2", how, cname, wrap(rng, how, a + a))
                        add(slot, tmpl, "both", "bare", cname, a + rng.choice(WORDS) + a)
    return cases
