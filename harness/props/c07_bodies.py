"""C07, heap stream: arguments of the Coq models of the SHIPPED middleware bodies (Model/HeapBodies.v).

The heap model knows what is read, written, allocated and returned; what happens to strings enters as finite tables
over atoms.  The tables are computed here from the library the middleware is about to see, with the implementation's
own string helpers (_strip_enclosing, _enclose, resolve_month_field_val, split_multiple_persons_names,
parse_single_name_into_parts, merge_*, _transform_python_value_string): those are C10/C12-C15/C18's subject.
"""
from props import pubapi

BLOCK_SPECS = None


def block_specs():
    """every shipped BlockMiddleware configuration of props.c07.SPECS"""
    global BLOCK_SPECS
    if BLOCK_SPECS is None:
        import props.c07 as P
        BLOCK_SPECS = [s for s in P.SPECS if s[0] not in ("Resolve", "SortBlocks", "LibraryMiddleware")]
        BLOCK_SPECS += [["LatexDecoding", "failing", None], ["SplitNameParts", 0], ["SplitNameParts", 1]]
    return BLOCK_SPECS


class _FailingDecoder:
    """a decoder that fails on some strings, so that the error-block branch of the LaTeX bodies is entered"""

    def latex_to_text(self, s):
        if "a" in s:
            raise ValueError("cannot decode")
        return s.upper()


def make_mw(spec, inplace):
    import props.c07 as P
    if spec[0] == "LatexDecoding" and spec[1] == "failing":
        import bibtexparser.middlewares as M
        return M.LatexDecodingMiddleware(allow_inplace_modification=inplace, decoder=_FailingDecoder())
    return P.make_mw(spec, inplace)


def parse_opt_for(spec, rng):
    n = spec[0]
    if n in ("MergeNameParts",):
        return rng.choice(["split", "split", "split_norm", "sep"])
    if n in ("MergeCoAuthors", "SplitNameParts"):
        return rng.choice(["sep", "sep", "split", "default"])
    if n == "RemoveEnclosing":
        return rng.choice(["raw", "raw", "default"])
    if n == "AddEnclosing":
        return rng.choice(["default", "default", "raw", "month"])
    if n in ("LatexEncoding", "LatexDecoding"):
        return rng.choice(["default", "split_unwrap", "split_unwrap", "sep", "raw"])
    return rng.choice(["default", "raw", "sep", "split", "month", "split_norm"])


def _objects(lib):
    import heapsnap as HS
    return list(HS.reachable([lib]).values())


def _atoms(lib):
    """distinct atoms of the library, by (type, value)"""
    import heapsnap as HS
    import props.c07_heap as H
    seen, out = set(), []
    for a in H.all_atoms(_objects(lib)):
        if isinstance(a, BaseException) or isinstance(a, type):
            continue
        k = (type(a).__name__, a)
        if k not in seen:
            seen.add(k)
            out.append(a)
    return out


def shipped_sx(spec, mw, lib):
    """(model argument sx, skip): the Coq `shipped` value for middleware instance mw about to transform lib.
    skip = the library holds a value the table form cannot describe (AddEnclosing formatting a list / NameParts)."""
    import heapsnap as HS
    from bibtexparser.model import Entry, Field, String
    ac = HS.atom_code
    n = spec[0]
    atoms = _atoms(lib)
    strs = [a for a in atoms if isinstance(a, str)]
    skip = False
    if n == "RemoveEnclosing":
        return [0, ac("removed_enclosing"), [[ac(s)] + [ac(x) for x in pubapi.strip_enclosing(s)] for s in strs]], skip
    if n == "AddEnclosing":
        from bibtexparser.middlewares.enclosing import ENTRY_POTENTIALLY_INT_FIELDS, STRINGS_CAN_BE_UNESCAPED_INTS
        rows, seen = [], set()

        def row(v, prev, key, kcode, rule):
            nonlocal skip
            if not HS.is_atom(v) or not (prev is None or HS.is_atom(prev)):
                skip = True
                return
            k3 = (ac(v), ac(prev), kcode)
            if k3 in seen:
                return
            seen.add(k3)
            try:
                rows.append([list(k3), ac(pubapi.enclose(mw, v, prev, rule))])
            except Exception:  # noqa: BLE001  (_enclose raises ValueError on an unknown enclosing: no row, the model raises too)
                pass
        for b in lib.blocks:
            if isinstance(b, Entry):
                me = b.parser_metadata.get("removed_enclosing")
                for f in b.fields:
                    if HS.is_atom(f.key):
                        prev = me.get(f.key) if isinstance(me, dict) else None
                        row(f.value, prev, f.key, ac(f.key), f.key in ENTRY_POTENTIALLY_INT_FIELDS)
            elif isinstance(b, String):
                row(b.value, b.parser_metadata.get("removed_enclosing"), None, 0, STRINGS_CAN_BE_UNESCAPED_INTS)
        return [1, ac("removed_enclosing"), rows], skip
    if n in ("MonthInt", "MonthAbbrev", "MonthLong"):
        rows = []
        for a in atoms:
            nv, meta = mw.resolve_month_field_val(Field("month", a))
            rows.append([ac(a), ac(nv), ac(meta)])
        return [2, ac("month"), ac(mw.metadata_key()), ac("month field unchanged"), rows], skip
    if n == "NormalizeFieldKeys":
        return [3, [[ac(s), ac(s.lower())] for s in strs]], skip
    if n == "SortFieldsAlpha":
        order = sorted(set(strs))
        return [4, [[ac(s), order.index(s)] for s in strs], 0, ac("sorted_fields_alphabetically"), [0, ac(True)]], skip
    if n == "SortFieldsCustom":
        # the configuration is the harness's own (spec); what the middleware records in the metadata is observed on a probe entry
        import props.c07 as P
        from bibtexparser.library import Library
        cs, given = bool(spec[2]), tuple(P.FIELD_ORDERS[spec[1]])
        order = list(given) if cs else [x.lower() for x in given]
        rows = []
        for s in strs:
            k = s if cs else s.lower()
            rows.append([ac(s), order.index(k) if k in order else len(order)])
        seen_md = make_mw(spec, True).transform(Library([Entry("article", "k", [Field("x", "1")])])).blocks[0].parser_metadata.get(
            "sorted_fields_custom")
        mv = [1, [ac(x) for x in seen_md]] if isinstance(seen_md, list) else [0, ac(seen_md)]
        return [4, rows, len(order), ac("sorted_fields_custom"), mv], skip
    nk = [ac(k) for k in getattr(mw, "name_fields", ())]
    if n == "SeparateCoAuthors":
        from bibtexparser.middlewares.names import split_multiple_persons_names
        return [5, nk, [[ac(s), [ac(x) for x in split_multiple_persons_names(s)]] for s in strs]], skip
    if n == "MergeCoAuthors":
        rows, seen = [], set()
        for o in _objects(lib):
            if type(o) is list and all(isinstance(x, str) for x in o):
                k = tuple(ac(x) for x in o)
                if k not in seen:
                    seen.add(k)
                    rows.append([list(k), ac(" and ".join(o))])
        return [6, nk, rows], skip
    if n == "SplitNameParts":
        from bibtexparser.middlewares.names import InvalidNameError, parse_single_name_into_parts
        rows = []
        for s in strs:
            try:
                p = parse_single_name_into_parts(s)
                rows.append([ac(s), 1, [[ac(x) for x in part] for part in (p.first, p.von, p.last, p.jr)]])
            except InvalidNameError:
                rows.append([ac(s), 0])
            except Exception:  # noqa: BLE001  (no row: the model raises as well)
                pass
        return [7, nk, rows], skip
    if n == "MergeNameParts":
        rows, seen = [], set()
        for o in _objects(lib):
            if type(o).__name__ == "NameParts":
                parts = (o.first, o.von, o.last, o.jr)
                if all(type(p) is list and all(isinstance(x, str) for x in p) for p in parts):
                    k = tuple(tuple(ac(x) for x in p) for p in parts)
                    if k not in seen:
                        seen.add(k)
                        rows.append([[list(p) for p in k], ac(o.merge_last_name_first if mw.style == "last" else o.merge_first_name_first)])
        return [8, nk, rows], skip
    if n in ("LatexEncoding", "LatexDecoding"):
        rows = []
        for a in atoms:
            if isinstance(a, str):
                r, e = pubapi.latex_convert(mw, a)
                rows.append([ac(a), ac(r), e])
            else:
                rows.append([ac(a)])
        return [9, rows], skip
    raise ValueError(spec)


def unwrap_parts(lib):
    """give some fields a bare NameParts value (the shipped name middlewares only ever produce LISTS of NameParts, so
    the NameParts branch of the LaTeX middlewares is otherwise never entered)"""
    from bibtexparser.model import Entry
    for b in lib.blocks:
        if isinstance(b, Entry):
            for i, f in enumerate(b.fields):
                v = f.value
                if type(v) is list and v and type(v[0]).__name__ == "NameParts" and i % 2 == 0:
                    f.value = v[0]
    return lib
