"""C17 - field sorting and key normalisation only permute/merge fields; values intact; frame; idempotence."""
import itertools
import json

ENGINE = "sortfields"
RULE = ("entries whose field keys are drawn from {a, A, b, B, ab, Ab, c} in every collision pattern (all key lists up to "
        "4 fields quick / 6 thorough, longer ones up to 8 sampled) x {alphabetical, normalise, custom order}; custom orders = "
        "all sub-permutations of 4 names x case-sensitive or not x tuple or list (constructor errors included); two-step "
        "compositions; libraries with other block classes around the entry (frame); in-place and copy mode; "
        "the same with the entry an instance of a user subclass of Entry (trivial subclass, and a subclass whose `fields` "
        "getter hands out a copy of the held list: all key lists up to 3 fields quick / 4 thorough x the three middlewares, "
        "longer ones, compositions, frames and all custom orders sampled; judged on the returned entry's `.fields`, encoded "
        "for the model like a plain Entry of the same content). "
        "distinct = distinct (key list, step list, context, mode, entry class); non-trivial = the entry has at least two fields")
TRUSTED = ["oracle instance: str.lower restricted to ASCII (inputs with other cased letters are compared by the Python oracle only)",
           "CPython's sorted() is a stable sort (Base/StableSort.v proves the stable sorted permutation unique, so any such "
           "sort computes the model's insertion sort)"]
ASSUMPTIONS = ["sorted() meets the stable-sort contract; dict preserves insertion order; str comparison is by code point",
               "blocks of the input library share no objects (each block deep-copied on its own before the run); aliasing is C07's subject"]

NAMES = ["a", "A", "b", "B", "ab", "Ab", "c"]
ORDER_NAMES = ["a", "A", "B", "ab"]
ORDER_NAMES_2 = ["A", "b", "Ab", "c"]
# cls: 0 = plain Entry, 1 = userclasses.SubEntry (trivial subclass), 2 = userclasses.CopyFieldsEntry (getter returns a copy)
CLS_NAMES = ["Entry", "SubEntry", "CopyFieldsEntry"]
MW_NAMES = ["alphabetical", "custom", "normalise"]
UNI_NAMES = ["é", "É", "ß", "ẞ", "İ", "i", "I", "Σ", "σ", "ς", "a", "A"]


def subperms(names):
    for k in range(len(names) + 1):
        for p in itertools.permutations(names, k):
            yield list(p)


def custom_step(rng, names=ORDER_NAMES):
    k = rng.randint(0, len(names))
    return [1, rng.randint(0, 1), rng.randint(0, 1), rng.sample(names, k)]


def random_step(rng):
    r = rng.random()
    if r < 0.25:
        return [0]
    if r < 0.5:
        return [2]
    return custom_step(rng, ORDER_NAMES if rng.random() < 0.5 else ORDER_NAMES_2)


def generate(rng, tier):
    cases = []

    def add(stream, names, steps, ctx=0, inplace=True, cls=0):
        inp = {"names": names, "steps": steps, "ctx": ctx, "inplace": inplace}
        if cls:
            inp["cls"] = cls
        cases.append({"stream": stream, "input": inp})

    exh = 4 if tier == "quick" else 6
    for n in range(exh + 1):
        for names in itertools.product(NAMES, repeat=n):
            names = list(names)
            heavy = (tier == "quick") or n <= 5
            add("exhaustive", names, [[0]], 0, bool(rng.getrandbits(1)))
            add("exhaustive", names, [[2]], 0, bool(rng.getrandbits(1)))
            add("exhaustive", names, [custom_step(rng)], 0, bool(rng.getrandbits(1)))
            if heavy and rng.random() < 0.25:
                add("compose", names, [random_step(rng), random_step(rng)], rng.choice([0, 0, 1, 2]), bool(rng.getrandbits(1)))
            if heavy and rng.random() < 0.15:
                add("frame", names, [random_step(rng)], rng.choice([1, 2]), bool(rng.getrandbits(1)))
    # longer entries, sampled
    n_long = 400 if tier == "quick" else 20000
    for _ in range(n_long):
        n = rng.randint(exh + 1, 8)
        names = [rng.choice(NAMES) for _ in range(n)]
        k = rng.randint(1, 3)
        add("long", names, [random_step(rng) for _ in range(k)], rng.choice([0, 0, 0, 1, 2]), bool(rng.getrandbits(1)))
    # every custom order x both case modes x tuple/list against fixed and sampled key lists
    fixed = [NAMES, list(reversed(NAMES)), ["c", "ab", "B", "A", "a", "b", "Ab", "a"], ["B", "b", "B", "A", "a"], ["ab", "Ab", "ab"], []]
    n_rand = 4 if tier == "quick" else 40
    for names_set in (ORDER_NAMES, ORDER_NAMES_2):
        for order in subperms(names_set):
            for cs in (0, 1):
                for tup in (0, 1):
                    lists = list(fixed) + [[rng.choice(NAMES) for _ in range(rng.randint(2, 8))] for _ in range(n_rand)]
                    for names in lists:
                        add("orders", list(names), [[1, cs, tup, order]], 0, bool(rng.getrandbits(1)))
    # constructor errors: duplicates, with and without folding
    for order in (["a", "a"], ["a", "b", "a"], ["a", "A"], ["B", "ab", "b"], ["Ab", "ab", "AB"], ["c", "c", "c"], ["a", "b", "A", "B"]):
        for cs in (0, 1):
            for tup in (0, 1):
                add("ctor", ["b", "a", "A"], [[1, cs, tup, order]], 0, True)
                add("ctor", ["b", "a", "A"], [[0], [1, cs, tup, order]], 0, True)
    # letters whose lower() is outside the ASCII instance: oracle only
    n_uni = 150 if tier == "quick" else 3000
    for _ in range(n_uni):
        names = [rng.choice(UNI_NAMES) for _ in range(rng.randint(1, 6))]
        r = rng.random()
        step = [0] if r < 0.3 else [2] if r < 0.6 else [1, rng.randint(0, 1), rng.randint(0, 1), rng.sample(UNI_NAMES, rng.randint(0, 4))]
        add("unicode", names, [step], 0, bool(rng.getrandbits(1)))
    # ---- entries of user subclasses of Entry (cls 1, 2): every stream above once more for them
    uexh = 3 if tier == "quick" else 4
    for n in range(uexh + 1):
        for names in itertools.product(NAMES, repeat=n):
            names = list(names)
            for cls in (1, 2):
                modes = (True, False) if n <= 2 else (bool(rng.getrandbits(1)),)
                for inplace in modes:
                    add("userclass-exhaustive", names, [[0]], 0, inplace, cls)
                    add("userclass-exhaustive", names, [[2]], 0, inplace, cls)
                    add("userclass-exhaustive", names, [custom_step(rng, ORDER_NAMES if rng.random() < 0.5 else ORDER_NAMES_2)],
                        0, inplace, cls)
            if rng.random() < 0.2:
                add("userclass-compose", names, [random_step(rng), random_step(rng)], rng.choice([0, 0, 1, 2]),
                    bool(rng.getrandbits(1)), rng.choice([1, 2]))
            if rng.random() < 0.1:
                add("userclass-frame", names, [random_step(rng)], rng.choice([1, 2]), bool(rng.getrandbits(1)), rng.choice([1, 2]))
    n_ulong = 300 if tier == "quick" else 6000
    for _ in range(n_ulong):
        names = [rng.choice(NAMES) for _ in range(rng.randint(uexh + 1, 8))]
        add("userclass-long", names, [random_step(rng) for _ in range(rng.randint(1, 3))], rng.choice([0, 0, 0, 1, 2]),
            bool(rng.getrandbits(1)), rng.choice([1, 2]))
    n_ulists = 1 if tier == "quick" else 8
    for names_set in (ORDER_NAMES, ORDER_NAMES_2):
        for order in subperms(names_set):
            for cs in (0, 1):
                for cls in (1, 2):
                    for _ in range(n_ulists):
                        names = (list(rng.choice(fixed)) if rng.random() < 0.5
                                 else [rng.choice(NAMES) for _ in range(rng.randint(2, 8))])
                        add("userclass-orders", names, [[1, cs, rng.randint(0, 1), order]], 0, bool(rng.getrandbits(1)), cls)
    n_uuni = 60 if tier == "quick" else 1200
    for _ in range(n_uuni):
        names = [rng.choice(UNI_NAMES) for _ in range(rng.randint(1, 6))]
        r = rng.random()
        step = [0] if r < 0.3 else [2] if r < 0.6 else [1, rng.randint(0, 1), rng.randint(0, 1), rng.sample(UNI_NAMES, rng.randint(0, 4))]
        add("userclass-unicode", names, [step], 0, bool(rng.getrandbits(1)), rng.choice([1, 2]))
    return cases


def shrink(case):
    inp = case["input"]
    out = []

    def mk(**kw):
        d = dict(inp)
        d.update(kw)
        out.append({"stream": "shrink", "input": d})
    names, steps = inp["names"], inp["steps"]
    for i in range(len(names)):
        mk(names=names[:i] + names[i + 1:])
    if len(steps) > 1:
        for i in range(len(steps)):
            mk(steps=steps[:i] + steps[i + 1:])
    for i, s in enumerate(steps):
        if s[0] == 1:
            for j in range(len(s[3])):
                mk(steps=steps[:i] + [[1, s[1], s[2], s[3][:j] + s[3][j + 1:]]] + steps[i + 1:])
    if inp["ctx"]:
        mk(ctx=0)
    if not inp["inplace"]:
        mk(inplace=True)
    if inp.get("cls"):
        mk(cls=0)
    return out


# ---------------------------------------------------------------------------------------------- implementation side
def field_value(i):
    # distinct values of several Python types: a value must be carried, never re-created or converted
    if i % 3 == 0:
        return "v%d" % i
    if i % 3 == 1:
        return 100 + i
    return ["x%d" % i, i]


def build_blocks(inp):
    from bibtexparser.model import (Entry, Field, String, Preamble, ExplicitComment, ImplicitComment, ParsingFailedBlock,
                                    DuplicateFieldKeyBlock, MiddlewareErrorBlock)
    fields = [Field(n, field_value(i), i) for i, n in enumerate(inp["names"])]
    entry = Entry("article", "k1", fields, start_line=5, raw="@article{k1, ...}")
    ctx = inp["ctx"]
    cls = inp.get("cls", 0)
    if cls:
        # the entry under test is an instance of a user subclass of Entry; with other entries around (ctx 1) the second
        # top-level entry is of the OTHER user class, so that such a library holds plain, trivial-subclass and copy-getter entries
        from props import userclasses
        uc = userclasses.get()
        conv = {1: uc.as_sub, 2: uc.as_copyfields}
        as_cls, as_other = conv[cls], conv[3 - cls]
        entry = as_cls(entry)
    else:
        as_other = lambda e: e  # noqa: E731
    if ctx == 0:
        return [entry]
    if ctx == 2:
        entry.parser_metadata["zzz"] = 1
        entry.parser_metadata["sorted_fields_custom"] = "old"
        entry.parser_metadata["sorted_fields_alphabetically"] = False
        entry.parser_metadata["tail"] = ["t"]
        return [ImplicitComment("head", 0, "head"), entry]
    other = as_other(Entry("Book", "K1", [Field("B", "x", 1), Field("b", "y", 2), Field("A", 3, 3)], start_line=20, raw="@Book{K1}"))
    dup = Entry("misc", "k1", [Field("c", "1", 1), Field("C", "2", 2), Field("a", "3", 3)], start_line=30, raw="@misc{k1}")
    dupf = Entry("misc", "k9", [Field("b", "1", 1), Field("b", "2", 2), Field("a", "3", 3)], start_line=40, raw="@misc{k9}")
    mwe = Entry("misc", "k8", [Field("b", "1", 1), Field("a", "3", 3)], start_line=50, raw="@misc{k8}")
    return [String("s", "{v}", 1, "@string{s = {v}}"), entry, Preamble("p", 10, "@preamble{p}"),
            ExplicitComment("ec", 11, "@comment{ec}"), other, ImplicitComment("ic", 12, "ic"),
            ParsingFailedBlock(Exception("boom"), 13, "@article{broken"), dup,
            DuplicateFieldKeyBlock({"b"}, dupf), MiddlewareErrorBlock(mwe, ValueError("m")),
            String("s", "{w}", 60, "@string{s = {w}}")]


def fold(k, cs):
    return k if cs else k.lower()


def is_entry(b):
    from bibtexparser.model import Entry
    return isinstance(b, Entry)


def enc_b(b):
    """enc.enc_block, with an instance of a user subclass of Entry encoded exactly like a plain Entry of the same content
    (read through its public attributes: entry_type, key, fields, start_line, raw, parser_metadata), also where it sits
    inside an error block.  Blocks without such an entry go to enc.enc_block unchanged."""
    import enc
    from bibtexparser.model import Entry
    if isinstance(b, Entry):
        if type(b) is Entry:
            return enc.enc_block(b)
        return [enc.B_ENTRY, enc.enc_hdr(b), enc.enc_str(b.entry_type), enc.enc_str(b.key), [enc.enc_field(f) for f in b.fields]]
    cn = type(b).__name__
    if cn == "MiddlewareErrorBlock":
        return [enc.B_MWERR, enc.enc_hdr(b), enc.enc_err(b.error), enc_b(b.ignore_error_block)]
    if cn == "DuplicateBlockKeyBlock":
        return [enc.B_DUPKEY, enc.enc_hdr(b), enc.enc_str(b.key), enc_b(b.previous_block), enc_b(b.ignore_error_block)]
    if cn == "DuplicateFieldKeyBlock":
        return [enc.B_DUPFIELD, enc.enc_hdr(b), [enc.enc_str(k) for k in sorted(b.duplicate_keys)], enc_b(b.ignore_error_block)]
    return enc.enc_block(b)


def snapshot(lib):
    """Value snapshot of a library independent of later in-place changes.  Every instance of Entry (plain or of a user
    subclass) is an "Entry" here and is read through its `fields` attribute: the property speaks of the entry's fields."""
    snap = []
    for b in lib.blocks:
        if is_entry(b):
            snap.append(("Entry", b.entry_type, b.key, b.start_line, b.raw,
                         [(f.key, f.value, f.start_line, type(f.value).__name__, json.dumps(f.value)) for f in b.fields]))
        else:
            snap.append((type(b).__name__, json.dumps(enc_b(b))))
    return snap


def trip(f):
    return (f[0], f[4], f[2])


def check_step(step, before, after):
    """The property text for one middleware application, on value snapshots.  Returns '' or a complaint."""
    if len(before) != len(after):
        return "number of blocks changed"
    for b0, b1 in zip(before, after):
        if b0[0] != b1[0]:
            return "block class changed: %s -> %s" % (b0[0], b1[0])
        if b0[0] != "Entry":
            if b0 != b1:
                return "a %s block was changed" % b0[0]
            continue
        if b0[1:5] != b1[1:5]:
            return "entry type/key/start_line/raw changed: %r -> %r" % (b0[1:5], b1[1:5])
        f0, f1 = b0[5], b1[5]
        if step[0] in (0, 1):
            if sorted(map(trip, f0)) != sorted(map(trip, f1)):
                return "fields are not a permutation: %r -> %r" % ([x[:3] for x in f0], [x[:3] for x in f1])
            idx = {x[2]: i for i, x in enumerate(f0)}          # start lines are unique per entry: identity of a field
            if step[0] == 0:
                for x, y in zip(f1, f1[1:]):
                    if x[0] > y[0]:
                        return "keys not ascending: %r" % [z[0] for z in f1]
                    if x[0] == y[0] and idx[x[2]] > idx[y[2]]:
                        return "equal keys lost source order: %r" % [z[:3] for z in f1]
            else:
                cs, order = step[1], step[3]
                folded = list(dict.fromkeys(fold(k, cs) for k in order))
                expect = [x for k in folded for x in f0 if fold(x[0], cs) == k] + [x for x in f0 if fold(x[0], cs) not in folded]
                if [trip(x) for x in expect] != [trip(x) for x in f1]:
                    return "custom order %r (case_sensitive=%s): got %r, expected %r" % (
                        order, bool(cs), [z[0] for z in f1], [z[0] for z in expect])
        else:
            keys = [x[0] for x in f1]
            if any(k != k.lower() for k in keys):
                return "key not lower-case after normalisation: %r" % keys
            if len(set(keys)) != len(keys):
                return "keys not unique after normalisation: %r" % keys
            firsts = []
            for x in f0:
                if x[0].lower() not in firsts:
                    firsts.append(x[0].lower())
            if keys != firsts:
                return "order of first occurrences not kept: %r, expected %r" % (keys, firsts)
            for x in f1:
                last = [y for y in f0 if y[0].lower() == x[0]][-1]
                if (x[4], x[3], x[2]) != (last[4], last[3], last[2]):
                    return "key %r: value %r is not the value of its last occurrence %r" % (x[0], x[1], last[1])
    return ""


def make_mw(step, inplace):
    from bibtexparser.middlewares import SortFieldsAlphabeticallyMiddleware, SortFieldsCustomMiddleware, NormalizeFieldKeys
    if step[0] == 0:
        return SortFieldsAlphabeticallyMiddleware(allow_inplace_modification=inplace)
    if step[0] == 2:
        return NormalizeFieldKeys(allow_inplace_modification=inplace)
    order = tuple(step[3]) if step[2] else list(step[3])
    return SortFieldsCustomMiddleware(order=order, case_sensitive=bool(step[1]), allow_inplace_modification=inplace)


def impl(case):
    import copy
    import enc
    import implutil
    from bibtexparser.library import Library
    inp = case["input"]
    steps, inplace = inp["steps"], inp["inplace"]
    lib0 = Library([copy.deepcopy(b) for b in Library(build_blocks(inp)).blocks])
    sx_steps = [[s[0]] if s[0] != 1 else [1, s[1], s[2], [enc.enc_str(k) for k in s[3]]] for s in steps]
    sx_in = [40, sx_steps, [enc_b(b) for b in lib0.blocks]]
    rec = {"sx_in": sx_in, "key": json.dumps(inp, sort_keys=True), "nontrivial": len(inp["names"]) >= 2, "tags": []}
    cls = inp.get("cls", 0)
    rec["tags"].append("entry-class=" + CLS_NAMES[cls])
    if cls:
        got = [type(b).__name__ for b in lib0.blocks if is_entry(b)]
        if CLS_NAMES[cls] not in got:          # the generator's promise, not the library's: never silently test a plain entry
            raise AssertionError("harness: entry under test is not a %s: %r" % (CLS_NAMES[cls], got))
    all_keys = list(inp["names"]) + [k for s in steps if s[0] == 1 for k in s[3]]
    if not all(enc.lower_is_ascii_only(k) for k in all_keys):
        rec["skip"] = True
    # constructors first
    complaints = []
    mws = []
    ctor_failed = False
    for s in steps:
        r = implutil.guarded(lambda s=s: make_mw(s, inplace))
        dup_expected = s[0] == 1 and len(set(fold(k, s[1]) for k in s[3])) != len(s[3])
        if r[0] == "exc":
            ctor_failed = True
            if not (dup_expected and r[2] == "ValueError"):
                complaints.append("constructor raised %s for order %r" % (r[2], s[3] if s[0] == 1 else None))
            if "sx_out" not in rec:
                rec["sx_out"] = implutil.r_exc(r[1])
                rec["summary"] = "constructor raised " + r[2]
        else:
            if dup_expected:
                complaints.append("order %r has duplicates after case folding but the constructor accepted it" % (s[3],))
            mws.append(r[1])
    if ctor_failed:
        rec["tags"].append("ctor-error")
        rec["oracle"] = {"ok": not complaints, "detail": "; ".join(complaints)}
        return rec
    lib = lib0
    for s, mw in zip(steps, mws):
        before = snapshot(lib)
        r = implutil.guarded(lambda: mw.transform(lib))
        if r[0] == "exc":
            rec["sx_out"] = implutil.r_exc(r[1])
            rec["oracle"] = {"ok": False, "detail": "transform raised %s at step %r" % (r[2], s)}
            rec["summary"] = "raised " + r[2]
            return rec
        out = r[1]
        after = snapshot(out)
        c = check_step(s, before, after)
        if c:
            complaints.append("step %r: %s" % (s, c))
        if not inplace and snapshot(lib) != before:
            complaints.append("step %r: copy mode changed its input library" % (s,))
        # idempotence: the same middleware once more changes nothing
        again = implutil.guarded(lambda: mw.transform(Library([copy.deepcopy(b) for b in out.blocks])))
        if again[0] == "exc":
            complaints.append("step %r: second application raised %s" % (s, again[2]))
        elif [enc_b(b) for b in again[1].blocks] != [enc_b(b) for b in out.blocks]:
            complaints.append("step %r: not idempotent: %r then %r" % (
                s, [[f[0] for f in b[5]] for b in after if b[0] == "Entry"],
                [[f.key for f in b.fields] for b in again[1].blocks if is_entry(b)]))
        if cls:
            rec["tags"].append("userclass/%s/%s/%s" % (CLS_NAMES[cls], MW_NAMES[s[0]], "inplace" if inplace else "copy"))
        lib = out
    rec["sx_out"] = implutil.r_ok([enc_b(b) for b in lib.blocks])
    rec["oracle"] = {"ok": not complaints, "detail": "; ".join(complaints)[:600]}
    ent = [b for b in lib.blocks if is_entry(b)]
    rec["summary"] = repr([(f.key, f.value) for f in ent[0].fields])[:200] if ent else "no entry"
    rec["tags"].append("steps=%d" % len(steps))
    rec["tags"].append("fields=%d" % len(inp["names"]))
    lows = [n.lower() for n in inp["names"]]
    rec["tags"].append("collision" if len(set(lows)) != len(lows) else "no-collision")
    return rec
