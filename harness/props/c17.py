"""C17 - field sorting and key normalisation only permute/merge fields; values intact; frame; idempotence."""
import itertools
import json

ENGINE = "sortfields"
RULE = ("entries whose field keys are drawn from {a, A, b, B, ab, Ab, c} in every collision pattern (all key lists up to "
        "4 fields quick / 6 thorough, longer ones up to 8 sampled) x {alphabetical, normalise, custom order}; custom orders = "
        "all sub-permutations of 4 names x case-sensitive or not x tuple or list (constructor errors included); two-step "
        "compositions; libraries with other block classes around the entry (frame); in-place and copy mode. "
        "distinct = distinct (key list, step list, context, mode); non-trivial = the entry has at least two fields")
TRUSTED = ["oracle instance: str.lower restricted to ASCII (inputs with other cased letters are compared by the Python oracle only)",
           "CPython's sorted() is a stable sort (Base/StableSort.v proves the stable sorted permutation unique, so any such "
           "sort computes the model's insertion sort)"]
ASSUMPTIONS = ["sorted() meets the stable-sort contract; dict preserves insertion order; str comparison is by code point",
               "blocks of the input library share no objects (each block deep-copied on its own before the run); aliasing is C07's subject"]

NAMES = ["a", "A", "b", "B", "ab", "Ab", "c"]
ORDER_NAMES = ["a", "A", "B", "ab"]
ORDER_NAMES_2 = ["A", "b", "Ab", "c"]
UNI_NAMES = ["é", "É", "ß", "ẞ", "İ", "i", "I", "Σ", "σ", "ς", "a", "A"]


def subperms(names):
    for k in range(len(names) + 1):
        for p in itertools.permutations(names, k):
            yield list(p)


def custom_step(rng, names=ORDER_NAMES):
    k = rng.randint(0, len(names))
    return [1, rng.randint(0, 1), rng.randint(0, 1), rng.sample(names, k)]


def random_step(rng):
    r = rng.random()
    if r < 0.25:
        return [0]
    if r < 0.5:
        return [2]
    return custom_step(rng, ORDER_NAMES if rng.random() < 0.5 else ORDER_NAMES_2)


def generate(rng, tier):
    cases = []

    def add(stream, names, steps, ctx=0, inplace=True):
        cases.append({"stream": stream, "input": {"names": names, "steps": steps, "ctx": ctx, "inplace": inplace}})

    exh = 4 if tier == "quick" else 6
    for n in range(exh + 1):
        for names in itertools.product(NAMES, repeat=n):
            names = list(names)
            heavy = (tier == "quick") or n <= 5
            add("exhaustive", names, [[0]], 0, bool(rng.getrandbits(1)))
            add("exhaustive", names, [[2]], 0, bool(rng.getrandbits(1)))
            add("exhaustive", names, [custom_step(rng)], 0, bool(rng.getrandbits(1)))
            if heavy and rng.random() < 0.25:
                add("compose", names, [random_step(rng), random_step(rng)], rng.choice([0, 0, 1, 2]), bool(rng.getrandbits(1)))
            if heavy and rng.random() < 0.15:
                add("frame", names, [random_step(rng)], rng.choice([1, 2]), bool(rng.getrandbits(1)))
    # longer entries, sampled
    n_long = 400 if tier == "quick" else 20000
    for _ in range(n_long):
        n = rng.randint(exh + 1, 8)
        names = [rng.choice(NAMES) for _ in range(n)]
        k = rng.randint(1, 3)
        add("long", names, [random_step(rng) for _ in range(k)], rng.choice([0, 0, 0, 1, 2]), bool(rng.getrandbits(1)))
    # every custom order x both case modes x tuple/list against fixed and sampled key lists
    fixed = [NAMES, list(reversed(NAMES)), ["c", "ab", "B", "A", "a", "b", "Ab", "a"], ["B", "b", "B", "A", "a"], ["ab", "Ab", "ab"], []]
    n_rand = 4 if tier == "quick" else 40
    for names_set in (ORDER_NAMES, ORDER_NAMES_2):
        for order in subperms(names_set):
            for cs in (0, 1):
                for tup in (0, 1):
                    lists = list(fixed) + [[rng.choice(NAMES) for _ in range(rng.randint(2, 8))] for _ in range(n_rand)]
                    for names in lists:
                        add("orders", list(names), [[1, cs, tup, order]], 0, bool(rng.getrandbits(1)))
    # constructor errors: duplicates, with and without folding
    for order in (["a", "a"], ["a", "b", "a"], ["a", "A"], ["B", "ab", "b"], ["Ab", "ab", "AB"], ["c", "c", "c"], ["a", "b", "A", "B"]):
        for cs in (0, 1):
            for tup in (0, 1):
                add("ctor", ["b", "a", "A"], [[1, cs, tup, order]], 0, True)
                add("ctor", ["b", "a", "A"], [[0], [1, cs, tup, order]], 0, True)
    # letters whose lower() is outside the ASCII instance: oracle only
    n_uni = 150 if tier == "quick" else 3000
    for _ in range(n_uni):
        names = [rng.choice(UNI_NAMES) for _ in range(rng.randint(1, 6))]
        r = rng.random()
        step = [0] if r < 0.3 else [2] if r < 0.6 else [1, rng.randint(0, 1), rng.randint(0, 1), rng.sample(UNI_NAMES, rng.randint(0, 4))]
        add("unicode", names, [step], 0, bool(rng.getrandbits(1)))
    return cases


def shrink(case):
    inp = case["input"]
    out = []

    def mk(**kw):
        d = dict(inp)
        d.update(kw)
        out.append({"stream": "shrink", "input": d})
    names, steps = inp["names"], inp["steps"]
    for i in range(len(names)):
        mk(names=names[:i] + names[i + 1:])
    if len(steps) > 1:
        for i in range(len(steps)):
            mk(steps=steps[:i] + steps[i + 1:])
    for i, s in enumerate(steps):
        if s[0] == 1:
            for j in range(len(s[3])):
                mk(steps=steps[:i] + [[1, s[1], s[2], s[3][:j] + s[3][j + 1:]]] + steps[i + 1:])
    if inp["ctx"]:
        mk(ctx=0)
    if not inp["inplace"]:
        mk(inplace=True)
    return out


# ---------------------------------------------------------------------------------------------- implementation side
def field_value(i):
    # distinct values of several Python types: a value must be carried, never re-created or converted
    if i % 3 == 0:
        return "v%d" % i
    if i % 3 == 1:
        return 100 + i
    return ["x%d" % i, i]


def build_blocks(inp):
    from bibtexparser.model import (Entry, Field, String, Preamble, ExplicitComment, ImplicitComment, ParsingFailedBlock,
                                    DuplicateFieldKeyBlock, MiddlewareErrorBlock)
    fields = [Field(n, field_value(i), i) for i, n in enumerate(inp["names"])]
    entry = Entry("article", "k1", fields, start_line=5, raw="@article{k1, ...}")
    ctx = inp["ctx"]
    if ctx == 0:
        return [entry]
    if ctx == 2:
        entry.parser_metadata["zzz"] = 1
        entry.parser_metadata["sorted_fields_custom"] = "old"
        entry.parser_metadata["sorted_fields_alphabetically"] = False
        entry.parser_metadata["tail"] = ["t"]
        return [ImplicitComment("head", 0, "head"), entry]
    other = Entry("Book", "K1", [Field("B", "x", 1), Field("b", "y", 2), Field("A", 3, 3)], start_line=20, raw="@Book{K1}")
    dup = Entry("misc", "k1", [Field("c", "1", 1), Field("C", "2", 2), Field("a", "3", 3)], start_line=30, raw="@misc{k1}")
    dupf = Entry("misc", "k9", [Field("b", "1", 1), Field("b", "2", 2), Field("a", "3", 3)], start_line=40, raw="@misc{k9}")
    mwe = Entry("misc", "k8", [Field("b", "1", 1), Field("a", "3", 3)], start_line=50, raw="@misc{k8}")
    return [String("s", "{v}", 1, "@string{s = {v}}"), entry, Preamble("p", 10, "@preamble{p}"),
            ExplicitComment("ec", 11, "@comment{ec}"), other, ImplicitComment("ic", 12, "ic"),
            ParsingFailedBlock(Exception("boom"), 13, "@article{broken"), dup,
            DuplicateFieldKeyBlock({"b"}, dupf), MiddlewareErrorBlock(mwe, ValueError("m")),
            String("s", "{w}", 60, "@string{s = {w}}")]


def fold(k, cs):
    return k if cs else k.lower()


def snapshot(lib):
    """Value snapshot of a library independent of later in-place changes."""
    import enc
    snap = []
    for b in lib.blocks:
        cn = type(b).__name__
        if cn == "Entry":
            snap.append((cn, b.entry_type, b.key, b.start_line, b.raw,
                         [(f.key, f.value, f.start_line, type(f.value).__name__, json.dumps(f.value)) for f in b.fields]))
        else:
            snap.append((cn, json.dumps(enc.enc_block(b))))
    return snap


def trip(f):
    return (f[0], f[4], f[2])


def check_step(step, before, after):
    """The property text for one middleware application, on value snapshots.  Returns '' or a complaint."""
    if len(before) != len(after):
        return "number of blocks changed"
    for b0, b1 in zip(before, after):
        if b0[0] != b1[0]:
            return "block class changed: %s -> %s" % (b0[0], b1[0])
        if b0[0] != "Entry":
            if b0 != b1:
                return "a %s block was changed" % b0[0]
            continue
        if b0[1:5] != b1[1:5]:
            return "entry type/key/start_line/raw changed: %r -> %r" % (b0[1:5], b1[1:5])
        f0, f1 = b0[5], b1[5]
        if step[0] in (0, 1):
            if sorted(map(trip, f0)) != sorted(map(trip, f1)):
                return "fields are not a permutation: %r -> %r" % ([x[:3] for x in f0], [x[:3] for x in f1])
            idx = {x[2]: i for i, x in enumerate(f0)}          # start lines are unique per entry: identity of a field
            if step[0] == 0:
                for x, y in zip(f1, f1[1:]):
                    if x[0] > y[0]:
                        return "keys not ascending: %r" % [z[0] for z in f1]
                    if x[0] == y[0] and idx[x[2]] > idx[y[2]]:
                        return "equal keys lost source order: %r" % [z[:3] for z in f1]
            else:
                cs, order = step[1], step[3]
                folded = list(dict.fromkeys(fold(k, cs) for k in order))
                expect = [x for k in folded for x in f0 if fold(x[0], cs) == k] + [x for x in f0 if fold(x[0], cs) not in folded]
                if [trip(x) for x in expect] != [trip(x) for x in f1]:
                    return "custom order %r (case_sensitive=%s): got %r, expected %r" % (
                        order, bool(cs), [z[0] for z in f1], [z[0] for z in expect])
        else:
            keys = [x[0] for x in f1]
            if any(k != k.lower() for k in keys):
                return "key not lower-case after normalisation: %r" % keys
            if len(set(keys)) != len(keys):
                return "keys not unique after normalisation: %r" % keys
            firsts = []
            for x in f0:
                if x[0].lower() not in firsts:
                    firsts.append(x[0].lower())
            if keys != firsts:
                return "order of first occurrences not kept: %r, expected %r" % (keys, firsts)
            for x in f1:
                last = [y for y in f0 if y[0].lower() == x[0]][-1]
                if (x[4], x[3], x[2]) != (last[4], last[3], last[2]):
                    return "key %r: value %r is not the value of its last occurrence %r" % (x[0], x[1], last[1])
    return ""


def make_mw(step, inplace):
    from bibtexparser.middlewares import SortFieldsAlphabeticallyMiddleware, SortFieldsCustomMiddleware, NormalizeFieldKeys
    if step[0] == 0:
        return SortFieldsAlphabeticallyMiddleware(allow_inplace_modification=inplace)
    if step[0] == 2:
        return NormalizeFieldKeys(allow_inplace_modification=inplace)
    order = tuple(step[3]) if step[2] else list(step[3])
    return SortFieldsCustomMiddleware(order=order, case_sensitive=bool(step[1]), allow_inplace_modification=inplace)


def impl(case):
    import copy
    import enc
    import implutil
    from bibtexparser.library import Library
    inp = case["input"]
    steps, inplace = inp["steps"], inp["inplace"]
    lib0 = Library([copy.deepcopy(b) for b in Library(build_blocks(inp)).blocks])
    sx_steps = [[s[0]] if s[0] != 1 else [1, s[1], s[2], [enc.enc_str(k) for k in s[3]]] for s in steps]
    sx_in = [40, sx_steps, [enc.enc_block(b) for b in lib0.blocks]]
    rec = {"sx_in": sx_in, "key": json.dumps(inp, sort_keys=True), "nontrivial": len(inp["names"]) >= 2, "tags": []}
    all_keys = list(inp["names"]) + [k for s in steps if s[0] == 1 for k in s[3]]
    if not all(enc.lower_is_ascii_only(k) for k in all_keys):
        rec["skip"] = True
    # constructors first
    complaints = []
    mws = []
    ctor_failed = False
    for s in steps:
        r = implutil.guarded(lambda s=s: make_mw(s, inplace))
        dup_expected = s[0] == 1 and len(set(fold(k, s[1]) for k in s[3])) != len(s[3])
        if r[0] == "exc":
            ctor_failed = True
            if not (dup_expected and r[2] == "ValueError"):
                complaints.append("constructor raised %s for order %r" % (r[2], s[3] if s[0] == 1 else None))
            if "sx_out" not in rec:
                rec["sx_out"] = implutil.r_exc(r[1])
                rec["summary"] = "constructor raised " + r[2]
        else:
            if dup_expected:
                complaints.append("order %r has duplicates after case folding but the constructor accepted it" % (s[3],))
            mws.append(r[1])
    if ctor_failed:
        rec["tags"].append("ctor-error")
        rec["oracle"] = {"ok": not complaints, "detail": "; ".join(complaints)}
        return rec
    lib = lib0
    for s, mw in zip(steps, mws):
        before = snapshot(lib)
        r = implutil.guarded(lambda: mw.transform(lib))
        if r[0] == "exc":
            rec["sx_out"] = implutil.r_exc(r[1])
            rec["oracle"] = {"ok": False, "detail": "transform raised %s at step %r" % (r[2], s)}
            rec["summary"] = "raised " + r[2]
            return rec
        out = r[1]
        after = snapshot(out)
        c = check_step(s, before, after)
        if c:
            complaints.append("step %r: %s" % (s, c))
        if not inplace and snapshot(lib) != before:
            complaints.append("step %r: copy mode changed its input library" % (s,))
        # idempotence: the same middleware once more changes nothing
        again = implutil.guarded(lambda: mw.transform(Library([copy.deepcopy(b) for b in out.blocks])))
        if again[0] == "exc":
            complaints.append("step %r: second application raised %s" % (s, again[2]))
        elif [enc.enc_block(b) for b in again[1].blocks] != [enc.enc_block(b) for b in out.blocks]:
            complaints.append("step %r: not idempotent: %r then %r" % (
                s, [[f[0] for f in b[5]] for b in after if b[0] == "Entry"],
                [[f.key for f in b.fields] for b in again[1].blocks if type(b).__name__ == "Entry"]))
        lib = out
    rec["sx_out"] = implutil.r_ok([enc.enc_block(b) for b in lib.blocks])
    rec["oracle"] = {"ok": not complaints, "detail": "; ".join(complaints)[:600]}
    ent = [b for b in lib.blocks if type(b).__name__ == "Entry"]
    rec["summary"] = repr([(f.key, f.value) for f in ent[0].fields])[:200] if ent else "no entry"
    rec["tags"].append("steps=%d" % len(steps))
    rec["tags"].append("fields=%d" % len(inp["names"]))
    lows = [n.lower() for n in inp["names"]]
    rec["tags"].append("collision" if len(set(lows)) != len(lows) else "no-collision")
    return rec
