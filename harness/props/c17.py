"""C17 - field sorting and key normalisation only permute/merge fields; values intact; frame; idempotence."""
import itertools
import json

ENGINE = "sortfields"
RULE = ("entries whose field keys are drawn from {a, A, b, B, ab, Ab, c} in every collision pattern (all key lists up to "
        "4 fields quick / 6 thorough, longer ones up to 8 sampled) x {alphabetical, normalise, custom order}; custom orders = "
        "all sub-permutations of 4 names x case-sensitive or not x tuple or list (constructor errors included); two-step "
        "compositions; libraries with other block classes around the entry (frame); in-place and copy mode; "
        "the same with the entry an instance of a user subclass of Entry (trivial subclass, and a subclass whose `fields` "
        "getter hands out a copy of the held list: all key lists up to 3 fields quick / 4 thorough x the three middlewares, "
        "longer ones, compositions, frames and all custom orders sampled; judged on the returned entry's `.fields`, encoded "
        "for the model like a plain Entry of the same content); "
        "HAND-BUILT entries that hold the SAME key two or three times (the parser never produces them) with arbitrary Field "
        "attributes: start_line ascending / descending / equal / None / mixed against the list order (all assignments of "
        "{None, 1, 2} for 2-3 fields over {a, A, b}, longer ones sampled), values equal / different / mixed, the SAME Field "
        "object at two or three positions, Field subclasses with odd ordering / equality / hash (trivial, __lt__ by value, "
        "total order by start_line, __lt__ raising, __eq__ always True, __eq__ always False, hashable by key), alone and mixed "
        "in one entry, through alphabetical, custom, normalise and their compositions (sort then normalise, normalise then "
        "sort, ...); judged on (key, value, type of value, start_line[, class of the Field for the two sorts]) in LIST order - "
        "a tie keeps the order of entry.fields, the last occurrence is the last in entry.fields, whatever start_line says; "
        "encoded for the model like plain Fields of the same content; "
        "RESERVED AND MAGIC NAMES (selfref.magic_for_tree() of the tree under test: ID, ENTRYTYPE, id, entrytype, key, fields, "
        "the metadata keys of the shipped middlewares, attribute names of the model, format strings of the writer, ...; each "
        "also in other cases) as field keys and as items of a custom order: every word x entries [o1, w, o2] / [o1, W, w] / [w] "
        "x alphabetical, normalise, custom orders listing the word first / last / only / in the middle / in another case than "
        "the entry holds it, case-sensitive and not; orders listing a word twice (constructor); 1-8 mixed reserved and ordinary "
        "keys x 1-3 steps x frames x entry classes, entry type and key reserved words too (c17_reserved.py) - listed keys come "
        "first in listed order whatever they are called, `ID` and `id` collide like any other pair. "
        "distinct = distinct (key list, step list, context, mode, entry class); non-trivial = the entry has at least two fields")
TRUSTED = ["oracle instance: str.lower restricted to ASCII (inputs with other cased letters are compared by the Python oracle only)",
           "CPython's sorted() is a stable sort (Base/StableSort.v proves the stable sorted permutation unique, so any such "
           "sort computes the model's insertion sort)"]
ASSUMPTIONS = ["sorted() meets the stable-sort contract; dict preserves insertion order; str comparison is by code point",
               "blocks of the input library share no objects (each block deep-copied on its own before the run); aliasing is C07's subject"]

NAMES = ["a", "A", "b", "B", "ab", "Ab", "c"]
ORDER_NAMES = ["a", "A", "B", "ab"]
ORDER_NAMES_2 = ["A", "b", "Ab", "c"]
# cls: 0 = plain Entry, 1 = userclasses.SubEntry (trivial subclass), 2 = userclasses.CopyFieldsEntry (getter returns a copy)
CLS_NAMES = ["Entry", "SubEntry", "CopyFieldsEntry"]
MW_NAMES = ["alphabetical", "custom", "normalise"]
UNI_NAMES = ["é", "É", "ß", "ẞ", "İ", "i", "I", "Σ", "σ", "ς", "a", "A"]


def subperms(names):
    for k in range(len(names) + 1):
        for p in itertools.permutations(names, k):
            yield list(p)


def custom_step(rng, names=ORDER_NAMES):
    k = rng.randint(0, len(names))
    return [1, rng.randint(0, 1), rng.randint(0, 1), rng.sample(names, k)]


def random_step(rng):
    r = rng.random()
    if r < 0.25:
        return [0]
    if r < 0.5:
        return [2]
    return custom_step(rng, ORDER_NAMES if rng.random() < 0.5 else ORDER_NAMES_2)


def generate(rng, tier):
    cases = []

    def add(stream, names, steps, ctx=0, inplace=True, cls=0):
        inp = {"names": names, "steps": steps, "ctx": ctx, "inplace": inplace}
        if cls:
            inp["cls"] = cls
        cases.append({"stream": stream, "input": inp})

    exh = 4 if tier == "quick" else 6
    for n in range(exh + 1):
        for names in itertools.product(NAMES, repeat=n):
            names = list(names)
            heavy = (tier == "quick") or n <= 5
            add("exhaustive", names, [[0]], 0, bool(rng.getrandbits(1)))
            add("exhaustive", names, [[2]], 0, bool(rng.getrandbits(1)))
            add("exhaustive", names, [custom_step(rng)], 0, bool(rng.getrandbits(1)))
            if heavy and rng.random() < 0.25:
                add("compose", names, [random_step(rng), random_step(rng)], rng.choice([0, 0, 1, 2]), bool(rng.getrandbits(1)))
            if heavy and rng.random() < 0.15:
                add("frame", names, [random_step(rng)], rng.choice([1, 2]), bool(rng.getrandbits(1)))
    # longer entries, sampled
    n_long = 400 if tier == "quick" else 20000
    for _ in range(n_long):
        n = rng.randint(exh + 1, 8)
        names = [rng.choice(NAMES) for _ in range(n)]
        k = rng.randint(1, 3)
        add("long", names, [random_step(rng) for _ in range(k)], rng.choice([0, 0, 0, 1, 2]), bool(rng.getrandbits(1)))
    # every custom order x both case modes x tuple/list against fixed and sampled key lists
    fixed = [NAMES, list(reversed(NAMES)), ["c", "ab", "B", "A", "a", "b", "Ab", "a"], ["B", "b", "B", "A", "a"], ["ab", "Ab", "ab"], []]
    n_rand = 4 if tier == "quick" else 40
    for names_set in (ORDER_NAMES, ORDER_NAMES_2):
        for order in subperms(names_set):
            for cs in (0, 1):
                for tup in (0, 1):
                    lists = list(fixed) + [[rng.choice(NAMES) for _ in range(rng.randint(2, 8))] for _ in range(n_rand)]
                    for names in lists:
                        add("orders", list(names), [[1, cs, tup, order]], 0, bool(rng.getrandbits(1)))
    # constructor errors: duplicates, with and without folding
    for order in (["a", "a"], ["a", "b", "a"], ["a", "A"], ["B", "ab", "b"], ["Ab", "ab", "AB"], ["c", "c", "c"], ["a", "b", "A", "B"]):
        for cs in (0, 1):
            for tup in (0, 1):
                add("ctor", ["b", "a", "A"], [[1, cs, tup, order]], 0, True)
                add("ctor", ["b", "a", "A"], [[0], [1, cs, tup, order]], 0, True)
    # letters whose lower() is outside the ASCII instance: oracle only
    n_uni = 150 if tier == "quick" else 3000
    for _ in range(n_uni):
        names = [rng.choice(UNI_NAMES) for _ in range(rng.randint(1, 6))]
        r = rng.random()
        step = [0] if r < 0.3 else [2] if r < 0.6 else [1, rng.randint(0, 1), rng.randint(0, 1), rng.sample(UNI_NAMES, rng.randint(0, 4))]
        add("unicode", names, [step], 0, bool(rng.getrandbits(1)))
    # ---- entries of user subclasses of Entry (cls 1, 2): every stream above once more for them
    uexh = 3 if tier == "quick" else 4
    for n in range(uexh + 1):
        for names in itertools.product(NAMES, repeat=n):
            names = list(names)
            for cls in (1, 2):
                modes = (True, False) if n <= 2 else (bool(rng.getrandbits(1)),)
                for inplace in modes:
                    add("userclass-exhaustive", names, [[0]], 0, inplace, cls)
                    add("userclass-exhaustive", names, [[2]], 0, inplace, cls)
                    add("userclass-exhaustive", names, [custom_step(rng, ORDER_NAMES if rng.random() < 0.5 else ORDER_NAMES_2)],
                        0, inplace, cls)
            if rng.random() < 0.2:
                add("userclass-compose", names, [random_step(rng), random_step(rng)], rng.choice([0, 0, 1, 2]),
                    bool(rng.getrandbits(1)), rng.choice([1, 2]))
            if rng.random() < 0.1:
                add("userclass-frame", names, [random_step(rng)], rng.choice([1, 2]), bool(rng.getrandbits(1)), rng.choice([1, 2]))
    n_ulong = 300 if tier == "quick" else 6000
    for _ in range(n_ulong):
        names = [rng.choice(NAMES) for _ in range(rng.randint(uexh + 1, 8))]
        add("userclass-long", names, [random_step(rng) for _ in range(rng.randint(1, 3))], rng.choice([0, 0, 0, 1, 2]),
            bool(rng.getrandbits(1)), rng.choice([1, 2]))
    n_ulists = 1 if tier == "quick" else 8
    for names_set in (ORDER_NAMES, ORDER_NAMES_2):
        for order in subperms(names_set):
            for cs in (0, 1):
                for cls in (1, 2):
                    for _ in range(n_ulists):
                        names = (list(rng.choice(fixed)) if rng.random() < 0.5
                                 else [rng.choice(NAMES) for _ in range(rng.randint(2, 8))])
                        add("userclass-orders", names, [[1, cs, rng.randint(0, 1), order]], 0, bool(rng.getrandbits(1)), cls)
    n_uuni = 60 if tier == "quick" else 1200
    for _ in range(n_uuni):
        names = [rng.choice(UNI_NAMES) for _ in range(rng.randint(1, 6))]
        r = rng.random()
        step = [0] if r < 0.3 else [2] if r < 0.6 else [1, rng.randint(0, 1), rng.randint(0, 1), rng.sample(UNI_NAMES, rng.randint(0, 4))]
        add("userclass-unicode", names, [step], 0, bool(rng.getrandbits(1)), rng.choice([1, 2]))
    # ---- hand-built entries with repeated keys and arbitrary Field attributes (appended: the streams above keep their inputs)
    generate_handbuilt(rng, tier, cases)
    # ---- reserved and magic names as field keys and order items (appended: the streams above keep their inputs)
    from props import c17_reserved
    c17_reserved.generate_reserved(rng, tier, cases)
    return cases


# ------------------------------------------------------------------------- hand-built entries: repeated keys, odd Fields
# A case of these streams carries "fx": one [start_line | None, value index, slot, field class] per field, parallel to
# "names".  Fields with the same slot >= 0 are ONE Field object placed at several positions of entry.fields (their specs
# agree); slot -1 = an object of its own.  Field classes: index into FIELD_CLS_NAMES (built in field_classes()).
FIELD_CLS_NAMES = ["Field", "SubField", "LtByValueField", "OrdByLineField", "LtRaisesField", "EqTrueField", "EqFalseField",
                   "KeyHashField"]
HB_KEYS = ["a", "A", "b"]
HB_LINES = [None, 0, 1, 2, 3, 5, 8, 13]
HB_STEP_KINDS = ["alpha", "normalise", "custom", "alpha>normalise", "normalise>alpha", "custom>normalise", "normalise>custom",
                 "alpha>custom", "custom>alpha", "three"]


def hb_steps(rng, kind):
    def cust():
        return custom_step(rng, ORDER_NAMES if rng.random() < 0.5 else ORDER_NAMES_2)
    if kind == "three":
        return [random_step(rng) for _ in range(3)]
    return [{"alpha": [0], "normalise": [2]}.get(k) or cust() for k in kind.split(">")]


def hb_lines(rng, n, pattern):
    if pattern == "none":
        return [None] * n
    if pattern == "equal":
        return [rng.choice(HB_LINES[1:])] * n
    if pattern in ("asc", "desc"):
        # strictly monotonic, gaps allowed, 0 allowed as the smallest
        xs = sorted(rng.sample(range(0, 3 * n + 2), n))
        return xs if pattern == "asc" else xs[::-1]
    if pattern == "none-first":                       # a hand-made field in front of parsed ones, and the like
        k = rng.randint(1, max(1, n - 1))
        xs = [None] * k + sorted(rng.sample(range(0, 3 * n + 2), n - k), reverse=rng.random() < 0.5)
        if rng.random() < 0.3:
            xs.reverse()
        return xs
    return [rng.choice(HB_LINES) for _ in range(n)]  # mixed: repeats, None and 0 among them


def hb_values(rng, n, names, pattern):
    if pattern == "different":
        return list(range(n))
    if pattern == "equal":
        return [rng.randint(0, 5)] * n
    if pattern == "equal-per-key":                    # the occurrences of one key hold equal values
        base = {}
        return [base.setdefault(k, len(base)) for k in names]
    return [rng.randint(0, 3) for _ in range(n)]     # mixed


def hb_names(rng, n):
    """n >= 2 keys with at least one exact repeat (2 or 3 times, sometimes two keys repeated), the rest from NAMES."""
    pool = NAMES if rng.random() < 0.7 else HB_KEYS
    names = []
    k1 = rng.choice(pool)
    names += [k1] * min(n, rng.choice([2, 2, 3]))
    if n - len(names) >= 2 and rng.random() < 0.4:
        names += [rng.choice(pool)] * 2
    while len(names) < n:
        # case variants of the repeated key are frequent: they collide for normalise / custom, not for alphabetical
        names.append(k1.swapcase() if rng.random() < 0.3 else rng.choice(pool))
    rng.shuffle(names)
    return names


def hb_share(rng, names, fx, p):
    """With probability p make the occurrences of one repeated key the SAME object (2 or 3 positions)."""
    if rng.random() >= p:
        return
    groups = {}
    for i, k in enumerate(names):
        groups.setdefault(k, []).append(i)
    reps = [g for g in groups.values() if len(g) >= 2]
    rng.shuffle(reps)
    for slot, g in enumerate(reps[:rng.choice([1, 1, 2])]):
        pos = g if rng.random() < 0.5 else rng.sample(g, 2)
        first = min(pos)
        for i in pos:
            fx[i] = [fx[first][0], fx[first][1], slot, fx[first][3]]


def generate_handbuilt(rng, tier, cases):
    quick = tier == "quick"

    def add(stream, names, fx, steps, ctx=0, inplace=True, cls=0):
        inp = {"names": list(names), "steps": steps, "ctx": ctx, "inplace": inplace, "fx": [list(x) for x in fx]}
        if cls:
            inp["cls"] = cls
        cases.append({"stream": stream, "input": inp})

    # (1) every key list of 2-3 fields over {a, A, b} with an exact repeat x every assignment of start lines from
    #     {None, 1, 2} (ascending, descending, equal, None, mixed are all among them) x values equal / different
    turn = 0
    for n in (2, 3):
        for names in itertools.product(HB_KEYS, repeat=n):
            if len(set(names)) == n:
                continue
            for lines in itertools.product([None, 1, 2], repeat=n):
                for vpat in ("different", "equal"):
                    vals = hb_values(rng, n, names, vpat)
                    fx = [[lines[i], vals[i], -1, 0] for i in range(n)]
                    if n == 2 or not quick:
                        kinds = HB_STEP_KINDS[:5]
                    else:
                        # one step list that sorts alphabetically (in turn: alone, then normalise, after normalise) and
                        # every second time one that does not
                        kinds = [("alpha", "alpha>normalise", "normalise>alpha")[turn % 3]]
                        if turn % 2:
                            kinds.append(("normalise", "custom", "custom>normalise", "normalise>custom")[(turn // 2) % 4])
                        turn += 1
                    for kind in kinds:
                        add("handbuilt-exhaustive", names, fx, hb_steps(rng, kind), 0, bool(rng.getrandbits(1)))
    # (2) longer plain-Field entries, every pattern sampled, all step lists
    line_pats = ["asc", "desc", "equal", "none", "mixed", "mixed", "none-first"]
    val_pats = ["different", "different", "equal", "equal-per-key", "mixed"]
    for _ in range(1300 if quick else 26000):
        n = rng.randint(2, 8)
        names = hb_names(rng, n)
        lines = hb_lines(rng, n, rng.choice(line_pats))
        vals = hb_values(rng, n, names, rng.choice(val_pats))
        fx = [[lines[i], vals[i], -1, 0] for i in range(n)]
        hb_share(rng, names, fx, 0.25)
        add("handbuilt-random", names, fx, hb_steps(rng, rng.choice(HB_STEP_KINDS)), rng.choice([0, 0, 0, 0, 1, 2]),
            bool(rng.getrandbits(1)), rng.choice([0, 0, 0, 0, 1, 2]))
    # (3) Field subclasses with odd ordering / equality / hash: one class for the whole entry, or mixed
    k = 0
    for _ in range(1300 if quick else 26000):
        n = rng.randint(2, 6)
        names = hb_names(rng, n)
        lines = hb_lines(rng, n, rng.choice(line_pats))
        vals = hb_values(rng, n, names, rng.choice(val_pats))
        if rng.random() < 0.7:
            fcs = [1 + k % (len(FIELD_CLS_NAMES) - 1)] * n           # every class in turn
            k += 1
        else:
            fcs = [rng.randrange(len(FIELD_CLS_NAMES)) for _ in range(n)]
        fx = [[lines[i], vals[i], -1, fcs[i]] for i in range(n)]
        hb_share(rng, names, fx, 0.3)
        add("handbuilt-fieldclass", names, fx, hb_steps(rng, rng.choice(HB_STEP_KINDS)), rng.choice([0, 0, 0, 0, 1, 2]),
            bool(rng.getrandbits(1)), rng.choice([0, 0, 0, 0, 1, 2]))


def shrink(case):
    inp = case["input"]
    out = []

    def mk(**kw):
        d = dict(inp)
        d.update(kw)
        out.append({"stream": "shrink", "input": d})
    names, steps = inp["names"], inp["steps"]
    fx = inp.get("fx")
    for i in range(len(names)):
        if fx is None:
            mk(names=names[:i] + names[i + 1:])
        else:
            mk(names=names[:i] + names[i + 1:], fx=fx[:i] + fx[i + 1:])
    if fx is not None:
        if any(x[3] for x in fx):
            mk(fx=[[x[0], x[1], x[2], 0] for x in fx])                # plain Fields
        if any(x[2] >= 0 for x in fx):
            mk(fx=[[x[0], x[1], -1, x[3]] for x in fx])               # every field an object of its own
        if len(set(x[1] for x in fx)) > 1:
            mk(fx=[[x[0], 0, x[2], x[3]] for x in fx])                # equal values
        if any(x[2] >= 0 for x in fx):
            pass                                                      # one object cannot carry two start lines
        elif [x[0] for x in fx] != list(range(len(fx))):
            # the start lines of the older streams; then the hand-built part can go altogether
            mk(fx=[[i, x[1], x[2], x[3]] for i, x in enumerate(fx)])
        elif all(x[2] < 0 and x[3] == 0 for x in fx) and [x[1] for x in fx] == list(range(len(fx))):
            d = dict(inp)
            del d["fx"]
            out.append({"stream": "shrink", "input": d})
    if len(steps) > 1:
        for i in range(len(steps)):
            mk(steps=steps[:i] + steps[i + 1:])
    for i, s in enumerate(steps):
        if s[0] == 1:
            for j in range(len(s[3])):
                mk(steps=steps[:i] + [[1, s[1], s[2], s[3][:j] + s[3][j + 1:]]] + steps[i + 1:])
    if inp["ctx"]:
        mk(ctx=0)
    if not inp["inplace"]:
        mk(inplace=True)
    if inp.get("cls"):
        mk(cls=0)
    if inp.get("ek"):
        d = dict(inp)
        del d["ek"]
        out.append({"stream": "shrink", "input": d})
    return out


# ---------------------------------------------------------------------------------------------- implementation side
def field_value(i):
    # distinct values of several Python types: a value must be carried, never re-created or converted
    if i % 3 == 0:
        return "v%d" % i
    if i % 3 == 1:
        return 100 + i
    return ["x%d" % i, i]


_FIELD_CLASSES = []


def field_classes():
    """Field and user subclasses of it (built from the tree under test; order = FIELD_CLS_NAMES).  None of them touches
    anything but the public attributes key / value / start_line.  The property speaks of keys and of the order of
    entry.fields only: whatever these classes answer to <, ==, hash() must not show in the result."""
    if _FIELD_CLASSES:
        return _FIELD_CLASSES
    from bibtexparser.model import Field
    from props import userclasses
    uc = userclasses.get()

    class LtByValueField(Field):
        # "smaller" = the text of the value is GREATER: with values numbered by position this is the reversed list order
        def __lt__(self, other):
            return str(self.value) > str(getattr(other, "value", ""))

    def _line(f):
        ln = getattr(f, "start_line", None)
        return -1 if ln is None else ln

    class OrdByLineField(Field):
        # a total order by start_line, descending, fields without a line first
        def __lt__(self, other):
            return _line(self) > _line(other)

        def __gt__(self, other):
            return _line(self) < _line(other)

        def __le__(self, other):
            return _line(self) >= _line(other)

        def __ge__(self, other):
            return _line(self) <= _line(other)

    class LtRaisesField(Field):
        def __lt__(self, other):
            raise TypeError("these fields are not ordered")

        __gt__ = __le__ = __ge__ = __lt__

    class EqTrueField(Field):
        def __eq__(self, other):
            return True

        def __ne__(self, other):
            return False

        def __hash__(self):
            return 0

    class EqFalseField(Field):
        def __eq__(self, other):
            return False

        def __ne__(self, other):
            return True

        __hash__ = object.__hash__

    class KeyHashField(Field):
        # hashable (Field itself is not), equal whenever the keys are equal
        def __eq__(self, other):
            return getattr(other, "key", None) == self.key

        def __hash__(self):
            return hash(self.key)

    _FIELD_CLASSES.extend([Field, uc.SubField, LtByValueField, OrdByLineField, LtRaisesField, EqTrueField, EqFalseField,
                           KeyHashField])
    assert [c.__name__ for c in _FIELD_CLASSES] == FIELD_CLS_NAMES
    return _FIELD_CLASSES


def build_fields(inp):
    from bibtexparser.model import Field
    fx = inp.get("fx")
    if fx is None:
        return [Field(n, field_value(i), i) for i, n in enumerate(inp["names"])]
    if len(fx) != len(inp["names"]):
        raise AssertionError("harness: fx and names differ in length")
    classes = field_classes()
    slots, fields = {}, []
    for n, (line, v, slot, fc) in zip(inp["names"], fx):
        if slot >= 0 and slot in slots:
            f = slots[slot]
            if (f.key, f.start_line, type(f)) != (n, line, classes[fc]):     # the generator's promise
                raise AssertionError("harness: positions of one slot disagree")
        else:
            f = classes[fc](n, field_value(v), line)
            if slot >= 0:
                slots[slot] = f
        fields.append(f)
    return fields


def build_blocks(inp):
    from bibtexparser.model import (Entry, Field, String, Preamble, ExplicitComment, ImplicitComment, ParsingFailedBlock,
                                    DuplicateFieldKeyBlock, MiddlewareErrorBlock)
    fields = build_fields(inp)
    etype, ekey = inp.get("ek") or ("article", "k1")      # "ek": the entry's own type and key (reserved words, c17_reserved.py)
    entry = Entry(etype, ekey, fields, start_line=5, raw="@article{k1, ...}")
    ctx = inp["ctx"]
    cls = inp.get("cls", 0)
    if cls:
        # the entry under test is an instance of a user subclass of Entry; with other entries around (ctx 1) the second
        # top-level entry is of the OTHER user class, so that such a library holds plain, trivial-subclass and copy-getter entries
        from props import userclasses
        uc = userclasses.get()
        conv = {1: uc.as_sub, 2: uc.as_copyfields}
        as_cls, as_other = conv[cls], conv[3 - cls]
        entry = as_cls(entry)
    else:
        as_other = lambda e: e  # noqa: E731
    if ctx == 0:
        return [entry]
    if ctx == 2:
        entry.parser_metadata["zzz"] = 1
        entry.parser_metadata["sorted_fields_custom"] = "old"
        entry.parser_metadata["sorted_fields_alphabetically"] = False
        entry.parser_metadata["tail"] = ["t"]
        return [ImplicitComment("head", 0, "head"), entry]
    other = as_other(Entry("Book", "K1", [Field("B", "x", 1), Field("b", "y", 2), Field("A", 3, 3)], start_line=20, raw="@Book{K1}"))
    dup = Entry("misc", "k1", [Field("c", "1", 1), Field("C", "2", 2), Field("a", "3", 3)], start_line=30, raw="@misc{k1}")
    dupf = Entry("misc", "k9", [Field("b", "1", 1), Field("b", "2", 2), Field("a", "3", 3)], start_line=40, raw="@misc{k9}")
    mwe = Entry("misc", "k8", [Field("b", "1", 1), Field("a", "3", 3)], start_line=50, raw="@misc{k8}")
    return [String("s", "{v}", 1, "@string{s = {v}}"), entry, Preamble("p", 10, "@preamble{p}"),
            ExplicitComment("ec", 11, "@comment{ec}"), other, ImplicitComment("ic", 12, "ic"),
            ParsingFailedBlock(Exception("boom"), 13, "@article{broken"), dup,
            DuplicateFieldKeyBlock({"b"}, dupf), MiddlewareErrorBlock(mwe, ValueError("m")),
            String("s", "{w}", 60, "@string{s = {w}}")]


def fold(k, cs):
    return k if cs else k.lower()


def is_entry(b):
    from bibtexparser.model import Entry
    return isinstance(b, Entry)


def enc_b(b):
    """enc.enc_block, with an instance of a user subclass of Entry encoded exactly like a plain Entry of the same content
    (read through its public attributes: entry_type, key, fields, start_line, raw, parser_metadata), also where it sits
    inside an error block.  Blocks without such an entry go to enc.enc_block unchanged."""
    import enc
    from bibtexparser.model import Entry
    if isinstance(b, Entry):
        if type(b) is Entry:
            return enc.enc_block(b)
        return [enc.B_ENTRY, enc.enc_hdr(b), enc.enc_str(b.entry_type), enc.enc_str(b.key), [enc.enc_field(f) for f in b.fields]]
    cn = type(b).__name__
    if cn == "MiddlewareErrorBlock":
        return [enc.B_MWERR, enc.enc_hdr(b), enc.enc_err(b.error), enc_b(b.ignore_error_block)]
    if cn == "DuplicateBlockKeyBlock":
        return [enc.B_DUPKEY, enc.enc_hdr(b), enc.enc_str(b.key), enc_b(b.previous_block), enc_b(b.ignore_error_block)]
    if cn == "DuplicateFieldKeyBlock":
        return [enc.B_DUPFIELD, enc.enc_hdr(b), [enc.enc_str(k) for k in sorted(b.duplicate_keys)], enc_b(b.ignore_error_block)]
    return enc.enc_block(b)


def snapshot(lib):
    """Value snapshot of a library independent of later in-place changes.  Every instance of Entry (plain or of a user
    subclass) is an "Entry" here and is read through its `fields` attribute: the property speaks of the entry's fields."""
    snap = []
    for b in lib.blocks:
        if is_entry(b):
            snap.append(("Entry", b.entry_type, b.key, b.start_line, b.raw,
                         [(f.key, f.value, f.start_line, type(f.value).__name__, json.dumps(f.value), type(f).__name__)
                          for f in b.fields]))
        else:
            snap.append((type(b).__name__, json.dumps(enc_b(b))))
    return snap


def trip(f):
    return (f[0], f[4], f[2])


def srt(f):
    """What a sort must carry for each field: key, value (text and type), start_line, class of the Field object."""
    return (f[0], f[4], f[3], repr(f[2]), f[5])


def check_step(step, before, after):
    """The property text for one middleware application, on value snapshots.  Returns '' or a complaint."""
    if len(before) != len(after):
        return "number of blocks changed"
    for b0, b1 in zip(before, after):
        if b0[0] != b1[0]:
            return "block class changed: %s -> %s" % (b0[0], b1[0])
        if b0[0] != "Entry":
            if b0 != b1:
                return "a %s block was changed" % b0[0]
            continue
        if b0[1:5] != b1[1:5]:
            return "entry type/key/start_line/raw changed: %r -> %r" % (b0[1:5], b1[1:5])
        f0, f1 = b0[5], b1[5]
        if step[0] in (0, 1):
            if sorted(map(srt, f0)) != sorted(map(srt, f1)):
                return "fields are not a permutation: %r -> %r" % ([x[:3] + x[5:] for x in f0], [x[:3] + x[5:] for x in f1])
            if step[0] == 0:
                for x, y in zip(f1, f1[1:]):
                    if x[0] > y[0]:
                        return "keys not ascending: %r" % [z[0] for z in f1]
                # source order = the order of entry.fields before the sort (NOT start_line, which a hand-built entry may
                # carry in any order, repeated or not at all): per key, ascending, its fields as they stood in the list
                expect = [x for k in sorted(set(z[0] for z in f0)) for x in f0 if x[0] == k]
                if [srt(x) for x in expect] != [srt(x) for x in f1]:
                    return "equal keys lost source order: got %r, expected %r" % ([z[:3] for z in f1], [z[:3] for z in expect])
            else:
                cs, order = step[1], step[3]
                folded = list(dict.fromkeys(fold(k, cs) for k in order))
                expect = [x for k in folded for x in f0 if fold(x[0], cs) == k] + [x for x in f0 if fold(x[0], cs) not in folded]
                if [srt(x) for x in expect] != [srt(x) for x in f1]:
                    return "custom order %r (case_sensitive=%s): got %r, expected %r" % (
                        order, bool(cs), [z[:3] for z in f1], [z[:3] for z in expect])
        else:
            keys = [x[0] for x in f1]
            if any(k != k.lower() for k in keys):
                return "key not lower-case after normalisation: %r" % keys
            if len(set(keys)) != len(keys):
                return "keys not unique after normalisation: %r" % keys
            firsts = []
            for x in f0:
                if x[0].lower() not in firsts:
                    firsts.append(x[0].lower())
            if keys != firsts:
                return "order of first occurrences not kept: %r, expected %r" % (keys, firsts)
            for x in f1:
                last = [y for y in f0 if y[0].lower() == x[0]][-1]
                if (x[4], x[3], x[2]) != (last[4], last[3], last[2]):
                    return "key %r: value %r is not the value of its last occurrence %r" % (x[0], x[1], last[1])
    return ""


def make_mw(step, inplace):
    from bibtexparser.middlewares import SortFieldsAlphabeticallyMiddleware, SortFieldsCustomMiddleware, NormalizeFieldKeys
    if step[0] == 0:
        return SortFieldsAlphabeticallyMiddleware(allow_inplace_modification=inplace)
    if step[0] == 2:
        return NormalizeFieldKeys(allow_inplace_modification=inplace)
    order = tuple(step[3]) if step[2] else list(step[3])
    return SortFieldsCustomMiddleware(order=order, case_sensitive=bool(step[1]), allow_inplace_modification=inplace)


def impl(case):
    import copy
    import enc
    import implutil
    from bibtexparser.library import Library
    inp = case["input"]
    steps, inplace = inp["steps"], inp["inplace"]
    lib0 = Library([copy.deepcopy(b) for b in Library(build_blocks(inp)).blocks])
    sx_steps = [[s[0]] if s[0] != 1 else [1, s[1], s[2], [enc.enc_str(k) for k in s[3]]] for s in steps]
    sx_in = [40, sx_steps, [enc_b(b) for b in lib0.blocks]]
    rec = {"sx_in": sx_in, "key": json.dumps(inp, sort_keys=True), "nontrivial": len(inp["names"]) >= 2, "tags": []}
    cls = inp.get("cls", 0)
    rec["tags"].append("entry-class=" + CLS_NAMES[cls])
    if cls:
        got = [type(b).__name__ for b in lib0.blocks if is_entry(b)]
        if CLS_NAMES[cls] not in got:          # the generator's promise, not the library's: never silently test a plain entry
            raise AssertionError("harness: entry under test is not a %s: %r" % (CLS_NAMES[cls], got))
    from props import c17_reserved
    rec["tags"].extend(c17_reserved.tags(inp, MW_NAMES))
    all_keys = list(inp["names"]) + [k for s in steps if s[0] == 1 for k in s[3]] + list(inp.get("ek") or [])
    if not all(enc.lower_is_ascii_only(k) for k in all_keys):
        rec["skip"] = True
    # constructors first
    complaints = []
    mws = []
    ctor_failed = False
    for s in steps:
        r = implutil.guarded(lambda s=s: make_mw(s, inplace))
        dup_expected = s[0] == 1 and len(set(fold(k, s[1]) for k in s[3])) != len(s[3])
        if r[0] == "exc":
            ctor_failed = True
            if not (dup_expected and r[2] == "ValueError"):
                complaints.append("constructor raised %s for order %r" % (r[2], s[3] if s[0] == 1 else None))
            if "sx_out" not in rec:
                rec["sx_out"] = implutil.r_exc(r[1])
                rec["summary"] = "constructor raised " + r[2]
        else:
            if dup_expected:
                complaints.append("order %r has duplicates after case folding but the constructor accepted it" % (s[3],))
            mws.append(r[1])
    if ctor_failed:
        rec["tags"].append("ctor-error")
        rec["oracle"] = {"ok": not complaints, "detail": "; ".join(complaints)}
        return rec
    lib = lib0
    for s, mw in zip(steps, mws):
        before = snapshot(lib)
        r = implutil.guarded(lambda: mw.transform(lib))
        if r[0] == "exc":
            rec["sx_out"] = implutil.r_exc(r[1])
            rec["oracle"] = {"ok": False, "detail": "transform raised %s at step %r" % (r[2], s)}
            rec["summary"] = "raised " + r[2]
            return rec
        out = r[1]
        after = snapshot(out)
        c = check_step(s, before, after)
        if c:
            complaints.append("step %r: %s" % (s, c))
        if not inplace and snapshot(lib) != before:
            complaints.append("step %r: copy mode changed its input library" % (s,))
        # idempotence: the same middleware once more changes nothing
        again = implutil.guarded(lambda: mw.transform(Library([copy.deepcopy(b) for b in out.blocks])))
        if again[0] == "exc":
            complaints.append("step %r: second application raised %s" % (s, again[2]))
        elif [enc_b(b) for b in again[1].blocks] != [enc_b(b) for b in out.blocks]:
            complaints.append("step %r: not idempotent: %r then %r" % (
                s, [[f[0] for f in b[5]] for b in after if b[0] == "Entry"],
                [[f.key for f in b.fields] for b in again[1].blocks if is_entry(b)]))
        if cls:
            rec["tags"].append("userclass/%s/%s/%s" % (CLS_NAMES[cls], MW_NAMES[s[0]], "inplace" if inplace else "copy"))
        lib = out
    rec["sx_out"] = implutil.r_ok([enc_b(b) for b in lib.blocks])
    rec["oracle"] = {"ok": not complaints, "detail": "; ".join(complaints)[:600]}
    ent = [b for b in lib.blocks if is_entry(b)]
    rec["summary"] = repr([(f.key, f.value) for f in ent[0].fields])[:200] if ent else "no entry"
    rec["tags"].append("steps=%d" % len(steps))
    rec["tags"].append("fields=%d" % len(inp["names"]))
    lows = [n.lower() for n in inp["names"]]
    rec["tags"].append("collision" if len(set(lows)) != len(lows) else "no-collision")
    if inp.get("fx") is not None:
        rec["tags"].extend(hb_tags(inp))
    return rec


def hb_tags(inp):
    """The kinds of a hand-built case, measured on the case itself (so that shrunk and replayed cases are labelled too)."""
    names, fx, steps = inp["names"], inp["fx"], inp["steps"]
    tags = []
    rep = max([names.count(k) for k in names] or [0])
    tags.append("handbuilt/same-key=%s" % ("no" if rep < 2 else "x2" if rep == 2 else "x3+"))
    lines = [x[0] for x in fx]
    some = [x for x in lines if x is not None]
    if not some:
        pat = "none"
    elif len(some) < len(lines):
        pat = "mixed-with-none"
    elif len(set(some)) == 1 and len(some) > 1:
        pat = "equal"
    elif all(x < y for x, y in zip(some, some[1:])):
        pat = "ascending"
    elif all(x > y for x, y in zip(some, some[1:])):
        pat = "descending"
    else:
        pat = "mixed"
    tags.append("handbuilt/start_lines=" + pat)
    # the situation of the repeated keys in particular: do their start lines agree with the list order?
    against = False
    for k in set(names):
        ls = [x[0] for n, x in zip(names, fx) if n == k]
        key = [(x is None, x or 0) for x in ls]
        if key != sorted(key):
            against = True
    tags.append("handbuilt/start_lines-of-a-repeated-key-against-list-order=%s" % ("yes" if against else "no"))
    vals = [x[1] for x in fx]
    tags.append("handbuilt/values=%s" % ("equal" if len(set(vals)) == 1 else "different" if len(set(vals)) == len(vals) else "mixed"))
    slots = [x[2] for x in fx if x[2] >= 0]
    if slots:
        tags.append("handbuilt/same-object-at-%s-positions" % ("2" if max(slots.count(z) for z in slots) == 2 else "3+"))
    fcs = sorted(set(x[3] for x in fx))
    tags.append("handbuilt/field-class=%s" % (FIELD_CLS_NAMES[fcs[0]] if len(fcs) == 1 else "mixed"))
    tags.append("handbuilt/steps=" + (">".join(MW_NAMES[s[0]] for s in steps) if len(steps) < 3 else "three or more"))
    return tags
