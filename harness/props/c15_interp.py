"""C15 under INTERPRETER-LEVEL SETTINGS that the application changes AFTER the library was imported, around each call.

The property quantifies over every value ("no value whatsoever makes the middleware raise", "any other value is returned
unchanged with its type"); it does not say "as long as the process leaves sys alone".  Two settings of the running
interpreter reach the month middlewares:

  sys.set_int_max_str_digits(n)   what int() / str() / format() of an int accept: lowered (640, 1000), raised (10000) or
                                  switched off (0) before a call and restored after it.  Values: digit strings and ints
                                  whose number of SIGNIFICANT digits lies below / at / above the limit in force when the
                                  library was imported ("base") and the one in force at the time of the call ("cur"),
                                  with and without leading zeros (few / hundreds / thousands), zero-padded months of
                                  those total lengths (still months), other decimal digit systems, int / str subclasses;
                                  and every ordinary spelling and near miss under every such setting.
  sys.setrecursionlimit(n)        lowered to (frames in use at the call) + headroom, headroom 40 / 64 / 100 / 200 (the
                                  pinned tree needs 5..15).  Values whose LENGTH would matter to code that recurses
                                  over the value: long zero pads, long digit strings, long words, next to the ordinary ones.

Case input:  {"values": [value spec ...],            one entry per value; specs as in c15.unjv, numbers of digits may be
                                                     RELATIVE: ["@cur", off] / ["@base", off] (resolved in the child)
              "mws": [kind ...], "how": "transform" | "block" | "parse", "inplace": 0|1,
              "inst": "before" | "after" | "warm",   middleware objects built before the setting changes / after / built
                                                     before AND already used once under the base settings
              "interp": {"digits": n | None, "rec": headroom | None, "on": [0|1 per middleware]}}
"on" says around WHICH of the calls the settings are in force (the others run under the base settings); how == "parse"
is one call (parse_string with the middlewares appended), the settings are in force around it.  The settings travel IN
the case, are applied by impl_interp itself and restored in a finally block - the runner's second pass, which evaluates
cases again later in the same process, therefore sees the same settings.

Verdict (property statement, c15.month_of / c15.matches): what counts as a month number is computed by the oracle under
the setting of the call (int() of the running interpreter, as everywhere in c15.py); if two settings of one case ever
disagreed about a value the case would be tagged interp-oracle-ambiguous and any of the answers accepted (never happens:
a month has at most two significant digits and no limit can be set below 640).  Any exception under a digit setting is a
violation.  Under a lowered recursion limit an exception is a violation when the SAME calls with a short value of the same
kind go through under the same setting (then it is the value that makes the middleware raise); if the short value raises
too, the headroom is doubled (up to three times) and the case judged there - on the pinned tree this never happens
(tag interp-rec-escalated).  Model comparison: op 11 on the entries as built / as parsed without the month middlewares;
the model does not depend on the settings (Model/Month.v converts digit strings of any length), so agreement says the
implementation does not either.  Oracle-only (sx_in None, the convention of c15.impl for what the model binary cannot
read): ints beyond 62 bits, and the cases the generator marks "model": 0 (digit strings of thousands of SIGNIFICANT digits
but for a fixed small share: the model's conversion is quadratic in them; see gen.model_for).
"""
import json
import sys

DIGIT_SETTINGS = [640, 1000, 10000, 0]            # lowered, lowered, raised, switched off (base: 4300 unless the environment says otherwise)
HEADROOMS = [40, 64, 100, 200]
HOWS = ["transform", "transform", "block", "parse"]
INSTS = ["before", "after", "warm"]
ASSUMED_BASE = 4300                                # generator side only (choosing pad lengths); the child resolves "@base" for real


def base_limit():
    """the digit limit in force before any case changed it (= when bibtexparser was imported: the runner imports it first and
    every case restores what it changed); 0 when the interpreter has none"""
    return sys.get_int_max_str_digits() if hasattr(sys, "get_int_max_str_digits") else 0


def frames_in_use():
    f, n = sys._getframe(), 0
    while f is not None:
        n += 1
        f = f.f_back
    return n


def under(digits, headroom, fn):
    """fn() with the interpreter settings in force; restored whatever happens"""
    has = hasattr(sys, "set_int_max_str_digits")
    old_d = sys.get_int_max_str_digits() if has else None
    old_r = sys.getrecursionlimit()
    try:
        if digits is not None and has:
            sys.set_int_max_str_digits(digits)
        if headroom is not None:
            sys.setrecursionlimit(frames_in_use() + headroom)
        return fn()
    finally:
        sys.setrecursionlimit(old_r)
        if has:
            sys.set_int_max_str_digits(old_d)


def resolve(spec, cur, base):
    """relative digit counts -> numbers"""
    if isinstance(spec, list):
        if len(spec) == 2 and spec[0] in ("@cur", "@base"):
            ref = cur if (spec[0] == "@cur" and cur) else base
            return max(1, (ref or ASSUMED_BASE) + spec[1])
        return [resolve(x, cur, base) for x in spec]
    if isinstance(spec, dict):
        return {k: resolve(x, cur, base) for k, x in spec.items()}
    return spec


# ------------------------------------------------------------------------------------------------------------------ generator
def gen(rng, tier):
    from . import c15 as base
    quick = tier == "quick"
    cases = []

    def add(values, mws, digits=None, rec=None, on=None, how=None, model=1, **kw):
        how = how or rng.choice(HOWS)
        n_calls = 1 if how == "parse" else len(mws)
        if on is None:
            on = [1] * n_calls if n_calls == 1 or rng.random() < 0.6 else [rng.randrange(2) for _ in range(n_calls)]
            if not any(on):
                on[rng.randrange(n_calls)] = 1
        inp = {"values": values, "mws": mws, "how": how, "inplace": rng.randrange(2), "inst": rng.choice(INSTS),
               "interp": {"digits": digits, "rec": rec, "on": on}, "model": model}
        inp.update(kw)
        cases.append({"stream": "interp", "input": inp})

    def digit(nonzero=True):
        return rng.choice("123456789" if nonzero else "0123456789")

    def n_of(ref, off):
        return [ref, off]

    def model_for(n_sig):
        """the model converts a digit string in time quadratic in its SIGNIFICANT digits (0.05 s at 1000, 1 s at 4300, 5 s at
        10000; leading zeros and letters cost nothing): all up to 450, fixed shares up to 1100 and up to 5000, none beyond"""
        if n_sig <= 450:
            return 1
        if n_sig <= 1100:
            return int(rng.random() < (0.4 if quick else 0.8))
        return int(n_sig <= 5000 and rng.random() < (0.02 if quick else 0.1))

    # ---- A. the boundary product: setting x reference limit x offset x form x middleware
    arabic = "".join(chr(0x660 + i) for i in range(10))
    fullw = "".join(chr(0xff10 + i) for i in range(10))
    offs = [-1, 0, 1]
    for D in DIGIT_SETTINGS:
        for ref in (["@cur", "@base"] if D else ["@base"]):
            for off in offs + [-rng.randint(2, 60), rng.randint(2, 60)] + ([] if quick else [-rng.randint(61, 600), rng.randint(61, 600)]):
                big = ref == "@base" or D == 10000
                n_est = D if ref == "@cur" else ASSUMED_BASE
                for form in ("sig", "sig-fewzeros", "sig-manyzeros", "padmonth", "int"):
                    for k in range(3):
                        n = n_of(ref, off)
                        nm1 = n_of(ref, off - 1)
                        model = 1 if form == "padmonth" else model_for(n_est)
                        if form == "sig":
                            v = {"rep": [[digit(), 1], [digit(False), nm1]]} if rng.random() < 0.5 else {"rep": [[digit(), n]]}
                        elif form == "sig-fewzeros":
                            v = {"rep": [["0", rng.randint(1, 3)], [digit(), n]]}
                        elif form == "sig-manyzeros":
                            z = rng.choice([60, 639, 640, 641, 1001]) if not big or quick and rng.random() < 0.7 else rng.choice([4301, 5000, 10001])
                            v = {"rep": [["0", z], [digit(), 1], [digit(False), nm1]]}
                        elif form == "padmonth":            # a month whose spelling is as long as the limit: still that month
                            m = rng.randint(1, 12)
                            v = {"rep": [["0", n_of(ref, off - len(str(m)))], [str(m), 1]]}
                        else:
                            v = {"pow10": [rng.choice([1, 1, -1]), nm1, rng.choice([0, 0, 7, 12345])]}     # n digits
                            model = 0
                        r = rng.random()
                        if form != "int" and r < 0.12:       # the same in another decimal digit system (oracle only: skip)
                            alpha = rng.choice([arabic, fullw])
                            v = {"rep": [[alpha[int(s)] if len(s) == 1 else "".join(alpha[int(c)] for c in s), c] for s, c in v["rep"]]}
                        elif form != "int" and r < 0.22:
                            v = {"ssub": ["sub", v]}
                        elif form == "int" and r < 0.3:
                            v = {"isub": [rng.choice(["sub", "loud"]), v]}
                        add([v], [k], digits=D, model=model, fam="boundary-" + form)
    # pairs and chains on boundary values, several entries in one library (thorough: more)
    for _ in range(120 if quick else 2500):
        D = rng.choice(DIGIT_SETTINGS)
        vs = []
        n_est = 0
        for _ in range(rng.choice([1, 1, 2, 3])):
            ref = rng.choice(["@cur", "@base"]) if D and D != 10000 else "@cur" if D and rng.random() < 0.3 else "@base"
            off = rng.choice([-1, 0, 1, -rng.randint(2, 60), rng.randint(2, 60)])
            r = rng.random()
            if r < 0.45:
                n_est = max(n_est, D if ref == "@cur" else ASSUMED_BASE)
                vs.append({"rep": [["0", rng.choice([0, 0, 1, 2, 50])], [digit(), [ref, off]]]})
            elif r < 0.7:
                m = rng.randint(1, 12)
                vs.append({"rep": [["0", [ref, off - len(str(m))]], [str(m), 1]]})
            elif r < 0.85:
                vs.append({"pow10": [rng.choice([1, -1]), [ref, off - 1], 0]})
            else:
                vs.append(base.jv(rng.choice(base.spellings(rng.randint(1, 12)))))
        seq = rng.choice(base.SEQS[3:]) if rng.random() < 0.7 else [rng.randrange(3) for _ in range(rng.randint(3, 5))]
        add(vs, seq, digits=D, rec=rng.choice(HEADROOMS) if rng.random() < 0.15 else None,
            model=0 if any("pow10" in v for v in vs) else model_for(n_est), fam="boundary-chain")
    # ---- B. every ordinary spelling and near miss under every digit setting
    for D in DIGIT_SETTINGS:
        for m in range(1, 13):
            for t in (str(m), "%02d" % m, "00%d" % m, m):
                for k in range(3):
                    add([base.jv(t)], [k], digits=D, fam="ordinary")
            sp = base.spellings(m)[3:]
            for t in (rng.sample(sp, 2) if quick else sp):
                add([base.jv(t)], [rng.randrange(3)] if quick else rng.choice(base.SEQS), digits=D, fam="ordinary")
        near = [x for x in base.NEAR_SMALL] + [99, "99", "000", "12x", "٣", "１２", "1" * 30, "0" * 40 + "7", 10 ** 17, -(10 ** 17)]
        for v in (rng.sample(near, 10) if quick else near):
            for seq in ([[rng.randrange(3)]] if quick else base.SEQS[:3]):
                add([base.jv(v)], seq, digits=D, how=rng.choice(HOWS[:3]), fam="ordinary")
        for _ in range(12 if quick else 200):      # pairs / chains / several entries
            vs = [base.jv(rng.choice(base.spellings(rng.randint(1, 12))) if rng.random() < 0.8 else rng.choice(base.NEAR_SMALL))
                  for _ in range(rng.randint(1, 3))]
            seq = rng.choice(base.SEQS[3:]) if rng.random() < 0.7 else [rng.randrange(3) for _ in range(rng.randint(3, 5))]
            add(vs, seq, digits=D, rec=rng.choice(HEADROOMS) if rng.random() < 0.2 else None, how=rng.choice(HOWS[:3]), fam="ordinary")
    # ---- C. lowered recursion limit: values whose length would matter to code that recurses over the value
    lengths = [30, 150, 400, 1000, 5000]
    for H in HEADROOMS:
        for n in lengths:
            m = rng.randint(1, 12)
            word = rng.choice(base.ABBR + base.FULL)
            longs = [("pad", {"rep": [["0", n], [str(m), 1]]}),
                     ("digits", {"rep": [[digit(), 1], [digit(False), n]]}),
                     ("word", {"rep": [[word, 1], [rng.choice("xyzn"), n]]} if rng.random() < 0.5 else {"rep": [[word, max(1, n // len(word))]]}),
                     ("int", {"pow10": [rng.choice([1, -1]), n, rng.choice([0, 5])]})]
            for kind, v in longs:
                for k in range(3):
                    D = rng.choice(DIGIT_SETTINGS) if rng.random() < 0.25 else None
                    add([v], [k], digits=D, rec=H, model=0 if kind == "int" else model_for(n) if kind == "digits" else 1, fam="rec-" + kind)
        for m in range(1, 13):
            for t in rng.sample(base.spellings(m), 2 if quick else 9):
                add([base.jv(t)], rng.choice(base.SEQS), rec=H, fam="rec-ordinary")
        for v in (rng.sample(base.NEAR_SMALL, 5) if quick else base.NEAR_SMALL):
            add([base.jv(v)], rng.choice(base.SEQS), rec=H, how=rng.choice(HOWS[:3]), fam="rec-ordinary")
        for _ in range(10 if quick else 200):
            vs = []
            for _ in range(rng.randint(1, 3)):
                r = rng.random()
                n = rng.choice(lengths[:4])
                vs.append({"rep": [["0", n], [str(rng.randint(1, 12)), 1]]} if r < 0.3 else {"rep": [[digit(), n]]} if r < 0.5 else
                          base.jv(rng.choice(base.spellings(rng.randint(1, 12)))))
            seq = rng.choice(base.SEQS[3:]) if rng.random() < 0.7 else [rng.randrange(3) for _ in range(rng.randint(3, 5))]
            add(vs, seq, rec=H, digits=rng.choice(DIGIT_SETTINGS) if rng.random() < 0.3 else None, fam="rec-chain")
    return cases


# ------------------------------------------------------------------------------------------------------------------ child side
def textual(v):
    return (type(v) is int and 0 <= v < 2 ** 62) or (type(v) is str and v.isascii() and v.isalnum())


def short_like(v, m):
    """a short value of the same kind (same type, month or not) - the reference of the recursion-limit verdict"""
    if isinstance(v, bool):
        return v
    if isinstance(v, int):
        return m if m is not None else 13
    if isinstance(v, str):
        if m is not None:
            return str(m) if v.isdecimal() and v.isascii() else "7" if v.isdecimal() else ["jan", "feb", "mar", "apr", "may", "jun", "jul", "aug", "sep", "oct", "nov", "dec"][m - 1]
        return "13" if v.isdecimal() else "x"
    return v


def digits_class(n, limit):
    if not limit:
        return "unlimited"
    return "below" if n < limit else "at" if n == limit else "above"


def sig_digits(v):
    """number of significant decimal digits of an int / a decimal string; None for other values"""
    import unicodedata
    if isinstance(v, bool):
        return None
    if isinstance(v, int):
        v = abs(int.__int__(v))
        if v < 10 ** 18:
            return len(int.__repr__(v))
        n = int(v.bit_length() * 0.30102999566398) - 1          # floor(log10) within one; settled exactly below
        while 10 ** (n + 1) <= v:
            n += 1
        while 10 ** n > v:
            n -= 1
        return n + 1
    if isinstance(v, str):
        v = str.__str__(v)
        if not v.isdecimal():
            return None
        i = 0
        while i < len(v) - 1 and unicodedata.decimal(v[i]) == 0:
            i += 1
        return len(v) - i
    return None


def impl(case, MW):
    import bibtexparser
    import enc
    import implutil
    from bibtexparser.library import Library
    from bibtexparser.model import Entry, Field
    from . import c15 as base
    inp = case["input"]
    st = inp["interp"]
    D, H, on = st["digits"], st["rec"], st["on"]
    how, mws, inplace, inst = inp["how"], inp["mws"], bool(inp["inplace"]), inp["inst"]
    L0 = base_limit()
    vs = [base.unjv(resolve(v, D, L0)) for v in inp["values"]]
    abstract = ("MonthIntMiddleware", "MonthAbbreviationMiddleware", "MonthLongStringMiddleware")
    if how == "parse" and not all(textual(v) for v in vs):
        how = "transform"                              # not writable as a bare BibTeX token: handed over as objects
        on = [on[0]] * len(mws)
    has_limit = hasattr(sys, "set_int_max_str_digits")

    def new(k):
        return MW[k](allow_inplace_modification=inplace)

    def text_of(values):
        return "".join("@article{k%d,\n  month = %s\n}\n" % (i, v if isinstance(v, str) else int.__repr__(v)) for i, v in enumerate(values))

    def entries_of(values):
        return [Entry("article", "k%d" % i, [Field("month", v, 2)], start_line=i, raw="@article{k%d}" % i) for i, v in enumerate(values)]

    def flat(out, t):
        if t is None:
            return
        if isinstance(t, (list, tuple)):
            out.extend(t)
        else:
            out.append(t)

    def execute(values, headroom):
        """the calls of the case on `values`; the settings in force around the calls marked in `on`, restored after each"""
        insts = [new(k) for k in mws] if inst in ("before", "warm") else None
        if inst == "warm":
            for m in insts:
                m.transform(Library(entries_of(["12", "1" * 50, "jan", 99])))

        def get(i):
            return insts[i] if insts is not None else new(mws[i])
        if how == "parse":
            text = text_of(values)
            return under(D, headroom, lambda: bibtexparser.parse_string(text, append_middleware=[get(i) for i in range(len(mws))]).blocks)
        lib = Library(entries_of(values))
        for i in range(len(mws)):
            def call(lib=lib, i=i):
                m = get(i)
                if how == "transform":
                    return m.transform(lib)
                out = []
                for b in lib.blocks:
                    flat(out, m.transform_block(b, lib))
                return Library(out)
            lib = under(D, headroom, call) if on[i] else call()
        return lib.blocks

    # ---- before the calls: what the middlewares will find, the model's input, the oracle's reading of the values under each setting
    if how == "parse":
        found_blocks = bibtexparser.parse_string(text_of(vs)).blocks
        found = [b.fields[0].value if type(b).__name__ == "Entry" and len(b.fields) == 1 else None for b in found_blocks]
        sx_blocks = [enc.enc_block(b, abstract) for b in found_blocks]
    else:
        found = vs
        sx_blocks = [enc.enc_block(e, abstract) for e in entries_of(vs)]
    settings = sorted({D if (o and has_limit) else None for o in on}, key=lambda x: -1 if x is None else x)
    readings = [under(d, None, lambda: [base.month_of(v) for v in found]) for d in settings]
    ambiguous = any(r != readings[0] for r in readings)
    months = readings[-1]
    big_int = any(isinstance(v, int) and not isinstance(v, bool) and abs(v) >= 2 ** 62 for v in found)
    sx_in = None if (big_int or not inp.get("model", 1)) else [11, mws, sx_blocks]
    # ---- the calls
    escalated = 0
    head = H
    r = implutil.guarded(lambda: execute(vs, head))
    reference = None
    if r[0] == "exc" and H is not None and r[1] != implutil.EXC_TIMEOUT:
        shorts = [short_like(v, m) for v, m in zip(vs, months)]
        for _ in range(4):
            reference = implutil.guarded(lambda: execute(shorts, head))
            if reference[0] == "ok" or escalated == 3:
                break
            escalated += 1
            head = head * 2
            r = implutil.guarded(lambda: execute(vs, head))
            if r[0] == "ok":
                break
    # ---- record
    tags = ["interp", "interp-how:" + how, "interp-inst:" + inst, "interp-" + inp.get("fam", "?"),
            "interp-digits:" + ("untouched" if D is None else "off" if D == 0 else str(D)),
            "interp-rec:" + ("untouched" if H is None else "+%d" % H),
            "interp-around:" + ("every-call" if all(on) else "some-calls")]
    if D is not None and not has_limit:
        tags.append("interp-interpreter-has-no-digit-limit")
    for v in found:
        n = sig_digits(v)
        if n is not None and n > 20:
            kind = "int" if isinstance(v, int) else "str"
            tags.append("interp-sig-%s:%s-base,%s-cur" % (kind, digits_class(n, L0), digits_class(n, D if D is not None else L0)))
            if isinstance(v, str) and len(v) > n:
                tags.append("interp-leading-zeros")
    for v, m in zip(found, months):
        if m is not None and isinstance(v, str) and len(v) > 20:
            tags.append("interp-long-padded-month")
    if escalated:
        tags.append("interp-rec-escalated")
    tags.append("interp-model-compared" if sx_in is not None else "interp-oracle-only")
    if ambiguous:
        tags.append("interp-oracle-ambiguous")
    tags += base.sub_tags(*inp["values"])
    rec = {"sx_in": sx_in, "key": json.dumps(inp, sort_keys=True), "nontrivial": True, "tags": sorted(set(tags))}
    where = "under %s%s (base digit limit %s; settings in force around calls %r), run as %r, objects built %s" % (
        "sys.set_int_max_str_digits(%d)" % D if D is not None else "the base digit limit",
        ", recursion limit = frames in use + %d" % head if H is not None else "", L0, on, how, inst)
    if r[0] == "exc":
        rec["sx_out"] = implutil.r_exc(r[1]) if sx_in is not None else None
        rec["summary"] = "raised " + r[2]
        if H is not None and reference is not None and reference[0] == "exc" and r[1] != implutil.EXC_TIMEOUT:
            # even short values raise with 8 x the headroom: the library cannot run at all there; not attributable to the value,
            # but far from what the pinned tree needs (5..15 frames) - reported
            rec["oracle"] = {"ok": False, "detail": "middlewares %r raise %s even on the short month values %r %s" % (mws, reference[2], shorts, where)}
        else:
            rec["oracle"] = {"ok": False, "detail": "middlewares %r raised %s on month values %s %s%s" % (
                mws, r[2], [base.sr(v) for v in vs], where,
                "; the same calls on the short values %r go through" % (shorts,) if reference is not None else "")}
        return rec
    blocks = r[1]
    rec["sx_out"] = implutil.r_ok([enc.enc_block(b, abstract) for b in blocks]) if sx_in is not None else None
    if any(isinstance(v, str) and (not enc.lower_is_ascii_only(v) or (v.isdecimal() and not v.isascii())) for v in found):
        rec["skip"] = True
    if any(not isinstance(v, (str, int, list, type(None))) for v in found):
        rec["skip"] = True
    ok, detail = True, ""
    if len(blocks) != len(found) or any(type(b).__name__ != "Entry" for b in blocks):
        ok, detail = False, "result is not one entry per entry %s" % where
    else:
        last = mws[-1]
        for i, (v, b) in enumerate(zip(found, blocks)):
            got = b.fields[0].value if len(b.fields) == 1 and b.fields[0].key == "month" else None
            fine = base.matches(got, last, v)
            if not fine and ambiguous:
                fine = any(under(d, None, lambda: base.matches(got, last, v)) for d in settings)
            if not fine or b.key != "k%d" % i:
                exp = base.expected(last, v)
                ok, detail = False, ("entry %d through %r %s: month value %s (%s) gave %s (%s), expected %s" %
                                     (i, mws, where, base.sr(v), type(v).__name__, base.sr(got), type(got).__name__, base.sr(exp)))
                break
    rec["oracle"] = {"ok": ok, "detail": detail}
    rec["summary"] = ("[" + ", ".join(base.sr(b.fields[0].value) for b in blocks if type(b).__name__ == "Entry" and b.fields) + "]")[:200]
    return rec
