"""C15 - month LOOK-ALIKES under other case / normalisation notions (imported by c15.py only).

The property calls a string a spelling of month m when it is a decimal string of m or one of the 2^n upper / lower case
variants of the abbreviation or the full name.  The code decides this with `str.lower()`, `str.isdecimal()` and `int()`.
A string that equals a month name only under ANOTHER notion of "the same text" is an other word and has to come back
unchanged with its type from all three middlewares and all 9 ordered pairs:

  fold       one letter (or letter pair) replaced by a character that equals it under casefold() but not under lower()
             (long s, the ligatures st / fi / ..., sharp s)
  upper      ... under upper() but not under lower() (long s, dotless i, ligatures)
  lower      ... under lower() itself (Kelvin sign): the ONE notion the property does use - month_of() of c15.py computes
             lower(), so such a string is a month spelling exactly when lower() maps it onto the table
  nfkc       ... under NFKC / NFKD compatibility normalisation (fullwidth, mathematical, circled, modifier letters, Kelvin
             sign, ligatures, the squared units / Roman numerals / NUMERO SIGN for letter pairs), one letter, the whole word
             in one style, several letters in mixed styles
  accent     ... after NFKD and dropping the combining marks (precomposed accented letters, Angstrom sign)
  combining  letter + combining mark
  invisible  a character that is invisible but not whitespace (charclasses.INVISIBLE_NOT_SPACE; thorough: every Cf character)
             before / after / on both sides / inside
  space      a whitespace character (charclasses.OTHER_ISSPACE and the four ASCII blanks) at the same places
  oddity     a character of charclasses.CASE_ODDITIES / LETTER_LIKE / DIGIT_ODDITIES in place of a letter it is not related to
  digits     1..12 (and 0, 13; zero-padded) written in every other decimal digit system, in mixed systems, with
             non-decimal digit characters (superscripts, subscripts, circled ...: isdigit() without isdecimal()), as ONE
             numeric character (Roman numerals, circled numbers, CJK numerals, fractions), with '_' / blanks / signs that
             int() tolerates.  A string is a decimal spelling exactly when isdecimal() holds and int() gives 1..12 (computed
             by month_of(), no list): the other decimal digit systems ARE spellings, everything else is an other word.

All pools are computed from the Unicode database of the running interpreter (no hard-coded character lists beyond the shared
charclasses pools), in code point order, and every choice is drawn from the check's PRNG."""
import re
import unicodedata as ud

from . import charclasses as cc

_POOLS = None


def _asc(s):
    return s.isascii() and s.isalpha()


def pools():
    """kind -> {lower-case ASCII key: [characters]}, the combining marks, the format characters, digit tables"""
    global _POOLS
    if _POOLS is not None:
        return _POOLS
    rel = {k: {} for k in ("lower", "fold", "upper", "nfkc", "accent")}
    styles = {}                # style name -> {ASCII letter (with its case): character}
    marks, formats = [], []
    systems = []               # decimal digit systems: lists of ten characters
    digit_only = {}            # group name -> {digit: character}       isdigit() and not isdecimal()
    numeric_only = {}          # n -> [characters]                       isnumeric() and not isdigit(), value an integer
    fractions = []

    def add(kind, key, x):
        rel[kind].setdefault(key, []).append(x)
    for cp in range(0x80, 0x110000):
        x = chr(cp)
        cat = ud.category(x)
        if cat in ("Cs", "Co", "Cn"):
            continue
        if cat in ("Mn", "Me"):
            marks.append(x)
            continue
        if cat == "Cf":
            formats.append(x)
        if x.isdecimal():
            if ud.decimal(x) == 0:
                systems.append([])
            systems[-1].append(x)
            continue
        if x.isdigit():
            name = re.sub(r" (DIGIT )?(ZERO|ONE|TWO|THREE|FOUR|FIVE|SIX|SEVEN|EIGHT|NINE)( FULL STOP| COMMA)?$", "", ud.name(x, "?"))
            digit_only.setdefault(name, {}).setdefault(ud.digit(x), x)
            continue
        if x.isnumeric():
            n = ud.numeric(x)
            if n == int(n) and 0 <= n <= 13:
                numeric_only.setdefault(int(n), []).append(x)
            elif 0 < n < 13:
                fractions.append(x)
            continue
        lo, up, cf = x.lower(), x.upper(), x.casefold()
        if _asc(lo):
            add("lower", lo, x)
        if _asc(cf) and cf != lo:
            add("fold", cf, x)
        if _asc(up) and up.lower() != lo:
            add("upper", up.lower(), x)
        nk = ud.normalize("NFKC", x)
        if _asc(nk):
            add("nfkc", nk.lower(), x)
            if len(nk) == 1:
                st = re.sub(r" (SMALL|CAPITAL)( LETTER)? [A-Z]$", "", ud.name(x, "?"))
                styles.setdefault(st, {}).setdefault(nk, x)
        nd = ud.normalize("NFKD", x)
        base = "".join(c for c in nd if not ud.combining(c))
        if base != nd and _asc(base):
            add("accent", base.lower(), x)
    systems = [s for s in systems if len(s) == 10]
    _POOLS = {"rel": rel, "styles": {k: v for k, v in sorted(styles.items()) if len(v) >= 20}, "marks": marks, "formats": formats,
              "systems": systems, "digit_only": {k: v for k, v in sorted(digit_only.items())}, "numeric_only": numeric_only,
              "fractions": fractions}
    return _POOLS


def occurrences(word, key):
    lo = word.lower()
    i = lo.find(key)
    while i >= 0:
        yield i
        i = lo.find(key, i + 1)


def case_forms(word, rng, n_random=0):
    out = [word.lower(), word.upper(), word.capitalize()]
    for _ in range(n_random):
        m = rng.getrandbits(len(word))
        out.append("".join(c.upper() if (m >> i) & 1 else c.lower() for i, c in enumerate(word)))
    seen, res = set(), []
    for w in out:
        if w not in seen:
            seen.add(w)
            res.append(w)
    return res


def place(word, c, how, rng):
    if how == 0:
        return c + word
    if how == 1:
        return word + c
    if how == 2:
        return c + word + c
    i = rng.randint(1, len(word) - 1)
    return word[:i] + c + word[i:]


def gen_values(rng, tier, abbr, full):
    """[(kind, value, all 9 pairs too?)] - deterministic for a given rng state"""
    quick = tier == "quick"
    P = pools()
    rel = P["rel"]
    words = []
    for a, f in zip(abbr, full):
        words.append(a)
        if f.lower() != a:
            words.append(f)
    vals = []
    p_pairs = 0.15 if quick else 0.1

    def some_form(w):
        r = rng.random()
        if r < 0.3:
            return w.lower()
        if r < 0.5:
            return w.upper()
        if r < 0.75:
            return w.capitalize()
        m = rng.getrandbits(len(w))
        return "".join(c.upper() if (m >> i) & 1 else c.lower() for i, c in enumerate(w))
    # -- small pools: every word x every occurrence x every character x the three usual case forms (+ random ones), all 12 sequences
    for kind in ("fold", "upper", "lower"):
        for w in words:
            for key, chars in sorted(rel[kind].items()):
                for i in occurrences(w, key):
                    for x in chars:
                        for form in case_forms(w, rng, 0 if quick else 4):
                            vals.append((kind, form[:i] + x + form[i + len(key):], True))
    # -- nfkc / accent: one letter (or letter group) replaced; quick: one random character per position, thorough: all
    for kind in ("nfkc", "accent"):
        for w in words:
            per_pos = {}
            for key, chars in sorted(rel[kind].items()):
                for i in occurrences(w, key):
                    per_pos.setdefault((i, len(key)), []).extend(chars)
            for (i, n), chars in sorted(per_pos.items()):
                if quick and kind == "accent" and rng.random() < 0.5:
                    continue
                for x in ([rng.choice(chars)] if quick else rng.sample(chars, min(len(chars), 12 if kind == "nfkc" else 8))):
                    form = some_form(w)
                    vals.append((kind, form[:i] + x + form[i + n:], n > 1 or rng.random() < p_pairs))
    # -- nfkc: the whole word in one style (fullwidth, mathematical bold, circled ...) and in mixed styles
    styles = P["styles"]
    names = list(styles)
    for w in words:
        forms = case_forms(w, rng)
        for st in (["FULLWIDTH LATIN"] + rng.sample(names, 2) if quick else names):
            tab = styles.get(st, {})
            for form in ([rng.choice(forms)] if quick else forms):
                if all(c in tab for c in form):
                    vals.append(("nfkc", "".join(tab[c] for c in form), rng.random() < p_pairs))
        for _ in range(1 if quick else 6):
            form = rng.choice(forms)
            keep = rng.randrange(len(form))          # at least this letter is replaced
            vals.append(("nfkc", "".join(rng.choice(rel["nfkc"][c.lower()]) if i == keep or rng.random() < 0.7 else c for i, c in enumerate(form)),
                         rng.random() < p_pairs))
    # -- letter + combining mark
    for w in words:
        todo = [(rng.randrange(len(w)), m) for m in rng.sample(cc.COMBINING, 2) + [rng.choice(P["marks"])]] if quick else \
            [(i, m) for i in range(len(w)) for m in cc.COMBINING] + [(rng.randrange(len(w)), rng.choice(P["marks"])) for _ in range(12)]
        for i, m in todo:
            form = some_form(w)
            vals.append(("combining", form[:i + 1] + m + form[i + 1:], rng.random() < p_pairs))
    # -- invisible / whitespace characters at an edge or inside: every (character, place) at least once, spread over the words
    for kind, pool in (("invisible", cc.INVISIBLE_NOT_SPACE + ([] if quick else [c for c in P["formats"] if c not in cc.INVISIBLE_NOT_SPACE])),
                       ("space", cc.OTHER_ISSPACE + cc.ASCII_BLANKS)):
        combos = [(c, how) for c in pool for how in range(4)]
        rng.shuffle(combos)
        n = max(len(combos), 4 * len(words)) if quick else 2 * len(combos)
        for j in range(n):
            c, how = combos[j % len(combos)]
            vals.append((kind, place(some_form(words[j % len(words)]), c, how, rng), rng.random() < p_pairs))
    # -- characters of the shared oddity pools where they are NOT related to the letter they replace
    for x in cc.CASE_ODDITIES + cc.LETTER_LIKE + cc.DIGIT_ODDITIES:
        for _ in range(1 if quick else 6):
            form = some_form(rng.choice(words))
            i = rng.randrange(len(form))
            vals.append(("oddity", form[:i] + x + form[i + 1:], rng.random() < p_pairs))
    # -- digit strings
    systems = P["systems"]

    def in_system(s, n, pad=0):
        return s[0] * pad + "".join(s[int(d)] for d in str(n))
    for s in systems:
        ns = [rng.randint(1, 12), rng.choice([0, 13, 20, 100, rng.randint(1, 12)])] if quick else list(range(0, 14)) + [rng.choice([20, 100])]
        for n in ns:
            vals.append(("digits", in_system(s, n), rng.random() < p_pairs))
        for n in ([rng.randint(1, 12)] if quick else rng.sample(range(1, 13), 4)):
            r = rng.random()          # zero-padded: zeros of the same system / ASCII zeros / zeros of another system
            z = s[0] if r < 0.5 else "0" if r < 0.75 else rng.choice(systems)[0]
            vals.append(("digits", z * rng.randint(1, 3) + in_system(s, n), rng.random() < p_pairs))
    for n in (10, 11, 12):            # two digits from two systems (int() accepts them)
        for _ in range(4 if quick else 40):
            a, b = rng.choice(systems + [list("0123456789")]), rng.choice(systems)
            if rng.random() < 0.5:
                a, b = b, a
            vals.append(("digits", a[n // 10] + b[n % 10], rng.random() < p_pairs))
    for name, tab in P["digit_only"].items():       # superscripts, subscripts, circled digits ...: isdigit() without isdecimal()
        for n in (rng.sample(range(1, 13), 2) if quick else range(0, 14)):
            if all(int(d) in tab for d in str(n)):
                vals.append(("digits", "".join(tab[int(d)] for d in str(n)), rng.random() < p_pairs))
            d = rng.choice(sorted(tab))
            vals.append(("digits", rng.choice(["1", "0", ""]) + tab[d] if rng.random() < 0.5 else tab[d] + rng.choice("012")[:1], rng.random() < p_pairs))
    for n, chars in sorted(P["numeric_only"].items()):       # one character whose numeric value is n
        for x in (rng.sample(chars, min(3, len(chars))) if quick else chars):
            vals.append(("digits", x, rng.random() < p_pairs))
    for x in (rng.sample(P["fractions"], 4) if quick else P["fractions"]):
        vals.append(("digits", x, False))
    # what int() tolerates around / inside digits although the text is not a decimal string
    for n in (rng.sample(range(1, 13), 4) if quick else range(1, 13)):
        t = str(n)
        tol = [rng.choice(cc.all_whitespace()) + t, t + rng.choice(cc.all_whitespace()), "+" + t, "0_" + t, t[0] + "_" + t[1:] if len(t) > 1 else t + "_0",
               rng.choice(cc.INVISIBLE_NOT_SPACE) + t, t + rng.choice(cc.INVISIBLE_NOT_SPACE), t + rng.choice(cc.COMBINING), "0x" + t, t + ".0", t + "e0"]
        for v in (rng.sample(tol, 4) if quick else tol):
            vals.append(("digits", v, rng.random() < p_pairs))
    # distinct values, first kind wins
    seen, out = set(), []
    for kind, v, pairs in vals:
        if v not in seen:
            seen.add(v)
            out.append((kind, v, pairs))
    return out
