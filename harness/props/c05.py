"""C05 - parse -> write -> parse preserves content; written text is a fixpoint."""
import gens_split as G
import splitcommon as SC
from props import c05_fmt as FE
from props import c05_self as SF
from props import c05_tail as TL

ENGINE = "roundtrip"
RULE = ("grammar derivations (DESIGN.md section 3; duplicate-free; incl. resolved / unresolved / chained @string references, "
        "concatenations, numeric values, nested braces, multi-line values, comments between blocks; plus a stream whose field names, "
        "entry keys and @string keys are drawn from names with a meaning of their own in the model classes ('ID', 'ENTRYTYPE', attribute / "
        "metadata names, the int-rule field names), from letter-case variants of one another, and from the entry types / keys of the same "
        "document; plus a SIZE stream of plain documents with 1000+ pairwise different blocks (counts next to round numbers and powers of "
        "two, every residue modulo 4 and 8; entries only / all block kinds / comments and free text / @string definitions with one "
        "entry using 300 of them), counts next to 64..999, one entry with 257..1100 (thorough: ..4099) fields, and 1000+ levels of "
        "braces in every block kind) x BibtexFormat settings "
        "(indent in {'', tab, 2/4 spaces}, value_column in {0,1,7,20,'auto'}, trailing_comma, whitespace-only block_separator in "
        "{'', '\\n', '\\n\\n', ' \\n\\t\\n'}); plus the stream `fmtedge` (props/c05_fmt.py): EDGE VALUES of every setting x every block kind "
        "at every position - block_separator and indent from a pool of ~70 whitespace-only strings (empty, one blank, ending in blanks, not "
        "ending in a newline, carriage returns, every other str.isspace() character alone and next to a newline / blank, long), "
        "value_column 0 / 1 / len(key)+2,+3,+4 / very large / 'auto', both trailing commas; single blocks, every ordered pair and every "
        "triple of {free text, @comment, @preamble, @string, entry}, tours through all 24 adjacencies under EVERY separator of the pool, "
        "entries with 0..4 fields under EVERY indent of the pool; "
        "plus the stream `selfref` (props/c05_self.py): well-formed documents with comments that read like the WRITER'S OWN WARNING "
        "about the block next to them - the exact text for the line count of that block in the input layout / in the writer's layout "
        "(splitlines and newline counts) and its near misses (other counts, digit systems, case, blanks, doubled, bare template), "
        "under the default parsing_failed_comment (rendered from the tree under test) and ~25 custom templates (incl. ones that "
        "str.format cannot fill in; text and format template equal or different), directly above / one blank line above / other gaps "
        "above / below / far from every kind and layout of valid block, as free text, inside an explicit comment, inside a value of "
        "the neighbouring entry or of the block itself, as an @string value that is referred to, inside a @preamble; documents in "
        "which every block carries its own warning; the writer's other constants as text; these round trips are continued to a "
        "third and fourth write; "
        "plus the stream `tail` (props/c05_tail.py): TEXTS WHOSE LAST AND FIRST CHARACTERS ARE BACKSLASHES AND BLANKS in every "
        "combination - k = 0..4 backslashes followed by m = 0..4 blanks (spaces / tabs / newlines / mixed; carriage returns, form "
        "feeds, the other str.isspace() characters) in front of the closing delimiter, the mirror image behind the opening one, both, "
        "and the same tail in front of a nested closing brace, in every host: brace- and quote-enclosed field values and @string "
        "values (referred to or not), @preamble bodies (raw / quoted / braced), explicit comments, entry keys, bare values, pieces "
        "of concatenations, field and @string names; every (host, k, m, kind of blank) at the end and at the start in every run, "
        "each document checked against the grammar before it is emitted; continued to a third and fourth write; "
        "default parse and write stacks; distinct = distinct (document, format); "
        "non-trivial = the document has an entry with a field, or at least two blocks")
TRUSTED = ["the model side composes Model/Splitter, Model/Interpolate, Model/Enclosing and Model/Writer (op 150)"]
ASSUMPTIONS = ["block_separator and indent are whitespace-only (a non-whitespace separator is written verbatim between blocks by C06 and "
               "necessarily re-parses as free text; excluded here and stated in the theorem)"]

INDENTS = ["", "\t", "  ", "    "]
COLUMNS = [0, 1, 7, 20, "auto"]
SEPS = ["", "\n", "\n\n", " \n\t\n"]


def generate(rng, tier):
    cases = []
    n = 400 if tier == "quick" else 15000
    made = 0
    while made < n:
        sk = ["jan", "mon", "k1", "abbr", "Foo"]
        text, items = G.gen_doc(rng, max_items=rng.choice([2, 5, 9]), depth=rng.randint(0, 3), string_keys=sk,
                                bare_pool=["jan", "mon", "k1", "abbr", "undefined", "JAN", "12"])
        if not SC.doc_is_nodup(items):
            continue
        fmt = {"indent": rng.choice(INDENTS), "column": rng.choice(COLUMNS), "trailing": rng.random() < 0.5, "sep": rng.choice(SEPS)}
        cases.append({"stream": "G", "input": {"text": text, "fmt": fmt, "n_items": len(items)}})
        made += 1
    # chained string references, definitions after use
    chained = ('@string{jan = "January"}\n@string{mon = jan}\n@article{k, month = mon, other = jan, t = {x} # mon, n = 12}\n'
               '@article{j, month = late}\n@string{late = {Late}}\n% trailing remark')
    for ind in INDENTS:
        for col in COLUMNS:
            for sep in SEPS:
                for tr in (False, True):
                    cases.append({"stream": "chained", "input": {"text": chained, "n_items": 6,
                                                                 "fmt": {"indent": ind, "column": col, "trailing": tr, "sep": sep}}})
    # known finding K7: an explicit comment / entry key whose stripped text ends in a backslash
    k7docs = ["@comment{a line \\\\\n}\n@article{k, x = {y}}", "@comment{a\\ }", "@article{k\\ , x = {y}}\n@comment{fine}",
              "% free\n@Comment{ {nested} tail\\\t}\n@string{s = {v}}",
              "@a{k, x = ab\\ }", "@string{s = ab\\ }\n@a{k, y = s}", "@a{k, x = {a} # b\\ , z = {fine}}"]
    for t in k7docs:
        for ind in INDENTS[:2]:
            for col in (0, "auto"):
                cases.append({"stream": "K7", "input": {"text": t, "n_items": 2,
                                                        "fmt": {"indent": ind, "column": col, "trailing": False, "sep": "\n\n"}}})
    for t in ["@STR\u0130NG{k, a = {b}}", "@comment{x}\n@\u0130{k}\n@string{s = {v}}"]:
        cases.append({"stream": "K9", "input": {"text": t, "n_items": 2, "fmt": {"indent": "\t", "column": "auto", "trailing": False, "sep": "\n\n"}}})
    # field names / entry keys / string keys that collide with names the model classes give a meaning of their own
    # (Entry's mapping interface answers "ID" / "ENTRYTYPE" itself; attribute and metadata names; the int-rule field names),
    # with each other up to letter case, and with the entry key / entry type / @string keys of the same document
    for t in RESERVED_DOCS:
        for ind, col in (("\t", "auto"), ("", 0), ("  ", 7)):
            for tr in (False, True):
                cases.append({"stream": "names", "input": {"text": t, "n_items": 2,
                                                           "fmt": {"indent": ind, "column": col, "trailing": tr, "sep": "\n\n"}}})
    n = 150 if tier == "quick" else 4000
    made = 0
    while made < n:
        text, items = G.gen_doc(rng, max_items=rng.choice([2, 4, 7]), depth=rng.randint(0, 2), string_keys=NAME_POOL + ["jan", "mon"],
                                field_names=NAME_POOL, entry_keys=NAME_POOL + ["k1", "smith2020", "a.b"],
                                kinds=["entry", "entry", "entry", "entry", "string", "comment"],
                                bare_pool=["jan", "mon", "ID", "id", "ENTRYTYPE", "year", "12", "undefined"])
        if not SC.doc_is_nodup(items):
            continue
        if not any(it["kind"] == "entry" and it["fields"] for it in items):
            continue
        fmt = {"indent": rng.choice(INDENTS), "column": rng.choice(COLUMNS), "trailing": rng.random() < 0.5, "sep": rng.choice(SEPS)}
        cases.append({"stream": "names", "input": {"text": text, "fmt": fmt, "n_items": len(items)}})
        made += 1
    # SIZE: documents with a thousand and more blocks (block counts on and next to round numbers and powers of two, every
    # residue modulo 2 / 4 / 8), entries with hundreds of fields, a thousand @string definitions, deep brace nesting in every
    # kind of block.  Each document is plain (size_doc); the blocks are pairwise different, so any block that is lost,
    # doubled or moved shows in the comparison.
    for spec in size_specs(rng, tier):
        text, n_blocks = size_doc(spec)
        fmt = {"indent": rng.choice(INDENTS), "column": rng.choice(COLUMNS), "trailing": rng.random() < 0.5, "sep": rng.choice(SEPS)}
        cases.append({"stream": "size", "input": {"text": text, "fmt": fmt, "n_items": n_blocks, "size": spec}})
    # EDGE VALUES of every BibtexFormat setting x every block kind at every position (props/c05_fmt.py); after all other
    # streams, so that those keep their inputs
    cases += FE.generate(rng, tier)
    # THE LIBRARY'S OWN ARTEFACTS AS INPUT (props/c05_self.py): comments that read like the writer's warning about the block next
    # to them, under the default and custom templates; after all other streams
    cases += SF.generate(rng, tier)
    # TEXTS THAT END / BEGIN IN BACKSLASHES AND BLANKS (props/c05_tail.py), in every host; after all other streams
    cases += TL.generate(rng, tier, (INDENTS, COLUMNS, SEPS))
    return cases


SIZE_SHAPES = ["entries", "mixed", "comments", "strings"]


def size_specs(rng, tier):
    """Descriptions of the SIZE documents of one run: {"shape", "n", "seed"} (size_doc turns one into text)."""
    def spec(shape, n):
        return {"shape": shape, "n": n, "seed": rng.randrange(1 << 30)}
    out = []
    # 1000+ blocks: the fixed counts cover every residue modulo 4 (and 8) right above the round number
    big = [1001, 1002, 1003, 1337, 2049] if tier == "quick" else [1000, 1001, 1002, 1003, 1004, 1005, 1006, 1007, 1023, 1024, 1025,
                                                                     1337, 2047, 2049, 3001, 4097, 5003, 10001]
    shapes = list(SIZE_SHAPES)
    rng.shuffle(shapes)
    for k, n in enumerate(big):
        out.append(spec(shapes[k % len(shapes)] if k >= 2 else ("entries", "mixed")[k], n))
    for _ in range(1 if tier == "quick" else 24):
        out.append(spec(rng.choice(SIZE_SHAPES), rng.randint(1000, 2200) | rng.choice([0, 1, 1, 2, 3])))
    # counts around smaller round numbers / powers of two
    small = [rng.choice([63, 65, 127, 129, 255, 257]), rng.choice([499, 501, 511, 513, 999])] if tier == "quick" else \
        [63, 64, 65, 99, 101, 127, 129, 255, 256, 257, 499, 501, 511, 513, 767, 999]
    for n in small:
        out.append(spec(rng.choice(SIZE_SHAPES), n))
    # entries with hundreds of fields
    for n in ([257, 300, 513, rng.randint(600, 1100)] if tier == "quick" else [127, 129, 255, 256, 257, 258, 300, 511, 513, 1000, 1025, 2049, 4099]):
        out.append(spec("fields", n))
    # brace nesting of a thousand and more levels
    for n in ([rng.randint(1000, 1400)] if tier == "quick" else [255, 257, 999, 1001, 1025, 2049, 5000]):
        out.append(spec("deep", n))
    return out


def size_doc(spec):
    """(text, number of blocks) of a SIZE document; deterministic in the description."""
    import random
    r = random.Random(spec["seed"])
    shape, n = spec["shape"], spec["n"]

    def value(i):
        k = r.randrange(7)
        if k == 0:
            return "{v%d}" % i
        if k == 1:
            return '"T%d {B}r"' % i
        if k == 2:
            return str(1900 + i % 200)
        if k == 3:
            return "s%d" % r.randrange(max(1, n))                 # reference (defined before, after, or never)
        if k == 4:
            return "s%d # { %d} # \"~\"" % (r.randrange(max(1, n)), i)
        if k == 5:
            return "{two\n  lines %d}" % i
        return "{{%d} \\& {n{e}}}" % i

    def entry(i, nf=None):
        nf = r.choice([0, 1, 1, 1, 2]) if nf is None else nf
        typ = r.choice(["article", "book", "misc", "a"])
        if nf == 0:
            return "@%s{k%d%s}" % (typ, i, r.choice(["", ",", ",\n"]))
        fs = ["%s = %s" % (("f%d" % j) if nf > 6 else ("author", "title", "year", "note", "month", "x")[j], value(i * 7 + j)) for j in range(nf)]
        lay = r.randrange(3)
        if lay == 0:
            return "@%s{k%d,\n  %s\n}" % (typ, i, ",\n  ".join(fs))
        if lay == 1:
            return "@%s{k%d, %s}" % (typ, i, ", ".join(fs))
        return "@%s{k%d,\n%s,\n}" % (typ, i, ",\n".join(fs))

    def string(i):
        return "@string{s%d = %s}" % (i, r.choice(['"S %d"', "{S{%d}}", "%d"]) % i)

    def preamble(i):
        return "@preamble{\\def\\p%d{}}" % i

    def comment(i):
        return "@comment{c%d, {b}}" % i

    def free(i):
        return r.choice(["%% free %d", "free %d\ntwo lines", "%% a = {%d},"]) % i

    blocks = []
    if shape == "entries":
        blocks = [entry(i) for i in range(n)]
    elif shape == "comments":
        blocks = [comment(i) if i % 2 == 0 else free(i) for i in range(n)]
    elif shape == "strings":
        # definitions, some of them referring to the previous one, and one entry using a few hundred of them
        for i in range(n - 1):
            blocks.append("@string{s%d = s%d # {+}}" % (i, i - 1) if i % 10 == 9 else string(i))
        refs = r.sample(range(n - 1), min(n - 1, 300))
        blocks.insert(r.randrange(n), "@book{user,\n" + ",\n".join("  r%d = s%d" % (j, j) for j in refs) + "\n}")
    elif shape == "mixed":
        last_free = False
        for i in range(n):
            k = r.choice(["entry", "entry", "entry", "string", "preamble", "comment", "free"])
            if k == "free" and last_free:
                k = "comment"
            last_free = k == "free"
            blocks.append({"entry": entry, "string": string, "preamble": preamble, "comment": comment, "free": free}[k](i))
    elif shape == "fields":
        # one entry with n fields between two small blocks
        blocks = [string(0), entry(1, nf=n), entry(2, nf=1)]
    elif shape == "deep":
        # n levels of braces inside each kind of block
        nest = "{" * n + "x" + "}" * n
        blocks = ["@comment{c " + nest + "}", "@preamble{" + nest + "}", "@string{s0 = " + nest + "}",
                  "@article{k1, title = " + nest + ", other = \"q " + nest + "\" # s0}"]
    else:
        raise ValueError(shape)
    gap = r.choice(["\n", "\n\n", "\n\n", " \n"])
    return gap.join(blocks) + r.choice(["", "\n"]), len(blocks)


NAME_POOL = ["ID", "ENTRYTYPE", "id", "Id", "entrytype", "EntryType", "key", "KEY", "entry_type", "fields", "fields_dict", "raw",
             "start_line", "value", "parser_metadata", "removed_enclosing", "author", "Author", "AUTHOR", "title", "year", "Year", "YEAR",
             "month", "Month", "volume", "number", "pages", "edition", "chapter", "issue", "article", "misc", "string", "comment",
             "preamble", "jan", "k1", "0", "_"]

RESERVED_DOCS = [
    "@misc{doe2019, ID = {8841}, ENTRYTYPE = {dataset}, author = {Doe, Jane}, year = 2019}",
    "@misc{doe2019,\n  ENTRYTYPE = \"dataset\",\n  ID = 8841\n}",
    "@article{ID, ID = {x}}\n@article{ENTRYTYPE, ENTRYTYPE = {y}, ID = {z}}",
    "@article{k, id = {a}, Id = {b}, ID = {c}, iD = {d}}",
    "@article{k, entrytype = {a}, ENTRYTYPE = {b}, EntryType = {c}}",
    "@string{ID = {sid}}\n@string{ENTRYTYPE = {stype}}\n@book{b, ID = ID, ENTRYTYPE = ENTRYTYPE # {!}, x = ID # ENTRYTYPE}",
    "@book{b, key = {a}, entry_type = {b}, fields = {c}, raw = {d}, start_line = 7, parser_metadata = {e}, value = {f}}",
    "@book{author, author = {author}, Author = {B}, AUTHOR = \"C\", book = {book}}",
    "@a{k, year = {1999}, Year = 1999, YEAR = \"1999\", month = jan, Month = {jan}, MONTH = 12}",
    "@a{k1, ID = {}, ENTRYTYPE = \"\"}\n% remark\n@a{k2, ENTRYTYPE = {a}}\n@a{k3, ID = {k3}, ENTRYTYPE = {a}}",
]


def mkfmt(d):
    import bibtexparser
    f = bibtexparser.BibtexFormat()
    f.indent = d["indent"]
    f.value_column = d["column"]
    f.trailing_comma = d["trailing"]
    f.block_separator = d["sep"]
    if d.get("failed") is not None:
        f.parsing_failed_comment = d["failed"]
    return f


def impl(case):
    import bibtexparser, enc, implutil
    inp = case["input"]
    # stream selfref: the document is put together here, in the process that has the tree under test, so that the library's
    # default warning text is the one of THAT tree (inp["text"] is the same document as the generating process saw it)
    text = SF.render(inp["parts"]) if inp.get("parts") else inp["text"]
    deep = case["stream"] in ("selfref", "tail")

    snap = []

    def go():
        l1 = bibtexparser.parse_string(text)
        snap.append(SC.content(l1))          # what was handed to the writer, taken before writing
        t1 = bibtexparser.write_string(l1, bibtex_format=mkfmt(inp["fmt"]))
        l2 = bibtexparser.parse_string(t1)
        t2 = bibtexparser.write_string(l2, bibtex_format=mkfmt(inp["fmt"]))
        if deep:
            # the written text is a well-formed document itself: the property holds for it, and for what is written from it
            tk = t2
            for _ in range(2):
                lk = bibtexparser.parse_string(tk)
                snap.append(SC.content(lk))
                tk = bibtexparser.write_string(lk, bibtex_format=mkfmt(inp["fmt"]))
                snap.append(tk)
        return l1, t1, l2, t2
    r = implutil.guarded(go)
    rec = {"key": str(hash((text, str(inp["fmt"])))), "tags": [case["stream"]]}
    if inp.get("size"):
        rec["tags"].append("size:" + inp["size"]["shape"])
    rec["tags"] += inp.get("labels", [])
    fm = inp["fmt"]
    rec["sx_in"] = [150, enc.enc_str(text), [enc.enc_str(fm["indent"]), ([] if fm["column"] == "auto" else [fm["column"]]),
                                            enc.enc_str(fm["sep"]), int(fm["trailing"]),
                                            enc.enc_str(fm["failed"] if fm.get("failed") is not None else bibtexparser.BibtexFormat().parsing_failed_comment)]]
    if not SC.lower_ok(text):
        rec["skip"] = True
    if r[0] == "exc":
        rec["sx_out"] = implutil.r_exc(r[1])
        rec["oracle"] = {"ok": False, "detail": "round trip raised " + r[2]}
        rec["nontrivial"] = True
        rec["summary"] = "raised " + r[2]
        return rec
    l1, t1, l2, t2 = r[1]
    if case["stream"] == "fmtedge":
        # where each kind of block stands in the PARSED document (first / middle / last, neighbours), for the distribution
        rec["tags"] += FE.position_tags([type(b).__name__ for b in l1.blocks])
    rec["sx_out"] = implutil.r_ok([enc.enc_str(t1), [enc.enc_block(b, abstract_prev=True) for b in l2.blocks], enc.enc_str(t2)])
    ok, detail = True, ""
    c1, c2 = snap[0], SC.content(l2)
    if l1.failed_blocks:
        ok, detail = False, "failed block when parsing a well-formed document"
    elif c1 != c2:
        i = next((i for i, (a, b) in enumerate(zip(c1, c2)) if a != b), min(len(c1), len(c2)))
        ok, detail = False, "content differs after write+parse at block %d: %r vs %r" % (i, c1[i:i + 1], c2[i:i + 1])
    elif t1 != t2:
        ok, detail = False, "second write differs from the first"
    elif deep and (snap[1] != c1 or snap[3] != c1):
        ok, detail = False, "content differs after the %s write + parse" % ("second" if snap[1] != c1 else "third")
    elif deep and (snap[2] != t1 or snap[4] != t1):
        ok, detail = False, "the %s write differs from the first" % ("third" if snap[2] != t1 else "fourth")
    rec["oracle"] = {"ok": ok, "detail": detail[:400]}
    # known finding K7: a STRIPPED text (entry key, explicit comment, unenclosed value incl. a resolved reference to one) that ends in
    # a backslash is written directly in front of its closing delimiter.  Only what that explains is attributed to it: the first
    # parse succeeded, the content (not only the second write) differs, and the FIRST block that differs is one that holds such
    # a text (everything in front of it is written and read independently of it).  In the stream `tail` the generator also says
    # which documents contain such a text by construction; in any other document of that stream a text ending in a backslash
    # after the first parse is a defect of its own.
    def _bs(x):
        return isinstance(x, str) and x.endswith("\\")

    def _k7_block(b):
        return ((type(b).__name__ == "Entry" and (_bs(b.key) or any(_bs(f.value) for f in b.fields))) or
                (type(b).__name__ == "String" and _bs(b.value)) or
                (type(b).__name__ == "ExplicitComment" and _bs(b.comment)))
    if not ok and not l1.failed_blocks and c1 != c2:
        i = next((i for i, (a, b) in enumerate(zip(c1, c2)) if a != b), min(len(c1), len(c2)))
        if i < len(l1.blocks) and _k7_block(l1.blocks[i]) and \
                (case["stream"] != "tail" or "k7:by-construction" in inp.get("labels", [])):
            rec["oracle"]["known"] = "K7"
    import re
    if not ok and "known" not in rec["oracle"] and any(type(b).__name__ == "Entry" and not re.fullmatch(r"\w*", b.entry_type) for b in l1.blocks):
        rec["oracle"]["known"] = "K9"
    rec["nontrivial"] = inp["n_items"] >= 2 or any(type(b).__name__ == "Entry" and b.fields for b in l1.blocks)
    rec["summary"] = repr(t1)[:200]
    return rec


def shrink(case):
    spec = case["input"].get("size")
    if case["input"].get("parts"):
        # the text as it stands (rendered in this process); the pieces would override it
        case = dict(case, input={k: v for k, v in case["input"].items() if k != "parts"})
    if spec is None:
        return SC.shrink_text(case)
    return shrink_size(case, spec)


def shrink_size(case, spec):
    """Smaller documents of the same description (the text of a SIZE document is too long for character-wise shrinking)."""
    n = spec["n"]
    for m in (n // 2, n - 256, n - 64, n - 8, n - 4, n - 2, n - 1):
        if 1 <= m < n:
            sp = dict(spec, n=m)
            text, n_blocks = size_doc(sp)
            cc = dict(case)
            cc["input"] = dict(case["input"], text=text, n_items=n_blocks, size=sp)
            yield cc
