"""C05 - parse -> write -> parse preserves content; written text is a fixpoint."""
import gens_split as G
import splitcommon as SC

ENGINE = "roundtrip"
RULE = ("grammar derivations (DESIGN.md section 3; duplicate-free; incl. resolved / unresolved / chained @string references, "
        "concatenations, numeric values, nested braces, multi-line values, comments between blocks; plus a stream whose field names, "
        "entry keys and @string keys are drawn from names with a meaning of their own in the model classes ('ID', 'ENTRYTYPE', attribute / "
        "metadata names, the int-rule field names), from letter-case variants of one another, and from the entry types / keys of the same "
        "document) x BibtexFormat settings "
        "(indent in {'', tab, 2/4 spaces}, value_column in {0,1,7,20,'auto'}, trailing_comma, whitespace-only block_separator in "
        "{'', '\\n', '\\n\\n', ' \\n\\t\\n'}); default parse and write stacks; distinct = distinct (document, format); "
        "non-trivial = the document has an entry with a field, or at least two blocks")
TRUSTED = ["the model side composes Model/Splitter, Model/Interpolate, Model/Enclosing and Model/Writer (op 150)"]
ASSUMPTIONS = ["block_separator and indent are whitespace-only (a non-whitespace separator is written verbatim between blocks by C06 and "
               "necessarily re-parses as free text; excluded here and stated in the theorem)"]

INDENTS = ["", "\t", "  ", "    "]
COLUMNS = [0, 1, 7, 20, "auto"]
SEPS = ["", "\n", "\n\n", " \n\t\n"]


def generate(rng, tier):
    cases = []
    n = 400 if tier == "quick" else 15000
    made = 0
    while made < n:
        sk = ["jan", "mon", "k1", "abbr", "Foo"]
        text, items = G.gen_doc(rng, max_items=rng.choice([2, 5, 9]), depth=rng.randint(0, 3), string_keys=sk,
                                bare_pool=["jan", "mon", "k1", "abbr", "undefined", "JAN", "12"])
        if not SC.doc_is_nodup(items):
            continue
        fmt = {"indent": rng.choice(INDENTS), "column": rng.choice(COLUMNS), "trailing": rng.random() < 0.5, "sep": rng.choice(SEPS)}
        cases.append({"stream": "G", "input": {"text": text, "fmt": fmt, "n_items": len(items)}})
        made += 1
    # chained string references, definitions after use
    chained = ('@string{jan = "January"}\n@string{mon = jan}\n@article{k, month = mon, other = jan, t = {x} # mon, n = 12}\n'
               '@article{j, month = late}\n@string{late = {Late}}\n% trailing remark')
    for ind in INDENTS:
        for col in COLUMNS:
            for sep in SEPS:
                for tr in (False, True):
                    cases.append({"stream": "chained", "input": {"text": chained, "n_items": 6,
                                                                 "fmt": {"indent": ind, "column": col, "trailing": tr, "sep": sep}}})
    # known finding K7: an explicit comment / entry key whose stripped text ends in a backslash
    k7docs = ["@comment{a line \\\\\n}\n@article{k, x = {y}}", "@comment{a\\ }", "@article{k\\ , x = {y}}\n@comment{fine}",
              "% free\n@Comment{ {nested} tail\\\t}\n@string{s = {v}}",
              "@a{k, x = ab\\ }", "@string{s = ab\\ }\n@a{k, y = s}", "@a{k, x = {a} # b\\ , z = {fine}}"]
    for t in k7docs:
        for ind in INDENTS[:2]:
            for col in (0, "auto"):
                cases.append({"stream": "K7", "input": {"text": t, "n_items": 2,
                                                        "fmt": {"indent": ind, "column": col, "trailing": False, "sep": "\n\n"}}})
    for t in ["@STR\u0130NG{k, a = {b}}", "@comment{x}\n@\u0130{k}\n@string{s = {v}}"]:
        cases.append({"stream": "K9", "input": {"text": t, "n_items": 2, "fmt": {"indent": "\t", "column": "auto", "trailing": False, "sep": "\n\n"}}})
    # field names / entry keys / string keys that collide with names the model classes give a meaning of their own
    # (Entry's mapping interface answers "ID" / "ENTRYTYPE" itself; attribute and metadata names; the int-rule field names),
    # with each other up to letter case, and with the entry key / entry type / @string keys of the same document
    for t in RESERVED_DOCS:
        for ind, col in (("\t", "auto"), ("", 0), ("  ", 7)):
            for tr in (False, True):
                cases.append({"stream": "names", "input": {"text": t, "n_items": 2,
                                                           "fmt": {"indent": ind, "column": col, "trailing": tr, "sep": "\n\n"}}})
    n = 150 if tier == "quick" else 4000
    made = 0
    while made < n:
        text, items = G.gen_doc(rng, max_items=rng.choice([2, 4, 7]), depth=rng.randint(0, 2), string_keys=NAME_POOL + ["jan", "mon"],
                                field_names=NAME_POOL, entry_keys=NAME_POOL + ["k1", "smith2020", "a.b"],
                                kinds=["entry", "entry", "entry", "entry", "string", "comment"],
                                bare_pool=["jan", "mon", "ID", "id", "ENTRYTYPE", "year", "12", "undefined"])
        if not SC.doc_is_nodup(items):
            continue
        if not any(it["kind"] == "entry" and it["fields"] for it in items):
            continue
        fmt = {"indent": rng.choice(INDENTS), "column": rng.choice(COLUMNS), "trailing": rng.random() < 0.5, "sep": rng.choice(SEPS)}
        cases.append({"stream": "names", "input": {"text": text, "fmt": fmt, "n_items": len(items)}})
        made += 1
    return cases


NAME_POOL = ["ID", "ENTRYTYPE", "id", "Id", "entrytype", "EntryType", "key", "KEY", "entry_type", "fields", "fields_dict", "raw",
             "start_line", "value", "parser_metadata", "removed_enclosing", "author", "Author", "AUTHOR", "title", "year", "Year", "YEAR",
             "month", "Month", "volume", "number", "pages", "edition", "chapter", "issue", "article", "misc", "string", "comment",
             "preamble", "jan", "k1", "0", "_"]

RESERVED_DOCS = [
    "@misc{doe2019, ID = {8841}, ENTRYTYPE = {dataset}, author = {Doe, Jane}, year = 2019}",
    "@misc{doe2019,\n  ENTRYTYPE = \"dataset\",\n  ID = 8841\n}",
    "@article{ID, ID = {x}}\n@article{ENTRYTYPE, ENTRYTYPE = {y}, ID = {z}}",
    "@article{k, id = {a}, Id = {b}, ID = {c}, iD = {d}}",
    "@article{k, entrytype = {a}, ENTRYTYPE = {b}, EntryType = {c}}",
    "@string{ID = {sid}}\n@string{ENTRYTYPE = {stype}}\n@book{b, ID = ID, ENTRYTYPE = ENTRYTYPE # {!}, x = ID # ENTRYTYPE}",
    "@book{b, key = {a}, entry_type = {b}, fields = {c}, raw = {d}, start_line = 7, parser_metadata = {e}, value = {f}}",
    "@book{author, author = {author}, Author = {B}, AUTHOR = \"C\", book = {book}}",
    "@a{k, year = {1999}, Year = 1999, YEAR = \"1999\", month = jan, Month = {jan}, MONTH = 12}",
    "@a{k1, ID = {}, ENTRYTYPE = \"\"}\n% remark\n@a{k2, ENTRYTYPE = {a}}\n@a{k3, ID = {k3}, ENTRYTYPE = {a}}",
]


def mkfmt(d):
    import bibtexparser
    f = bibtexparser.BibtexFormat()
    f.indent = d["indent"]
    f.value_column = d["column"]
    f.trailing_comma = d["trailing"]
    f.block_separator = d["sep"]
    return f


def impl(case):
    import bibtexparser, enc, implutil
    inp = case["input"]
    text = inp["text"]

    snap = []

    def go():
        l1 = bibtexparser.parse_string(text)
        snap.append(SC.content(l1))          # what was handed to the writer, taken before writing
        t1 = bibtexparser.write_string(l1, bibtex_format=mkfmt(inp["fmt"]))
        l2 = bibtexparser.parse_string(t1)
        t2 = bibtexparser.write_string(l2, bibtex_format=mkfmt(inp["fmt"]))
        return l1, t1, l2, t2
    r = implutil.guarded(go)
    rec = {"key": str(hash((text, str(inp["fmt"])))), "tags": [case["stream"]]}
    fm = inp["fmt"]
    rec["sx_in"] = [150, enc.enc_str(text), [enc.enc_str(fm["indent"]), ([] if fm["column"] == "auto" else [fm["column"]]),
                                            enc.enc_str(fm["sep"]), int(fm["trailing"]), enc.enc_str(bibtexparser.BibtexFormat().parsing_failed_comment)]]
    if not SC.lower_ok(text):
        rec["skip"] = True
    if r[0] == "exc":
        rec["sx_out"] = implutil.r_exc(r[1])
        rec["oracle"] = {"ok": False, "detail": "round trip raised " + r[2]}
        rec["nontrivial"] = True
        rec["summary"] = "raised " + r[2]
        return rec
    l1, t1, l2, t2 = r[1]
    rec["sx_out"] = implutil.r_ok([enc.enc_str(t1), [enc.enc_block(b, abstract_prev=True) for b in l2.blocks], enc.enc_str(t2)])
    ok, detail = True, ""
    c1, c2 = snap[0], SC.content(l2)
    if l1.failed_blocks:
        ok, detail = False, "failed block when parsing a well-formed document"
    elif c1 != c2:
        i = next((i for i, (a, b) in enumerate(zip(c1, c2)) if a != b), min(len(c1), len(c2)))
        ok, detail = False, "content differs after write+parse at block %d: %r vs %r" % (i, c1[i:i + 1], c2[i:i + 1])
    elif t1 != t2:
        ok, detail = False, "second write differs from the first"
    rec["oracle"] = {"ok": ok, "detail": detail[:400]}
    def _bs(x):
        return isinstance(x, str) and x.endswith("\\")
    if not ok and any((type(b).__name__ == "Entry" and (_bs(b.key) or any(_bs(f.value) for f in b.fields))) or
                      (type(b).__name__ == "String" and _bs(b.value)) or
                      (type(b).__name__ == "ExplicitComment" and _bs(b.comment)) for b in l1.blocks):
        rec["oracle"]["known"] = "K7"
    import re
    if not ok and "known" not in rec["oracle"] and any(type(b).__name__ == "Entry" and not re.fullmatch(r"\w*", b.entry_type) for b in l1.blocks):
        rec["oracle"]["known"] = "K9"
    rec["nontrivial"] = inp["n_items"] >= 2 or any(type(b).__name__ == "Entry" and b.fields for b in l1.blocks)
    rec["summary"] = repr(t1)[:200]
    return rec


def shrink(case):
    return SC.shrink_text(case)
