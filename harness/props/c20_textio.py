"""C20, stream `textio`: the runtime's text layer under parse_file / write_file against its Coq model (Model/TextIO.v).

The property says `parse_file(path, encoding) equals parse_string of the file's decoded content` and `write_file writes exactly
the text write_string returns`.  What "decoded content" is - strict codec, byte order mark, universal newlines - is the
runtime's; Model/TextIO.v models it for utf-8, latin-1 and utf-16 and Properties/C20.v proves what survives the file
(C20_text_*).  Here the model is compared with CPython on every run:

    read   bytes, encoding  ->  io text layer (open(path, encoding=e).read() on a real file)        op 180
    write  text, encoding   ->  bytes that open(path, "w", encoding=e).write(text) leaves           op 181

and, at the level of the library, each `read` case also goes through the entry point: parse_file(path, encoding=e,
parse_stack=[]) must raise a UnicodeError exactly when decoding fails and otherwise return the blocks of
parse_string(decoded text, parse_stack=[]) (type, raw, start line); each `write` case through write_file to a path when the
encoding is the locale's, with the bytes compared.
"""
import json

CODECS = ["utf-8", "latin-1", "utf-16"]
DOCS = ["@article{k, title = {Café}, year = 2020}\n", "@string{a = \"x\"}\r\n@misc{m, note = a # { y}}\r\n", "% comment\r@misc{x}\r",
        "@misc{\U0001F600, t = {中文}}", "﻿@misc{bom}", "", "\r", "\r\n", "\n\r", "\r\r\n\n", "a\rb\r\nc\nd", "@comment{ÿĀ퟿￿}",
        "@misc{k,\r\n  a = {1},\r\n  b = {2}\r\n}\r\n"]
EDGE_CP = [0, 9, 10, 13, 0x7f, 0x80, 0xff, 0x100, 0x7ff, 0x800, 0xfff, 0x1000, 0xd7ff, 0xe000, 0xfeff, 0xfffe, 0xffff, 0x10000, 0x10ffff, 0x1f600]


def rtext(rng, surrogates=False):
    k = rng.random()
    if k < 0.35:
        return rng.choice(DOCS)
    n = rng.choice([0, 1, 2, 3, 5, 8])
    pool = EDGE_CP + ([0xd800, 0xdbff, 0xdc00, 0xdfff] if surrogates else [])
    return "".join(chr(rng.choice([rng.choice(pool), rng.randint(0, 0x7f), rng.randint(0x80, 0x7ff), rng.randint(0x800, 0xd7ff),
                                   rng.randint(0xe000, 0xffff), rng.randint(0x10000, 0x10ffff), 13, 10])) for _ in range(n))


def rbytes(rng):
    k = rng.random()
    if k < 0.2:
        return bytes(rng.randint(0, 255) for _ in range(rng.choice([0, 1, 2, 3, 4, 6, 9])))
    s = rtext(rng, surrogates=True)
    e = rng.choice(["utf-8", "utf-16", "utf-16-le", "utf-16-be", "latin-1", "utf-8-sig"])
    b = s.encode(e, "replace" if e == "latin-1" else "surrogatepass")
    if e == "utf-16-be" and rng.random() < 0.7:
        b = b"\xfe\xff" + b
    if e == "utf-16-le" and rng.random() < 0.5:
        b = b"\xff\xfe" + b
    r = rng.random()
    if r < 0.2 and b:
        i = rng.randrange(len(b))
        b = b[:i] + bytes([rng.choice([0x80, 0xbf, 0xc0, 0xc1, 0xc2, 0xe0, 0xed, 0xf0, 0xf4, 0xf5, 0xff, 0xfe, 0xd8, 0xdc, 13, 10, rng.randint(0, 255)])]) + b[i + 1:]
    elif r < 0.35 and b:
        b = b[:-1]
    elif r < 0.45:
        b = b + bytes([rng.choice([0xc3, 0xe2, 0xf0, 0x0d, 0xd8, 0x00])])
    return b


OVERLONG = [b"\xc0\x80", b"\xc1\xbf", b"\xe0\x80\x80", b"\xe0\x9f\xbf", b"\xf0\x80\x80\x80", b"\xf0\x8f\xbf\xbf", b"\xed\xa0\x80", b"\xed\xbf\xbf",
            b"\xf4\x90\x80\x80", b"\xf5\x80\x80\x80", b"\xf8\x88\x80\x80\x80", b"\x80", b"\xbf", b"\xc2", b"\xe0\xa0", b"\xf0\x90\x80", b"\xef\xbb\xbf", b"\xef\xbb\xbfx",
            b"\xff\xfe", b"\xfe\xff", b"\xff\xfe\x00", b"\xff\xfe\x00\xd8", b"\xff\xfe\x00\xd8\x00\xdc", b"\xff\xfe\x00\xdc\x00\xd8", b"\xfe\xff\xd8\x00\xdc\x00",
            b"\xff\xfe\xff\xfe", b"\xff\xfe\x0d\x00\x0a\x00", b"\xfe\xff\x00\x0d\x00\x0a", b"\xff\xfe\x0d\x00", b"\xff", b"\xfe", b"\x00\x00", b"@\x00"]


def generate(rng, quick):
    n = 1 if quick else 12
    cases = []
    for b in OVERLONG:
        for e in CODECS:
            cases.append({"stream": "textio", "input": dict(op="textio", kind="read", codec=e, data=list(b))})
    for d in DOCS:
        for e in CODECS:
            cases.append({"stream": "textio", "input": dict(op="textio", kind="write", codec=e, text=[ord(c) for c in d])})
            try:
                cases.append({"stream": "textio", "input": dict(op="textio", kind="read", codec=e, data=list(d.encode(e)))})
            except UnicodeError:
                pass
    for _ in range(260 * n):
        cases.append({"stream": "textio", "input": dict(op="textio", kind="read", codec=rng.choice(CODECS), data=list(rbytes(rng)))})
    for _ in range(120 * n):
        cases.append({"stream": "textio", "input": dict(op="textio", kind="write", codec=rng.choice(CODECS), text=[ord(c) for c in rtext(rng, surrogates=rng.random() < 0.3)])})
    return cases


def _blocks(lib):
    return [(type(b).__name__, b.raw, b.start_line) for b in lib.blocks]


def impl(case):
    import locale
    import os
    import shutil
    import sys
    import tempfile
    import implutil
    import bibtexparser
    inp = case["input"]
    e = inp["codec"]
    ci = CODECS.index(e)
    rec = {"key": json.dumps(inp, sort_keys=True), "tags": ["textio", "textio_" + inp["kind"], "textio_" + e]}
    tmp = tempfile.mkdtemp(prefix="c20tio")
    path = os.path.join(tmp, "f.bib")
    try:
        if sys.byteorder != "little":
            rec.update(sx_in=None, sx_out=None, oracle={"ok": True, "detail": ""}, summary="big-endian machine: the utf-16 model does not apply", nontrivial=False)
            return rec
        if inp["kind"] == "read":
            data = bytes(inp["data"])
            with open(path, "wb") as fh:
                fh.write(data)
            try:
                with open(path, encoding=e) as fh:
                    text = fh.read()
            except UnicodeError:
                text = None
            rec["sx_in"] = [180, ci, list(data)]
            rec["sx_out"] = implutil.r_ok([] if text is None else [[ord(c) for c in text]])
            rec["tags"].append("textio_refused" if text is None else ("textio_crs" if (b"\r" in data) else "textio_plain"))
            # the entry point on the same file
            try:
                got = _blocks(bibtexparser.parse_file(path, parse_stack=[], encoding=e))
                err = None
            except UnicodeError as x:
                got, err = None, x
            if text is None:
                ok = err is not None
                detail = "" if ok else "parse_file returned %d block(s) from a file its encoding cannot decode" % len(got)
            elif err is not None:
                ok, detail = False, "parse_file raised %s on a file that decodes" % type(err).__name__
            else:
                exp = _blocks(bibtexparser.parse_string(text, parse_stack=[]))
                ok = got == exp
                detail = "" if ok else "parse_file(path, encoding) differs from parse_string of the decoded content: %r vs %r" % (got[:3], exp[:3])
            rec["oracle"] = {"ok": ok, "detail": detail}
            rec["summary"] = "%s %r -> %s" % (e, data[:40], "refused" if text is None else repr(text[:40]))
            rec["nontrivial"] = text is None or len(data) > 0
        else:
            text = "".join(chr(c) for c in inp["text"])
            try:
                with open(path, "w", encoding=e) as fh:
                    fh.write(text)
                with open(path, "rb") as fh:
                    data = fh.read()
            except UnicodeError:
                data = None
            rec["sx_in"] = [181, ci, list(inp["text"])]
            rec["sx_out"] = implutil.r_ok([] if data is None else [list(data)])
            rec["tags"].append("textio_refused" if data is None else "textio_written")
            ok, detail = True, ""
            # the entry point writes with the locale's encoding: compare when that is this codec and the text is a document it can hold
            pref = locale.getpreferredencoding(False).lower().replace("_", "-")
            if pref in ("utf-8", "utf8") and e == "utf-8" and data is not None:
                try:
                    lib = bibtexparser.parse_string(text, parse_stack=[])
                    out = bibtexparser.write_string(lib, unparse_stack=[])
                    p2 = os.path.join(tmp, "g.bib")
                    bibtexparser.write_file(p2, lib, parse_stack=[])
                    with open(p2, "rb") as fh:
                        wrote = fh.read()
                    ok = wrote == out.encode("utf-8")
                    detail = "" if ok else "write_file(path) left %r, write_string returned %r" % (wrote[:60], out[:60])
                    rec["tags"].append("textio_write_file")
                except UnicodeError:
                    pass
            rec["oracle"] = {"ok": ok, "detail": detail}
            rec["summary"] = "%s %r -> %s" % (e, text[:40], "refused" if data is None else repr(data[:40]))
            rec["nontrivial"] = True
        return rec
    finally:
        shutil.rmtree(tmp, ignore_errors=True)
