"""C15 - month middlewares share one table, compose, leave non-months alone."""
import itertools
import json

ENGINE = "month"
RULE = ("exhaustive product 12 months x {int, zero-padded decimal strings, case variants of abbreviation and full name} x "
        "{3 single middlewares + 9 ordered pairs}; non-month values; arbitrary Unicode strings (no-raise); all 27 chains of "
        "three middlewares and random longer ones; transform / edit / transform sequences on one entry (month re-set by the "
        "caller in four ways, deep copies, output library of an earlier run, instances re-used or fresh, in place or not, entry "
        "from parse_string with a month middleware in the parse stack); month values that are instances of int / str "
        "SUBCLASSES (user subclass, IntEnum / calendar.Month / IntFlag members, subclass with its own text forms, str-mixin "
        "Enum members): every month 1..12 and out-of-range numbers, digit strings and names, x 3 middlewares x 9 ordered pairs, "
        "chains, several entries, edit sequences, libraries with other blocks; month LOOK-ALIKES (c15_look.py): every abbreviation "
        "and full name with one letter replaced by a character equal to it only under casefold() / upper() / NFKC-NFKD / after "
        "dropping accents, letter + combining mark, an invisible or whitespace character at an edge or inside, whole words in "
        "fullwidth / mathematical / circled letters, 0..13 in every other decimal digit system, as superscripts / circled / "
        "Roman / CJK numerals and with what int() tolerates - months exactly when lower() / isdecimal()+int() of the running "
        "interpreter say so (computed by the oracle), x 3 middlewares, 9 ordered pairs on a sample, chains, next to the real "
        "spelling in one library, set by the caller between two runs; INTERPRETER SETTINGS changed after the library was imported, "
        "around each call and restored after it (c15_interp.py): sys.set_int_max_str_digits lowered (640, 1000), raised (10000), "
        "switched off (0) x digit strings / ints / zero-padded months whose number of significant digits lies below / at / above "
        "the import-time limit and the current one, with few / hundreds / thousands of leading zeros, other digit systems, "
        "subclasses, and every ordinary spelling and near miss under every setting; sys.setrecursionlimit lowered to frames in "
        "use + 40 / 64 / 100 / 200 x long zero pads, digit strings, words, ints and the ordinary values; x 3 middlewares, pairs, "
        "chains, several entries, transform / transform_block / parse_string, objects built before or after the change or "
        "already used, settings around every call or only some - months decided by int() under the setting of the call. "
        "distinct = distinct (value, middleware sequence); non-trivial = the value is a month spelling or a near miss "
        "(out-of-range number, enclosed or padded month, other type)")
TRUSTED = ["oracle instances: str.lower restricted to ASCII, int() restricted to ASCII decimals (inputs outside are "
           "counted as skipped for the model comparison and still checked by the Python oracle)"]
ASSUMPTIONS = ["CPython's str.lower / str.isdecimal / int enter the model as oracles (DESIGN 2.1)"]

ABBR = ["jan", "feb", "mar", "apr", "may", "jun", "jul", "aug", "sep", "oct", "nov", "dec"]
FULL = ["January", "February", "March", "April", "May", "June", "July", "August", "September", "October", "November",
        "December"]
SEQS = [[0], [1], [2]] + [[a, b] for a in range(3) for b in range(3)]


def sr(v):
    """repr that survives ints beyond the digit limit"""
    try:
        r = repr(v)
    except ValueError:
        return "<int with more than 4300 digits>"
    return r if len(r) < 80 else r[:40] + "...(%d chars)" % len(r)


def jv(v):
    import decimal
    import fractions
    if isinstance(v, bool):
        return {"bool": v}
    if isinstance(v, float):
        return {"float": v}
    if isinstance(v, complex):
        return {"complex": [v.real, v.imag]}
    if isinstance(v, decimal.Decimal):
        return {"decimal": str(v)}
    if isinstance(v, fractions.Fraction):
        return {"fraction": [v.numerator, v.denominator]}
    if isinstance(v, int):
        return {"int": v}
    if isinstance(v, list):
        return {"list": [jv(x) for x in v]}
    return v


class LoudInt(int):
    """A user-side int subclass with its own text forms (repr / str / format do not show a number alone)."""

    def __repr__(self):
        return "LoudInt<%s>" % int.__repr__(self)

    __str__ = __repr__

    def __format__(self, spec):
        return "LoudInt<%s>" % int.__format__(self, spec)


INT_FLAVOURS = ["sub", "enum", "cal", "loud", "flag"]     # see mk_isub
STR_FLAVOURS = ["sub", "enum"]                            # see mk_ssub
_ENUM_CACHE = {}


def mk_isub(flav, n):
    """An instance of an int SUBCLASS that equals n.  sub: userclasses.IntSub; enum: enum.IntEnum member (userclasses.MonthEnum
    for 1..12, a one-member IntEnum otherwise); cal: calendar.Month member (Python >= 3.12, 1..12; else as enum); loud: LoudInt;
    flag: enum.IntFlag member (n >= 0; else as enum)."""
    import enum
    from . import userclasses
    uc = userclasses.get()
    if flav == "sub":
        return uc.IntSub(n)
    if flav == "loud":
        return LoudInt(n)
    if flav == "cal":
        import calendar
        if hasattr(calendar, "Month") and 1 <= n <= 12:
            return calendar.Month(n)
        flav = "enum"
    if flav == "flag" and n < 0:
        flav = "enum"
    if flav == "enum" and 1 <= n <= 12:
        return uc.MonthEnum(n)
    if (flav, n) not in _ENUM_CACHE:
        base = enum.IntFlag if flav == "flag" else enum.IntEnum
        _ENUM_CACHE[(flav, n)] = base("Wide" + base.__name__, {"V": n}).V
    return _ENUM_CACHE[(flav, n)]


def mk_ssub(flav, text):
    """An instance of a str SUBCLASS that equals text.  sub: userclasses.StrSub; enum: member of an Enum with the str mixin."""
    import enum
    from . import userclasses
    if flav == "sub":
        return userclasses.get().StrSub(text)
    if ("s", text) not in _ENUM_CACHE:
        _ENUM_CACHE[("s", text)] = enum.Enum("StrMonth", {"V": text}, type=str).V
    return _ENUM_CACHE[("s", text)]


def sub_tags(*json_values):
    """Distribution tags for the subclass forms among JSON-encoded values."""
    out = set()
    for v in json_values:
        if isinstance(v, dict) and "isub" in v:
            out.add("intsub-" + v["isub"][0])
        elif isinstance(v, dict) and "ssub" in v:
            out.add("strsub-" + v["ssub"][0])
    return sorted(out)


def unjv(v):
    if isinstance(v, dict):
        if "isub" in v:
            return mk_isub(v["isub"][0], unjv(v["isub"][1]))
        if "ssub" in v:
            return mk_ssub(v["ssub"][0], unjv(v["ssub"][1]))
        if "rep" in v:                        # long texts, shipped as [[piece, count], ...]
            return "".join(piece * count for piece, count in v["rep"])
        if "int" in v:
            return v["int"]
        if "bool" in v:
            return v["bool"]
        if "list" in v:
            return [unjv(x) for x in v["list"]]
        if "pow10" in v:                      # ints too large for JSON / str(): sign * (10**e + delta)
            sg, e, d = v["pow10"]
            return sg * (10 ** e + d)
        if "float" in v:
            return float(v["float"])
        if "complex" in v:
            return complex(*v["complex"])
        if "decimal" in v:
            import decimal
            return decimal.Decimal(v["decimal"])
        if "fraction" in v:
            import fractions
            return fractions.Fraction(*v["fraction"])
    return v


def case_variants(word, rng, limit):
    n = len(word)
    if 2 ** n <= limit:
        masks = range(2 ** n)
    else:
        masks = {0, 2 ** n - 1, 1} | {rng.getrandbits(n) for _ in range(limit)}
    for m in masks:
        yield "".join(c.upper() if (m >> i) & 1 else c.lower() for i, c in enumerate(word))


def generate(rng, tier):
    lim = 16 if tier == "quick" else 512
    vals = []
    for m in range(1, 13):
        vals.append(("month", m))
        for z in range(3):
            vals.append(("month", "0" * z + str(m)))
        for s in case_variants(ABBR[m - 1], rng, 8):
            vals.append(("month", s))
        for s in case_variants(FULL[m - 1], rng, lim):
            vals.append(("month", s))
    near = [-1, 0, 13, 99, 10 ** 17, "0", "13", "00", "000012x", "{jan}", '"1"', '"jan"', "{1}", "", " jan", "jan ", "janu",
            "ja", "sept", "Sept.", "1.0", "+1", "-1", "1 ", "x", "maybe", "marc", "decembe", "١", "²", "1²",
            "١٢", "１", None, ["jan"], [], "JAN", "İan", "maſ", "MAY", "may", "May"]
    near += [True, False]          # compared with the model only (see impl)
    # beyond int()'s digit limit (sys.get_int_max_str_digits() = 4300): zero-padded months are still months, the rest is unchanged
    near += ["0" * 4300 + "1", "0" * 5000 + "12", "1" * 4301, "0" * 4299 + "1", {"pow10": [1, 4300, 0]}, {"pow10": [-1, 4300, 0]}, {"pow10": [1, 4300, -1]},
             "\u0660" * 4500 + "\u0661\u0662", "9" * 5000]
    # numbers that EQUAL a month number but are neither int nor str: not month spellings, must come back unchanged
    import decimal
    import fractions
    near += [3.0, 12.0, 1.0, 2.5, 0.0, 13.0, float("nan"), decimal.Decimal(3), decimal.Decimal("12.0"), fractions.Fraction(3),
             fractions.Fraction(24, 2), complex(3, 0), complex(0, 1)]
    for v in near:
        vals.append(("near", v))
    # no-raise stream: arbitrary unicode, incl. isdigit code points
    digits = [chr(c) for c in range(0x110000) if chr(c).isdigit() and c > 127]
    n_u = 300 if tier == "quick" else 5000
    for _ in range(n_u):
        k = rng.randint(1, 4)
        s = "".join(rng.choice(digits) if rng.random() < 0.5 else chr(rng.choice([rng.randint(32, 126), rng.randint(160, 0x2fff)]))
                    for _ in range(k))
        vals.append(("unicode", s))
    if tier == "thorough":
        for d in digits:
            vals.append(("unicode", d))
    cases = []
    for stream, v in vals:
        seqs = SEQS if stream != "unicode" else [[0], [1], [2]]
        for seq in seqs:
            cases.append({"stream": stream, "input": {"value": jv(v), "mws": seq, "shape": 0}})
    # entries without month / several fields / duplicate month keys
    for shape in (1, 2, 3):
        for v in [3, "mar", "March", 13, "x"]:
            for seq in SEQS:
                cases.append({"stream": "shape", "input": {"value": jv(v), "mws": seq, "shape": shape}})
    # one middleware instance per stack position over a library of SEVERAL entries (ordinary use): values that collide
    # under lower-casing / str() / int() next to each other, in both orders
    fam = [["Jan", "jan", "JAN", "{Jan}", "{jan}"], [13, "13", "013", 1, "1", "01"], ["Spring", "spring", "SPRING"],
           ["march", "March", "mar", "MAR", 3, "3", "03"], [0, "0", "00", ""], ["dec", "Dec", "december", 12, "12"]]
    n_multi = 150 if tier == "quick" else 3000
    for i in range(n_multi):
        f = fam[i % len(fam)]
        vs = [rng.choice(f) for _ in range(rng.randint(2, 5))]
        if rng.random() < 0.3:
            vs.insert(rng.randint(0, len(vs)), rng.choice(near[:12]))
        cases.append({"stream": "multi", "input": {"values": [jv(v) for v in vs], "mws": rng.choice(SEQS)}})
    cases += gen_chains(rng, tier, fam)
    cases += gen_edits(rng, tier)
    cases += gen_libs(rng, tier)
    cases += gen_subclass(rng, tier)          # appended: the streams above are the same as before for a given seed
    cases += gen_lookalikes(rng, tier)        # appended after gen_subclass for the same reason
    from . import c15_interp
    cases += c15_interp.gen(rng, tier)        # appended: interpreter settings changed around the calls
    cases += gen_named_words(rng, tier)       # appended last: words that NAME something in Python or in the library
    return cases


def gen_named_words(rng, tier):
    """Non-month words that are the name of something: attributes and methods of int / str / dict / list / type / enum members,
    dunder names, builtins, keywords, the library's own magic words (selfref) - in several letter cases.  A look-up that goes
    through getattr / a namespace / an enum instead of the month tables finds them (seeding round 11: an IntEnum month table
    read with getattr - `real`, `imag`, `numerator`, `conjugate` raised).  By the property they are 'other words': returned
    unchanged with their type by all three middlewares, alone and in every ordered pair; nothing raises."""
    import builtins
    import enum
    import keyword
    from props import selfref
    names = set()
    for o in (int, str, dict, list, tuple, set, type, object, float, bytes, enum.Enum, enum.IntEnum, enum.IntEnum("_E", {"a": 1})):
        names.update(dir(o))
    names.update(dir(builtins))
    names.update(keyword.kwlist)
    names.update(w for w in selfref.MAGIC_WORDS if isinstance(w, str))
    names.update(["name", "value", "_value_", "_name_", "full_name", "abbreviation", "mro", "__members__", "_member_map_", "_missing_"])
    words = sorted(w for w in names if w and len(w) <= 40)
    out = []
    quick = tier == "quick"
    for i, w in enumerate(words):
        forms = [w, w.upper(), w.capitalize()] if not quick or i % 3 == 0 else [w]
        for f in forms:
            seqs = SEQS if (not quick or i % 7 == 0) else SEQS[:3]
            for seq in seqs:
                out.append({"stream": "named-word", "input": {"value": jv(f), "mws": seq, "shape": 0}})
    return out


def spellings(m):
    return [m, str(m), "%02d" % m, ABBR[m - 1], ABBR[m - 1].upper(), ABBR[m - 1].capitalize(), FULL[m - 1], FULL[m - 1].upper(),
            FULL[m - 1].lower()]


NEAR_SMALL = [0, 13, -1, "0", "13", "{jan}", '"1"', "", "janu", "sept", "x", " jan", None, ["jan"], 3.0]      # no bool: not a value the property quantifies over (DESIGN 7)


def gen_chains(rng, tier, fam):
    """The same kind of middleware applied AGAIN after others: every chain of three, random longer chains."""
    quick = tier == "quick"
    cases = []
    chains3 = [list(c) for c in itertools.product(range(3), repeat=3)]
    for m in range(1, 13):
        sp = spellings(m)
        for v in (rng.sample(sp, 3) if quick else sp):
            for seq in chains3:
                cases.append({"stream": "chain", "input": {"value": jv(v), "mws": seq, "shape": 0}})
    for v in NEAR_SMALL:
        for seq in (rng.sample(chains3, 9) if quick else chains3):
            cases.append({"stream": "chain", "input": {"value": jv(v), "mws": seq, "shape": 0}})
    for _ in range(150 if quick else 4000):
        v = rng.choice(spellings(rng.randint(1, 12))) if rng.random() < 0.85 else rng.choice(NEAR_SMALL)
        seq = [rng.randrange(3) for _ in range(rng.randint(4, 7))]
        cases.append({"stream": "chain", "input": {"value": jv(v), "mws": seq, "shape": rng.choice([0, 0, 2, 3])}})
    for i in range(40 if quick else 1000):
        f = fam[i % len(fam)]
        vs = [rng.choice(f) for _ in range(rng.randint(2, 4))]
        cases.append({"stream": "multi", "input": {"values": [jv(v) for v in vs], "mws": [rng.randrange(3) for _ in range(rng.randint(3, 5))]}})
    return cases


def gen_edits(rng, tier):
    """transform / edit / transform on ONE entry.  steps: ["mw", kind, inplace, reuse] | ["set", value, how] | ["copy", how]"""
    quick = tier == "quick"
    cases = []

    def some_value(p_month=0.85):
        return rng.choice(spellings(rng.randint(1, 12))) if rng.random() < p_month else rng.choice(NEAR_SMALL)

    def mw(k=None):
        return ["mw", rng.randrange(3) if k is None else k, rng.randrange(2), rng.randrange(2)]

    def add(start, steps, shape=None, make=None):
        inp = {"start": jv(start), "steps": steps, "shape": rng.choice([0, 2]) if shape is None else shape}
        if make is not None:
            inp["make"] = make
        cases.append({"stream": "edit", "input": inp})
    # the same kind, the month re-set in between (every way of setting it), to another month / a non-month / the same month
    for k in range(3):
        for m in range(1, 13):
            for how in range(4):
                other = rng.choice([x for x in range(1, 13) if x != m])
                for v2 in (rng.choice(spellings(other)), rng.choice(NEAR_SMALL)) if quick else spellings(other) + NEAR_SMALL:
                    inpl, reuse = rng.randrange(2), rng.randrange(2)
                    add(rng.choice(spellings(m)), [["mw", k, inpl, reuse], ["set", jv(v2), how], ["mw", k, inpl, reuse]])
    # the same kind again on a copy / on the output library after other kinds ran
    for k in range(3):
        for k2 in range(3):
            for chow in range(3):
                for _ in range(2 if quick else 12):
                    v = rng.choice(spellings(rng.randint(1, 12)))
                    add(v, [mw(k), ["copy", chow], mw(k2), mw(k)])
                    add(v, [mw(k), mw(k2), ["copy", chow], mw(k)])
    # entry produced by parse_string with a month middleware in the parse stack
    for k in range(3):
        for m in range(1, 13):
            for v in (rng.sample(spellings(m)[1:], 2) if quick else spellings(m)[1:]):
                k2 = rng.randrange(3)
                add(v, [mw(k2), mw(k)], shape=2, make=["parse", k])
                add(v, [["set", jv(some_value(1.0)), rng.randrange(4)], mw(k)], shape=2, make=["parse", k])
    # random sequences
    for _ in range(400 if quick else 8000):
        steps = []
        for _ in range(rng.randint(2, 7)):
            r = rng.random()
            steps.append(mw() if r < 0.55 else ["set", jv(some_value()), rng.randrange(4)] if r < 0.85 else ["copy", rng.randrange(3)])
        steps.append(mw())
        v = some_value()
        if isinstance(v, str) and v.isalnum() and v.isascii() and rng.random() < 0.2:
            add(v, steps, shape=2, make=["parse", rng.randrange(3)])
        else:
            add(v, steps)
    return cases


LIB_HOWS = ["build", "block", "foreign", "after", "stack", "append"]
LIB_TEXT_HOWS = ("after", "stack", "append")
LIB_NEAR_TEXT = ["0", "13", "00", "janu", "sept", "x", "{jan}", '"1"', '"March"', "{12}", "jan # feb"]


def gen_libs(rng, tier):
    """The entry lives in a LIBRARY WITH OTHER BLOCKS: @string blocks (their keys are month spellings - the one of the entry,
    another one, another letter case -, their values too), other entries (also with the same key, a month spelling as key),
    comments, preambles, blocks that failed.  The middlewares get at the library in six ways (how):
      build   Library(objects), middleware.transform per middleware        after   parse_string(text, parse_stack=[]), then transform
      block   middleware.transform_block(block, library) block by block   stack   parse_string(text, parse_stack=[middlewares])
      foreign transform_block(entry, a library of the OTHER blocks)       append  parse_string(text, append_middleware=[...])
    blocks: {"t": "e", "k": key, "m": month value or absent, "x": [[field key, value]...]} | {"t": "s", "k", "v"} |
            {"t": "c" | "i" | "p" | "f", "v": text}"""
    quick = tier == "quick"
    cases = []

    def textual(v):
        return (isinstance(v, int) and v >= 0) or (isinstance(v, str) and v.isascii() and v.isalnum())

    def sval():
        return rng.choice(['"some text"', '"feb"', "{12}", "{March}", '"x"', "3", '""'])

    def entry(key, v, has=True, extra=None):
        e = {"t": "e", "k": key, "x": extra or []}
        if has:
            e["m"] = jv(v)
        return e

    def add(blocks, how, mws, **kw):
        inp = {"blocks": blocks, "how": how, "mws": mws, "inplace": rng.randrange(2), "warm": int(rng.random() < 0.25),
               "share": rng.randrange(2)}
        inp.update(kw)
        cases.append({"stream": "lib", "input": inp})
    # bounded-exhaustive core: month m x spelling x kind x how; one @string whose key is the spelling itself / its lower case
    # / the abbreviation of m / the number / something unrelated, before or after the entry
    for m in range(1, 13):
        sp = spellings(m)
        for v in (rng.sample(sp, 3) if quick else sp):
            for how in LIB_HOWS:
                for k in range(3):
                    skeys = [str(v), str(v).lower(), ABBR[m - 1], str(m), "unrelated"]
                    skey = skeys[0] if rng.random() < 0.6 else rng.choice(skeys)
                    st = {"t": "s", "k": skey, "v": sval()}
                    e = entry("key%d" % m, v, extra=[["title", "{T}"]])
                    blocks = [st, e] if rng.random() < 0.7 else [e, st]
                    seq = [k] if rng.random() < 0.6 else [rng.randrange(3), k]
                    add(blocks, how, seq)
    # random libraries
    cm = ["jan", "month = jan", "March 12", "x"]
    for _ in range(500 if quick else 10000):
        how = rng.choice(LIB_HOWS)
        text = how in LIB_TEXT_HOWS
        blocks, months, keys = [], [], []
        for i in range(rng.randint(1, 4)):
            r = rng.random()
            if r < 0.78:
                v = rng.choice(spellings(rng.randint(1, 12)))
            elif text:
                v = rng.choice(LIB_NEAR_TEXT)
            else:
                v = rng.choice(NEAR_SMALL)
            if text and not (textual(v) or v in LIB_NEAR_TEXT):
                v = str(v) if isinstance(v, int) and v >= 0 else "x"
            r = rng.random()
            key = ("k%d" % i if r < 0.7 else rng.choice(keys) if keys and r < 0.8 else
                   str(v) if textual(v) and isinstance(v, str) and r < 0.9 else rng.choice(ABBR + FULL))
            keys.append(key)
            extra = []
            if rng.random() < 0.5:
                extra.append(rng.choice([["note", "jan"], ["Month", "feb"], ["title", "{March}"], ["year", "2020"], ["MONTH", "12"],
                                         ["jan", "month"], ["note", str(v) if textual(v) else "x"]]))
            has = rng.random() < 0.92
            blocks.append(entry(key, v, has, extra))
            if has:
                months.append(v)
        pool = [str(v) for v in months if textual(v)]
        for _ in range(rng.randint(0, 3)):
            r = rng.random()
            if pool and r < 0.55:
                sk = rng.choice(pool)
            elif pool and r < 0.7:
                sk = rng.choice([str.lower, str.upper, str.capitalize])(rng.choice(pool))
            else:
                sk = rng.choice(rng.choice([ABBR, FULL, ["1", "03", "12", "unrelated", "month"]]))
            blocks.insert(rng.randint(0, len(blocks)), {"t": "s", "k": sk, "v": sval()})
        for _ in range(rng.randint(0, 2)):
            t = rng.choice("cipf")
            b = {"t": t, "v": rng.choice(cm)}
            blocks.insert(rng.randint(0, len(blocks)), b)
        seq = rng.choice(SEQS) if rng.random() < 0.8 else [rng.randrange(3) for _ in range(rng.randint(3, 5))]
        add(blocks, how, seq)
    return cases


def gen_subclass(rng, tier):
    """INT-LIKE / STR-LIKE month values that are not plain int / str: instances of int subclasses (INT_FLAVOURS) and of str
    subclasses (STR_FLAVOURS), as {"isub": [flavour, n]} / {"ssub": [flavour, text]} (built by unjv in the child process).

    An int-subclass instance equal to m is an integer spelling of m, a str-subclass instance a digit string / name like the
    plain one (month_of); bool stays excluded (DESIGN 7).  Covered: every month x every int flavour, out-of-range numbers,
    every spelling as str subclass, near misses, x 3 middlewares x 9 ordered pairs; other entry shapes; chains of three and
    longer; several entries through one instance (next to the equal plain values); transform / edit / transform sequences;
    libraries with other blocks (object modes; non-month fields holding subclass values too)."""
    quick = tier == "quick"
    cases = []
    chains3 = [list(c) for c in itertools.product(range(3), repeat=3)]

    def isub(n, flav=None):
        return {"isub": [flav or rng.choice(INT_FLAVOURS), n]}

    def ssub(t, flav=None):
        return {"ssub": [flav or rng.choice(STR_FLAVOURS), t]}

    def wrap(v, flav=None):
        """the subclass form of a plain int / str value (other values as they are)"""
        if isinstance(v, bool):
            return v
        if isinstance(v, int):
            return isub(v, flav)
        if isinstance(v, str):
            return ssub(v, flav)
        return jv(v)

    def some_month():
        return wrap(rng.choice(spellings(rng.randint(1, 12))))

    out_of_range = [-1, 0, 13, 99, 10 ** 17, -12, 256, 2 ** 31, -(2 ** 40)]       # within the model binary's 63-bit ints
    near_str = ["0", "13", "00", "000012x", "{jan}", '"1"', '"jan"', "{1}", "", " jan", "jan ", "janu", "ja", "sept", "1.0", "+1", "-1",
                "x", "maybe", "decembe", "\u0661", "\u00b2", "1\u00b2", "\u0661\u0662", "\uff11", "\u0130an", "ma\u017f", "0" * 40 + "7", "1" * 30]

    def some_near():
        return isub(rng.choice(out_of_range)) if rng.random() < 0.5 else ssub(rng.choice(near_str))
    vals = []
    # -- every month as every int flavour; out-of-range numbers
    for m in range(1, 13):
        for flav in INT_FLAVOURS:
            vals.append(isub(m, flav))
    for n in out_of_range:
        for flav in ("sub", "enum", "loud"):
            vals.append(isub(n, flav))
    vals += [isub(0, "flag"), isub(13, "flag"), isub(16, "flag")]
    for big in ({"pow10": [1, 4300, 0]}, {"pow10": [-1, 4300, 0]}):                  # beyond int()'s digit limit (oracle only)
        vals.append(isub(big, rng.choice(["sub", "loud"])))
    # -- every spelling as str subclass: all as StrSub, a sample (thorough: all) as str-mixin Enum member; case variants
    for v in vals:
        for seq in SEQS:
            cases.append({"stream": "subclass", "input": {"value": v, "mws": seq, "shape": 0}})
    # quick: every single middleware on every value, the 9 ordered pairs on all canonical forms and a sample of the others
    vals = []
    for m in range(1, 13):
        sp = spellings(m)[1:] + ["00%d" % m]
        canon = (ABBR[m - 1], FULL[m - 1], str(m))          # the forms a middleware may hand back as they are
        for t in sp:
            vals.append((ssub(t, "sub"), t in canon or rng.random() < 0.34))
        for t in (rng.sample(sp, 3) if quick else sp):
            vals.append((ssub(t, "enum"), t in canon or rng.random() < 0.34))
        for word in (ABBR[m - 1], FULL[m - 1]):
            for t in itertools.islice(case_variants(word, rng, 4), 1 if quick else 6):
                vals.append((ssub(t), rng.random() < 0.34))
    for t in near_str:
        for flav in (STR_FLAVOURS if not quick else [rng.choice(STR_FLAVOURS)]):
            vals.append((ssub(t, flav), rng.random() < 0.34))
    for v, pairs in vals:
        for seq in (SEQS if pairs or not quick else SEQS[:3]):
            cases.append({"stream": "subclass", "input": {"value": v, "mws": seq, "shape": 0}})
    # -- other entry shapes (no month key / several fields / duplicate month key)
    for shape in (1, 2, 3):
        for v in [isub(3), isub(rng.randint(1, 12)), isub(13), ssub("mar"), ssub("March"), ssub("3"), ssub("x")]:
            for seq in (SEQS if not quick else rng.sample(SEQS, 6)):
                cases.append({"stream": "subclass", "input": {"value": v, "mws": seq, "shape": shape}})
    # -- chains of three (quick: a sample of 9 per value) and longer ones
    for m in range(1, 13):
        sp = spellings(m)
        pick = [isub(m), isub(m)] + [ssub(t) for t in rng.sample(sp[1:], 2)] if quick else \
            [isub(m, f) for f in INT_FLAVOURS] + [ssub(t, f) for t in sp[1:] for f in STR_FLAVOURS]
        for v in pick:
            for seq in (rng.sample(chains3, 9) if quick else chains3):
                cases.append({"stream": "subclass", "input": {"value": v, "mws": seq, "shape": 0}})
    for _ in range(120 if quick else 1500):
        v = some_month() if rng.random() < 0.8 else some_near()
        seq = [rng.randrange(3) for _ in range(rng.randint(3, 7))]
        cases.append({"stream": "subclass", "input": {"value": v, "mws": seq, "shape": rng.choice([0, 0, 2, 3])}})
    # -- several entries through one instance per stack position: subclass values next to the equal plain ones
    fam = [[3, "3", "03", "mar", "MAR", "March", "march"], [12, "12", "dec", "Dec", "December", "DECEMBER"], [1, "1", "01", "jan", "Jan", "January"],
           [13, "13", 0, "0", "", "x"], [5, "5", "may", "May", "MAY"]]
    for i in range(100 if quick else 1000):
        f = fam[i % len(fam)]
        vs = []
        for _ in range(rng.randint(2, 5)):
            v = rng.choice(f)
            vs.append(wrap(v) if rng.random() < 0.6 else jv(v))
        if not sub_tags(*vs):
            vs[rng.randrange(len(vs))] = wrap(rng.choice(f))
        seq = rng.choice(SEQS) if rng.random() < 0.7 else [rng.randrange(3) for _ in range(rng.randint(3, 5))]
        cases.append({"stream": "subclass-multi", "input": {"values": vs, "mws": seq}})
    # -- transform / edit / transform on one entry
    def mw(k=None):
        return ["mw", rng.randrange(3) if k is None else k, rng.randrange(2), rng.randrange(2)]

    def add_edit(start, steps):
        cases.append({"stream": "subclass-edit", "input": {"start": start, "steps": steps, "shape": rng.choice([0, 2])}})
    for k in range(3):
        for m in range(1, 13):
            for how in range(4):
                other = rng.choice([x for x in range(1, 13) if x != m])
                v2s = [wrap(rng.choice(spellings(other)))] if quick else [wrap(t) for t in spellings(other)] + [some_near(), some_near()]
                for v2 in v2s:
                    inpl, reuse = rng.randrange(2), rng.randrange(2)
                    start = wrap(rng.choice(spellings(m))) if rng.random() < 0.7 else jv(rng.choice(spellings(m)))
                    add_edit(start, [["mw", k, inpl, reuse], ["set", v2, how], ["mw", k, inpl, reuse]])
    for k in range(3):
        for k2 in range(3):
            for chow in range(3):
                for _ in range(1 if quick else 8):
                    add_edit(some_month(), [mw(k), ["copy", chow], mw(k2), mw(k)])
                    add_edit(some_month(), [["copy", chow], mw(k2), mw(k)])
    for _ in range(150 if quick else 1800):
        steps = []
        for _ in range(rng.randint(1, 6)):
            r = rng.random()
            steps.append(mw() if r < 0.55 else
                         ["set", some_month() if rng.random() < 0.8 else some_near() if rng.random() < 0.7 else jv(rng.choice(NEAR_SMALL)), rng.randrange(4)]
                         if r < 0.85 else ["copy", rng.randrange(3)])
        steps.append(mw())
        start = some_month() if rng.random() < 0.8 else some_near()
        add_edit(start, steps)
    # -- libraries with other blocks, object modes
    def entry(key, v, extra=None):
        return {"t": "e", "k": key, "x": extra or [], "m": v}

    def add_lib(blocks, how, mws):
        cases.append({"stream": "subclass-lib", "input": {"blocks": blocks, "how": how, "mws": mws, "inplace": rng.randrange(2),
                                                          "warm": int(rng.random() < 0.25), "share": rng.randrange(2)}})
    obj_hows = [h for h in LIB_HOWS if h not in LIB_TEXT_HOWS]
    for m in range(1, 13):
        for how in obj_hows:
            for k in range(3):
                for v in ([isub(m), ssub(rng.choice(spellings(m)[1:]))] if quick else
                          [isub(m, f) for f in INT_FLAVOURS] + [ssub(t) for t in spellings(m)[1:]]):
                    st = {"t": "s", "k": rng.choice([ABBR[m - 1], FULL[m - 1], str(m), "unrelated"]), "v": rng.choice(['"feb"', "{12}", "3"])}
                    e = entry("key%d" % m, v, extra=[["title", "{T}"]])
                    add_lib([st, e] if rng.random() < 0.6 else [e, st], how, [k] if rng.random() < 0.6 else [rng.randrange(3), k])
    for _ in range(150 if quick else 1800):
        blocks = []
        for i in range(rng.randint(1, 4)):
            v = some_month() if rng.random() < 0.75 else some_near() if rng.random() < 0.6 else jv(rng.choice(spellings(rng.randint(1, 12))))
            extra = []
            if rng.random() < 0.6:      # other fields that hold month-like subclass values: not the month field, unchanged with type
                extra.append(rng.choice([["note", ssub("jan")], ["Month", isub(2)], ["MONTH", ssub("12")], ["number", isub(3)], ["year", isub(2020)],
                                         ["title", ssub("{March}")], ["note", "jan"]]))
            blocks.append(entry("k%d" % i if rng.random() < 0.8 else rng.choice(ABBR + FULL), v, extra))
        if not sub_tags(*[b["m"] for b in blocks]):
            blocks[0]["m"] = some_month()
        for _ in range(rng.randint(0, 2)):
            blocks.insert(rng.randint(0, len(blocks)), {"t": "s", "k": rng.choice(rng.choice([ABBR, FULL, ["1", "03", "12", "unrelated", "month"]])),
                                                        "v": rng.choice(['"some text"', '"feb"', "{12}", "3"])})
        if rng.random() < 0.4:
            blocks.insert(rng.randint(0, len(blocks)), {"t": rng.choice("cipf"), "v": rng.choice(["jan", "month = jan", "March 12", "x"])})
        seq = rng.choice(SEQS) if rng.random() < 0.8 else [rng.randrange(3) for _ in range(rng.randint(3, 5))]
        add_lib(blocks, rng.choice(obj_hows), seq)
    return cases


def gen_lookalikes(rng, tier):
    """Month look-alikes under other case / normalisation notions (kinds and pools: c15_look.py).  input["look"] names the kind.

    lookalike        one value x the 3 single middlewares; x the 9 ordered pairs for the small pools (fold / upper / lower) and
                     a sample of the others; other entry shapes; chains of three and longer
    lookalike-multi  look-alikes next to real spellings of the same month in ONE library through one instance per position
    lookalike-edit   transform / caller sets the month to a look-alike (or back to a real spelling) / transform"""
    from . import c15_look
    quick = tier == "quick"
    cases = []
    vals = c15_look.gen_values(rng, tier, ABBR, FULL)
    for kind, v, pairs in vals:
        for seq in (SEQS if pairs else SEQS[:3]):
            cases.append({"stream": "lookalike", "input": {"value": v, "mws": seq, "shape": 0, "look": kind}})
    by_kind = {}
    for kind, v, _ in vals:
        by_kind.setdefault(kind, []).append(v)
    kinds = sorted(by_kind)

    def some():
        kind = rng.choice(kinds)
        return kind, rng.choice(by_kind[kind])
    for kind in kinds:                        # other shapes, chains: every kind
        for _ in range(4 if quick else 60):
            v = rng.choice(by_kind[kind])
            cases.append({"stream": "lookalike", "input": {"value": v, "mws": rng.choice(SEQS), "shape": rng.choice([1, 2, 3]), "look": kind}})
            cases.append({"stream": "lookalike", "input": {"value": v, "mws": [rng.randrange(3) for _ in range(rng.randint(3, 6))],
                                                            "shape": rng.choice([0, 0, 2, 3]), "look": kind}})
    for _ in range(60 if quick else 1200):
        m = rng.randint(1, 12)
        vs, looks = [], []
        for _ in range(rng.randint(2, 5)):
            if rng.random() < 0.5:
                kind, v = some()
                looks.append(kind)
                vs.append(v)
            else:
                vs.append(jv(rng.choice(spellings(m))))
        if not looks:
            kind, vs[rng.randrange(len(vs))] = some()
            looks.append(kind)
        seq = rng.choice(SEQS) if rng.random() < 0.7 else [rng.randrange(3) for _ in range(rng.randint(3, 5))]
        cases.append({"stream": "lookalike-multi", "input": {"values": vs, "mws": seq, "look": sorted(set(looks))}})
    for _ in range(60 if quick else 1200):
        k = rng.randrange(3)
        kind, v = some()
        real = jv(rng.choice(spellings(rng.randint(1, 12))))
        inpl, reuse = rng.randrange(2), rng.randrange(2)
        steps = [["mw", k, inpl, reuse], ["set", v, rng.randrange(4)], ["mw", rng.randrange(3) if rng.random() < 0.3 else k, inpl, reuse]]
        if rng.random() < 0.3:
            steps += [["set", real, rng.randrange(4)], ["mw", k, inpl, reuse]]
        start = real if rng.random() < 0.7 else some()[1]
        cases.append({"stream": "lookalike-edit", "input": {"start": start, "steps": steps, "shape": rng.choice([0, 2]), "look": [kind]}})
    return cases


def look_tags(inp, *values):
    """Distribution tags of the look-alike streams: the kind(s), and what the oracle makes of the values"""
    look = inp.get("look")
    if look is None:
        return []
    kinds = look if isinstance(look, list) else [look]
    out = ["look-" + k for k in kinds]
    for v in values:
        if isinstance(v, str) and not isinstance(v, bool):
            if month_of(v) is None:
                out.append("look-nonmonth")
            elif v.isdecimal():
                out.append("look-month:int()-accepts")
            else:
                out.append("look-month:lower()-maps-onto-table")
    return sorted(set(out))


def month_of(v):
    """The month a value spells (property text), or None."""
    if isinstance(v, bool):
        return None
    if isinstance(v, int):                                                # every int instance, also of a subclass (bool: above)
        v = int.__int__(v)
        return v if 1 <= v <= 12 else None
    if isinstance(v, str):
        v = str.__str__(v)                                                # the text of a str-subclass instance
        if v.isdecimal():
            import unicodedata
            i = 0
            while i < len(v) - 1 and unicodedata.decimal(v[i]) == 0:      # leading zeros do not change the number
                i += 1
            try:
                n = int(v[i:])
            except ValueError:                                            # more digits than int() converts: not 1..12
                return None
            return n if 1 <= n <= 12 else None
        lo = v.lower()
        if lo in ABBR:
            return ABBR.index(lo) + 1
        for i, f in enumerate(FULL):
            if lo == f.lower():
                return i + 1
    return None


def expected(kind, v):
    m = month_of(v)
    if m is None:
        return v
    return [m, ABBR[m - 1], FULL[m - 1]][kind]


def matches(got, kind, v):
    """Property statement for ONE value: got is what middleware `kind` (applied last) may leave for the month value v.

    v spells month m: got is m / the lower-case abbreviation / the capitalised full name - a plain int / str; when v is an
    instance of an int (str) subclass and already IS that number (text), the same subclass is accepted as well (the property
    says which value is produced, a subclass instance equal to it is that value; a chain through another kind gives the plain
    one).  Otherwise: unchanged, with its type."""
    m = month_of(v)
    if m is None:
        return type(got) is type(v) and bool(got == v or (got != got and v != v))
    exp = [m, ABBR[m - 1], FULL[m - 1]][kind]
    if isinstance(got, bool) or not isinstance(got, type(exp)) or not (got == exp and exp == got):
        return False
    return type(got) is type(exp) or type(got) is type(v)


def impl(case):
    import enc
    import implutil
    from bibtexparser.library import Library
    from bibtexparser.model import Entry, Field
    from bibtexparser.middlewares import MonthIntMiddleware, MonthAbbreviationMiddleware, MonthLongStringMiddleware
    MW = [MonthIntMiddleware, MonthAbbreviationMiddleware, MonthLongStringMiddleware]
    inp = case["input"]
    if "interp" in inp:
        from . import c15_interp
        return c15_interp.impl(case, MW)
    if "values" in inp:
        return impl_multi(case, MW)
    if "steps" in inp:
        return impl_edit(case, MW)
    if "blocks" in inp:
        return impl_lib(case, MW)
    v = unjv(inp["value"])
    shape = inp["shape"]
    if shape == 0:
        fields = [Field("month", v, 2)]
    elif shape == 1:
        fields = [Field("title", "{x}", 1), Field("Month", v, 2)]          # no 'month' key (case differs)
    elif shape == 2:
        fields = [Field("year", 2020, 1), Field("month", v, 2), Field("note", "jan", 3)]
    else:
        fields = [Field("month", "zzz", 1), Field("a", "b", 2), Field("month", v, 3)]   # duplicate key: last one is used
    entry = Entry("article", "k", fields, start_line=0, raw="@article{k}")
    abstract = ("MonthIntMiddleware", "MonthAbbreviationMiddleware", "MonthLongStringMiddleware")
    huge = isinstance(v, int) and not isinstance(v, bool) and abs(v) >= 10 ** 4000      # cannot be printed: oracle only
    sx_in = None if huge else [10, inp["mws"], enc.enc_block(entry, abstract)]

    def run():
        lib = Library([entry])
        for k in inp["mws"]:
            lib = MW[k]().transform(lib)
        return lib
    r = implutil.guarded(run)
    rec = {"sx_in": sx_in, "key": json.dumps([inp["value"], inp["mws"], shape])}
    if r[0] == "exc":
        rec["sx_out"] = None if huge else implutil.r_exc(r[1])
        rec["oracle"] = {"ok": False, "detail": "middleware raised %s on month value %s" % (r[2], sr(v))}
        rec["summary"] = "raised " + r[2]
        rec["nontrivial"] = True
        return rec
    lib = r[1]
    blk = lib.blocks[0]
    rec["sx_out"] = None if huge else implutil.r_ok(enc.enc_block(blk, abstract))
    # model instances: ASCII lower, ASCII decimals
    if isinstance(v, str) and (not enc.lower_is_ascii_only(v) or (v.isdecimal() and not v.isascii())):
        rec["skip"] = True
    if not isinstance(v, (str, int, list, type(None))):
        rec["skip"] = True                     # value types outside the model's value universe: Python oracle only
    # ---- oracle (property statement, independent reference tables)
    ok, detail = True, ""
    if len(lib.blocks) != 1 or type(blk).__name__ != "Entry":
        ok, detail = False, "result is not one entry"
    else:
        fs = blk.fields
        pos = {0: 0, 2: 1, 3: 2}.get(shape)
        if shape == 1:
            got = fs[1].value
            if not (type(got) is type(v) and got == v) or "month" in blk.fields_dict:
                ok, detail = False, "entry without month field changed"
        else:
            got = fs[pos].value
            exp = expected(inp["mws"][-1], v)
            if not matches(got, inp["mws"][-1], v):
                ok, detail = False, "month value %s (%s) through %r gave %s (%s), expected %s" % (sr(v), type(v).__name__, inp["mws"], sr(got), type(got).__name__, sr(exp))
        others = [(f.key, f.value) for i, f in enumerate(fs) if i != pos]
        orig = [(f.key, f.value) for i, f in enumerate(fields) if i != pos]
        if shape != 1 and [k for k, _ in others] != [k for k, _ in orig]:
            ok, detail = False, "other fields changed"
    if isinstance(v, bool):
        # bool month values: isinstance(True, int) holds in Python, the property does not quantify over them (DESIGN 7);
        # only "never raises" and the model comparison (Model/Month.v is faithful for VBool, theorem C15_bool_true) apply
        ok, detail = True, ""
    rec["oracle"] = {"ok": ok, "detail": detail}
    m = month_of(v)
    rec["nontrivial"] = (m is not None) or case["stream"] in ("near", "shape", "lookalike")
    rec["tags"] = ["month" if m is not None else "nonmonth"] + (["chain%d" % min(len(inp["mws"]), 4)] if len(inp["mws"]) > 2 else [])
    st = sub_tags(inp["value"])
    if st:
        rec["tags"] += st + ["subclass-month" if m is not None else "subclass-nonmonth"]
    rec["tags"] += look_tags(inp, v)
    rec["summary"] = ("[" + ", ".join("(%r, %s)" % (f.key, sr(f.value)) for f in blk.fields) + "]")[:200] if type(blk).__name__ == "Entry" else type(blk).__name__
    return rec


def impl_multi(case, MW):
    import enc
    import implutil
    from bibtexparser.library import Library
    from bibtexparser.model import Entry, Field
    inp = case["input"]
    vs = [unjv(v) for v in inp["values"]]
    entries = [Entry("article", "k%d" % i, [Field("month", v, 2)], start_line=i, raw="@article{k%d}" % i) for i, v in enumerate(vs)]
    abstract = ("MonthIntMiddleware", "MonthAbbreviationMiddleware", "MonthLongStringMiddleware")
    sx_in = [11, inp["mws"], [enc.enc_block(e, abstract) for e in entries]]

    def run():
        lib = Library(entries)
        for k in inp["mws"]:
            lib = MW[k]().transform(lib)
        return lib
    r = implutil.guarded(run)
    rec = {"sx_in": sx_in, "key": json.dumps([inp["values"], inp["mws"]]), "nontrivial": True, "tags": ["multi"] + sub_tags(*inp["values"]) + look_tags(inp, *[x for x in vs if isinstance(x, str) and not x.isascii()])}
    if r[0] == "exc":
        rec["sx_out"] = implutil.r_exc(r[1])
        rec["oracle"] = {"ok": False, "detail": "middleware raised %s on month values %r" % (r[2], vs)}
        rec["summary"] = "raised " + r[2]
        return rec
    lib = r[1]
    rec["sx_out"] = implutil.r_ok([enc.enc_block(b, abstract) for b in lib.blocks])
    if any(isinstance(v, str) and (not enc.lower_is_ascii_only(v) or (v.isdecimal() and not v.isascii())) for v in vs):
        rec["skip"] = True
    ok, detail = True, ""
    if len(lib.blocks) != len(vs) or any(type(b).__name__ != "Entry" for b in lib.blocks):
        ok, detail = False, "result is not one entry per entry"
    else:
        for i, (v, b) in enumerate(zip(vs, lib.blocks)):
            got = b.fields[0].value if len(b.fields) == 1 else None
            exp = expected(inp["mws"][-1], v)
            if not matches(got, inp["mws"][-1], v) or b.key != "k%d" % i:
                ok, detail = False, ("entry %d of a library with month values %r through %r: value %r gave %r (%s), expected %r" %
                                     (i, vs, inp["mws"], v, got, type(got).__name__, exp))
                break
    rec["oracle"] = {"ok": ok, "detail": detail}
    rec["summary"] = repr([b.fields[0].value for b in lib.blocks if type(b).__name__ == "Entry" and b.fields])[:200]
    return rec


def impl_edit(case, MW):
    """One entry through middleware applications interleaved with edits of the month by the caller and with copies.

    Property: whatever happened to the entry before, a month middleware turns the month value it FINDS into its form (or
    leaves a non-month alone), so the final value is expected(last kind, value set last).  Model comparison: the entry as it
    is after the last edit / copy (metadata of earlier runs included) through the remaining middlewares (op 10)."""
    import copy
    import bibtexparser
    import enc
    import implutil
    from bibtexparser.library import Library
    from bibtexparser.model import Entry, Field
    inp = case["input"]
    start = unjv(inp["start"])
    shape = inp["shape"]
    steps = inp["steps"]
    make = inp.get("make")
    abstract = ("MonthIntMiddleware", "MonthAbbreviationMiddleware", "MonthLongStringMiddleware")
    last_edit = max([i for i, st in enumerate(steps) if st[0] != "mw"], default=-1)
    tail = [st[1] for st in steps[last_edit + 1:]]
    state = {"snap": None, "others": None}

    def others_of(e):
        return [(f.key, f.value) for f in e.fields if f.key != "month"]

    def run():
        pool = {}
        if make is not None:
            lib = bibtexparser.parse_string("@article{k,\n  year = 2020,\n  month = %s,\n  note = {jan}\n}\n" % start,
                                            parse_stack=[MW[make[1]]()])
        else:
            if shape == 0:
                fields = [Field("month", start, 2)]
            else:
                fields = [Field("year", 2020, 1), Field("month", start, 2), Field("note", "jan", 3)]
            lib = Library([Entry("article", "k", fields, start_line=0, raw="@article{k}")])
        state["others"] = others_of(lib.blocks[0])
        if last_edit < 0:
            state["snap"] = enc.enc_block(lib.blocks[0], abstract)
        for i, st in enumerate(steps):
            if st[0] == "mw":
                _, k, inplace, reuse = st
                if reuse:
                    m = pool.setdefault((k, inplace), MW[k](allow_inplace_modification=bool(inplace)))
                else:
                    m = MW[k](allow_inplace_modification=bool(inplace))
                lib = m.transform(lib)
            elif st[0] == "set":
                e = lib.entries[0]
                v = unjv(st[1])
                if st[2] == 0:
                    e["month"] = v
                elif st[2] == 1:
                    e.fields_dict["month"].value = v
                elif st[2] == 2:
                    e.set_field(Field("month", v, 7))
                else:
                    e.pop("month")
                    e.set_field(Field("month", v))
            else:
                if st[1] == 0:
                    lib = Library([copy.deepcopy(lib.blocks[0])])
                elif st[1] == 1:
                    lib = Library([lib.blocks[0]])
                else:
                    lib = copy.deepcopy(lib)
            if i == last_edit:
                state["snap"] = enc.enc_block(lib.blocks[0], abstract)
        return lib
    r = implutil.guarded(run)
    sets = [unjv(st[1]) for st in steps if st[0] == "set"]
    v = sets[-1] if sets else start                       # the value the last run of middlewares starts from (as a month)
    sx_in = [10, tail, state["snap"]] if state["snap"] is not None else None
    rec = {"sx_in": sx_in, "key": json.dumps(inp, sort_keys=True), "nontrivial": True,
           "tags": ["edit", "edit-set" if sets else "edit-copy", "parsed" if make is not None else "built"]
           + sub_tags(inp["start"], *[st[1] for st in steps if st[0] == "set"])
           + look_tags(inp, *[x for x in [start] + [unjv(st[1]) for st in steps if st[0] == "set"] if isinstance(x, str) and not x.isascii()])}
    if r[0] == "exc":
        rec["sx_out"] = implutil.r_exc(r[1]) if sx_in is not None else None
        rec["oracle"] = {"ok": False, "detail": "raised %s in sequence %r starting from month %s" % (r[2], steps, sr(start))}
        rec["summary"] = "raised " + r[2]
        return rec
    lib = r[1]
    blk = lib.blocks[0] if len(lib.blocks) == 1 else None
    rec["sx_out"] = implutil.r_ok(enc.enc_block(blk, abstract)) if blk is not None else None
    if blk is None:
        rec["sx_in"] = None
    # the model sees the value set last, or - if the last non-middleware step is a copy or there is none - a result of the
    # middlewares or the start value
    seen = [start] + sets
    if any(isinstance(x, str) and (not enc.lower_is_ascii_only(x) or (x.isdecimal() and not x.isascii())) for x in seen):
        rec["skip"] = True
    if any(not isinstance(x, (str, int, list, type(None))) for x in seen):
        rec["skip"] = True
    ok, detail = True, ""
    if blk is None or type(blk).__name__ != "Entry":
        ok, detail = False, "result is not one entry"
    else:
        mf = [f for f in blk.fields if f.key == "month"]
        exp = expected(steps[-1][1], v)
        if len(mf) != 1:
            ok, detail = False, "%d month fields after %r" % (len(mf), steps)
        else:
            got = mf[0].value
            if not matches(got, steps[-1][1], v):
                ok, detail = False, ("entry%s with month %s through %r: the last middleware found month value %s and left %s (%s), expected %s"
                                     % (" parsed with middleware %d" % make[1] if make is not None else "", sr(start), steps, sr(v), sr(got),
                                        type(got).__name__, sr(exp)))
        if ok and others_of(blk) != state["others"]:
            ok, detail = False, "other fields changed: %r -> %r" % (state["others"], others_of(blk))
    rec["oracle"] = {"ok": ok, "detail": detail}
    rec["summary"] = ("[" + ", ".join("(%r, %s)" % (f.key, sr(f.value)) for f in blk.fields) + "]")[:200] if blk is not None and type(blk).__name__ == "Entry" else "?"
    return rec


def lib_text(specs):
    """The library as BibTeX text (text modes: month values and keys are plain ASCII tokens, chosen by the generator)."""
    out = []
    for i, b in enumerate(specs):
        t = b["t"]
        if t == "e":
            fs = list(b["x"])
            if "m" in b:
                fs.insert(min(1, len(fs)), ["month", str(unjv(b["m"]))])
            out.append("@article{%s,\n%s\n}" % (b["k"], ",\n".join("  %s = %s" % (k, v) for k, v in fs)))
        elif t == "s":
            out.append("@string{%s = %s}" % (b["k"], b["v"]))
        elif t == "c":
            out.append("@comment{%s}" % b["v"])
        elif t == "i":
            out.append(b["v"])
        elif t == "p":
            out.append('@preamble{"%s"}' % b["v"])
        else:
            out.append("@article{bad%d %s}" % (i, b["v"]))
    return "\n".join(out) + "\n"


def lib_objects(specs):
    from bibtexparser.model import Entry, Field, String, ExplicitComment, ImplicitComment, Preamble, ParsingFailedBlock
    out = []
    for i, b in enumerate(specs):
        t = b["t"]
        if t == "e":
            fs = [Field(k, unjv(v), i + 1) for k, v in b["x"]]
            if "m" in b:
                fs.insert(min(1, len(fs)), Field("month", unjv(b["m"]), i + 1))
            out.append(Entry("article", b["k"], fs, start_line=i, raw="@article{%s}" % b["k"]))
        elif t == "s":
            out.append(String(b["k"], b["v"], start_line=i, raw="@string{%s = %s}" % (b["k"], b["v"])))
        elif t == "c":
            out.append(ExplicitComment(b["v"], start_line=i, raw="@comment{%s}" % b["v"]))
        elif t == "i":
            out.append(ImplicitComment(b["v"], start_line=i, raw=b["v"]))
        elif t == "p":
            out.append(Preamble(b["v"], start_line=i, raw="@preamble{%s}" % b["v"]))
        else:
            out.append(ParsingFailedBlock(Exception("bad " + b["v"]), start_line=i, raw="@article{bad %s}" % b["v"]))
    return out


def impl_lib(case, MW):
    """Month middlewares over a library that holds more than the entry (see gen_libs).

    Property: the month value an entry has when the month middlewares get at it decides the result alone - whatever @string
    blocks, other entries, comments or failed blocks stand next to it, and whichever way the middlewares are run: each
    entry keeps its place among the entries, its key, type and other fields, and its month is expected(last kind, value
    found).  The value found is read off the library before the month middlewares run (text modes: the same text parsed with
    the rest of the stack only).  Model comparison (op 11): all blocks before -> all blocks after."""
    import copy
    import bibtexparser
    import enc
    import implutil
    from bibtexparser.library import Library
    from bibtexparser.model import Entry, Field, String
    inp = case["input"]
    specs, how, mws = inp["blocks"], inp["how"], inp["mws"]
    abstract = ("MonthIntMiddleware", "MonthAbbreviationMiddleware", "MonthLongStringMiddleware")
    state = {}

    def snapshot(blocks):
        state["sx"] = [enc.enc_block(b, abstract, abstract_prev=True) for b in blocks]
        state["ents"] = [(b.key, b.entry_type, [(f.key, copy.deepcopy(f.value)) for f in b.fields])
                         for b in blocks if type(b).__name__ == "Entry"]
        state["skeys"] = [b.key for b in blocks if type(b).__name__ == "String"]

    def flat(out, t):
        if t is None:
            return
        if isinstance(t, (list, tuple)):
            out.extend(t)
        else:
            out.append(t)

    def run():
        pool = {}
        insts = []
        for k in mws:
            if inp["share"]:
                insts.append(pool.setdefault(k, MW[k](allow_inplace_modification=bool(inp["inplace"]))))
            else:
                insts.append(MW[k](allow_inplace_modification=bool(inp["inplace"])))
        if inp["warm"]:
            # the instances have seen another library before (one whose @string keys are month names)
            for m in insts:
                m.transform(Library([String("jan", '"x"'), String("March", "{y}"), String("12", "3"),
                                     Entry("article", "w", [Field("month", "jan")]), Entry("article", "w2", [Field("month", "zz")])]))
        if how in LIB_TEXT_HOWS:
            text = lib_text(specs)
            if how == "append":
                snapshot(bibtexparser.parse_string(text).blocks)
                return bibtexparser.parse_string(text, append_middleware=insts).blocks
            snapshot(bibtexparser.parse_string(text, parse_stack=[]).blocks)
            if how == "stack":
                return bibtexparser.parse_string(text, parse_stack=insts).blocks
            lib = bibtexparser.parse_string(text, parse_stack=[])
            for m in insts:
                lib = m.transform(lib)
            return lib.blocks
        lib = Library(lib_objects(specs))
        if how == "build":
            snapshot(lib.blocks)
            for m in insts:
                lib = m.transform(lib)
            return lib.blocks
        if how == "block":
            snapshot(lib.blocks)
            for m in insts:
                out = []
                for b in lib.blocks:
                    flat(out, m.transform_block(b, lib))
                lib = Library(out)
            return lib.blocks
        # foreign: the library handed to transform_block holds the other blocks, not the entry
        ents = [b for b in lib.blocks if type(b).__name__ == "Entry"]
        rest = Library([b for b in lib.blocks if type(b).__name__ != "Entry"])
        snapshot(ents)
        for m in insts:
            out = []
            for b in ents:
                flat(out, m.transform_block(b, rest))
            ents = out
        return ents
    r = implutil.guarded(run)
    rec = {"key": json.dumps(inp, sort_keys=True), "nontrivial": True, "tags": ["lib", "lib-" + how]
           + sub_tags(*([b.get("m") for b in specs] + [x[1] for b in specs for x in b.get("x", [])]))}
    rec["sx_in"] = [11, mws, state["sx"]] if "sx" in state else None
    if r[0] == "exc":
        rec["sx_out"] = implutil.r_exc(r[1]) if rec["sx_in"] is not None else None
        rec["oracle"] = {"ok": False, "detail": "raised %s on the library %r run as %r with middlewares %r" % (r[2], specs, how, mws)}
        rec["summary"] = "raised " + r[2]
        return rec
    blocks = r[1]
    rec["sx_out"] = implutil.r_ok([enc.enc_block(b, abstract, abstract_prev=True) for b in blocks])
    found = [v for _, _, fs in state["ents"] for k, v in fs if k == "month"]
    if any(isinstance(v, str) and (not enc.lower_is_ascii_only(v) or (v.isdecimal() and not v.isascii())) for v in found):
        rec["skip"] = True
    if any(not isinstance(v, (str, int, list, type(None))) for v in found):
        rec["skip"] = True
    if any(str(v) in state["skeys"] for v in found):
        rec["tags"].append("lib-month-is-string-key")
    ok, detail = True, ""
    after = [b for b in blocks if type(b).__name__ == "Entry"]
    if len(after) != len(state["ents"]):
        ok, detail = False, "%d entries before, %d after" % (len(state["ents"]), len(after))
    else:
        def same(a, b):
            return type(a) is type(b) and (a == b or (a != a and b != b))
        for i, ((key, typ, fs), b) in enumerate(zip(state["ents"], after)):
            last = max([j for j, (k, _) in enumerate(fs) if k == "month"], default=-1)
            if b.key != key or b.entry_type != typ or [f.key for f in b.fields] != [k for k, _ in fs]:
                ok, detail = False, "entry %d (%r): key, type or field keys changed" % (i, key)
                break
            for j, ((k, v), f) in enumerate(zip(fs, b.fields)):
                exp = expected(mws[-1], v) if j == last else v
                if not (matches(f.value, mws[-1], v) if j == last else same(f.value, v)):
                    ok = False
                    detail = ("entry %d (%r) of a library %s with @string keys %r, run as %r through %r: field %r = %s gave %s (%s), expected %s"
                              % (i, key, [s["t"] for s in specs], state["skeys"], how, mws, k, sr(v), sr(f.value), type(f.value).__name__,
                                 sr(exp)))
                    break
            if not ok:
                break
    rec["oracle"] = {"ok": ok, "detail": detail}
    rec["summary"] = repr([[(f.key, f.value) for f in b.fields] for b in after])[:200]
    return rec
