"""C14, streams magic-*: MAGIC WORDS AS NAMES through the whole stack.

A name list may hold, as its only / last / first / middle person, a word that the library, BibTeX or bibliography practice
treats specially somewhere: `others`, `Others`, `et al.`, `et al`, `Et Al.`, `et. al.`, `et alii`, `and others`, `Jr`, `von`,
`Anonymous`, a month, a number, a reserved key (`ID`, `ENTRYTYPE`), a format string ... (selfref.MAGIC_WORDS and the list
below).  For the name middlewares all of these are ordinary VALID names with a non-empty last name (`et al.` is First `et`,
Last `al.`), so the inverse law of C14 speaks about them: merged and split again they must give EXACTLY the same persons and
parts.  A change that "recognises" one of them (writes the et-al marker as `others`, drops an `Anonymous`, moves a trailing
`Jr` to the jr part, reads `May` as a month ...) breaks the law on legal values which no token alphabet produces.

Generated here (fixed ordered pools, combined with the check's PRNG only):
    magic persons   every word of the pools alone, in other letter cases, with / without a final dot, braced, with ties or double
                    blanks, last-name-first, its words reversed, and as the first / von / last / jr part of an ordinary name
    values          lists of 1..4 persons with a magic person as the only / last / first / middle one, several of them, the same
                    one twice; companions are realistic names and names of the check's pool; joined by ` and ` (and variants)
    levels          person (op 86) and list (op 87): the FUNCTION pair, compared with the model;
                    stack (op 91): parse_string(append_middleware=[Separate, SplitParts]) / write_string(prepend_middleware=
                    [MergeParts, MergeCo]) in the default (last-name-first) style, compared with the model;
                    mwpair (this file, oracle only like the session levels): the MIDDLEWARE pair through Middleware.transform in
                    BOTH merge styles, and parse_string / write_string with MergeNameParts(style="first").

Verdict of level mwpair, from the property text: for admissible persons (valid, non-empty last, no word ending in an odd number
of backslashes) the last-name-first merge must re-split into exactly the same persons and parts (known class K3 as everywhere:
nc.in_k3).  The first-name-first merge is no inverse in general (`Knuth, Jr, Donald` has no such form): the law is applied to it
WHERE IT APPLIES, i.e. when the independent references (nc.spec_parse, nc.ref_split) read the first-name-first texts of the
persons, joined by ` and `, as these very persons one by one; then the library must read them so, too.
"""
import json

from props import names_common as nc
from props import selfref

NF = ("author", "editor", "translator")

# the words the class is about (bibliography practice, BibTeX's own marker, name particles, months, numbers)
CORE_WORDS = [
    "others", "Others", "OTHERS", "et al.", "et al", "Et Al.", "ET AL.", "et. al.", "et alii", "et alia", "et alii.", "et~al.", "etal",
    "et al. others", "and others", "others and", "and et al.", "and", "And", "al., et", "al. et", "others others", "et others", "al.", "et",
    "Jr", "Jr.", "jr", "Sr.", "II", "III", "IV", "von", "van", "de", "der", "van der", "de la", "Anonymous", "anonymous", "Anon.", "Anon",
    "ANONYMOUS", "Unknown", "unknown", "N.N.", "N. N.", "Various", "various authors", "Collective", "Editor", "ed.", "eds.", "(eds.)", "author",
    "jan", "Jan", "January", "january", "mar", "March", "may", "May", "Dec.", "December", "dec", "sept", "1", "01", "0", "12", "13", "2024",
    "1st", "3rd", "42", "-1", "1.5", "1 2", "May 1", "1 May 2024",
]
ORDINARY = ["Donald E. Knuth", "Knuth, Donald E.", "Leslie Lamport", "Lamport, Leslie", "de la Fontaine, Jean", "Ludwig van Beethoven",
            "Beeblebrox, IV, Zaphod", "{Barnes and Noble}", "Brinch Hansen, Per", "AA bb CC dd", "Aa", "Jean de La Fontaine",
            "von Neumann, John", "D. E. Knuth"]
JOINS = [" and "] * 12 + [" AND ", "  and\t", "\nand\n", " aNd ", " and\n  "]
KINDS = ["only", "last", "first", "middle", "all", "twice"]


def _uniq(xs):
    return list(dict.fromkeys(xs))


def word_forms(w):
    """one magic word in the spellings in which it reaches a .bib file (generator side only; nothing is assumed about them)"""
    out = [w, w.lower(), w.upper(), w.title(), w.capitalize(), w.swapcase()]
    out += [w[:-1] if w.endswith(".") else w + "."]
    out += ["{" + w + "}", "{" + w.title() + "}", w.replace(" ", "~"), w.replace(" ", "  "), w.replace(". ", ".")]
    ws = w.split(" ")
    if len(ws) > 1:
        out += [" ".join(reversed(ws)), ws[-1] + ", " + " ".join(ws[:-1]), " ".join(ws[:-1]) + ", " + ws[-1], "{" + ws[0] + "} " + " ".join(ws[1:])]
    d = nc.spec_parse(w)
    if d is not None and d["last"]:
        out.append(", ".join(x for x in (" ".join(d["von"] + d["last"]), " ".join(d["jr"]), " ".join(d["first"])) if x))
    return out


def embedded(w):
    """the magic word as the first / von / last / jr part of an otherwise ordinary name"""
    return [w + " Knuth", "Knuth " + w, "Knuth, " + w, w + ", Donald", "Knuth, " + w + ", Donald", "Donald " + w + " Knuth",
            "Donald de " + w, w + " de Knuth", "Knuth, Jr, " + w, "Donald E. " + w, "de " + w + ", D.", w + " " + w,
            # ... and as one word among others of a part: Last `Knuth w` / `w Knuth`, First `Donald w` / `w Donald`, von `de w`, Jr `Jr w`
            "Knuth " + w + ", Donald", w + " Knuth, Donald", "Knuth, Donald " + w, "Knuth, " + w + " Donald", "de " + w + " Knuth, Donald",
            "Knuth, Jr " + w + ", Donald", "Donald de Knuth " + w]


def pools(ok):
    """(plain, forms, inside, broad): admissible names only (the independent name oracle decides), fixed order, disjoint.
    plain = the core words as they stand; forms = their other spellings; inside = a core word as a part of an ordinary name;
    broad = the same three for selfref.MAGIC_WORDS"""
    plain = list(CORE_WORDS)
    forms, inside, broad = [], [], []
    for w in CORE_WORDS:
        forms += word_forms(w)
    for w in CORE_WORDS:
        inside += embedded(w)
    for w in selfref.MAGIC_WORDS:
        broad += word_forms(w) + embedded(w)[:6]
    seen = set()
    res = []
    for pool in (plain, forms, inside, broad):
        keep = [s for s in _uniq(pool) if s not in seen and ok(s) and nc.balanced(s)]
        seen.update(keep)
        res.append(keep)
    return res


def cases(rng, tier, good, ok):
    quick = tier == "quick"
    plain, forms, inside, broad = pools(ok)
    core = plain + forms + inside
    companions = [s for s in ORDINARY if ok(s)]
    out = []

    def companion():
        return rng.choice(companions) if rng.random() < 0.7 else rng.choice(good)

    def magic():
        r = rng.random()
        return rng.choice(plain) if r < 0.3 else rng.choice(forms) if r < 0.6 else rng.choice(inside) if r < 0.8 else rng.choice(broad)

    def value(kind, m, n):
        if kind == "only":
            ps = [m]
        elif kind == "last":
            ps = [companion() for _ in range(n - 1)] + [m]
        elif kind == "first":
            ps = [m] + [companion() for _ in range(n - 1)]
        elif kind == "middle":
            ps = [companion() for _ in range(n - 1)]
            ps.insert(rng.randint(1, n - 2), m)
        elif kind == "all":
            ps = [m] + [magic() for _ in range(n - 1)]
            rng.shuffle(ps)
        else:                                   # the same magic person twice, somewhere
            ps = [companion() for _ in range(n - 2)]
            for _ in range(2):
                ps.insert(rng.randint(0, len(ps)), m)
        v = ps[0]
        for p in ps[1:]:
            v += rng.choice(JOINS) + p
        return v

    def size(kind):
        return {"only": 1, "last": rng.randint(2, 4), "first": rng.randint(2, 4), "middle": rng.randint(3, 4), "all": rng.randint(2, 4),
                "twice": rng.randint(2, 4)}[kind]

    def emit(kind, v, levels):
        if "list" in levels:
            out.append({"stream": "magic-list", "input": {"level": "list", "s": v, "magic": kind}})
        if "stack" in levels and "\\" not in v and "@" not in v:
            fields = [[rng.choice(NF), v]]
            r = rng.random()
            if r < 0.15:
                fields.insert(rng.randint(0, 1), ["title", rng.choice(["A Title and Others", "et al.", "On {and}"])])
            elif r < 0.3:
                k2 = rng.choice([k for k in NF if k != fields[0][0]])
                fields.insert(rng.randint(0, 1), [k2, value(rng.choice(KINDS[:3]), magic(), rng.randint(2, 3))])
            out.append({"stream": "magic-stack", "input": {"level": "stack", "fields": fields, "magic": kind}})
        if "mw" in levels:
            out.append({"stream": "magic-mw", "input": {"level": "mwpair", "field": rng.choice(NF), "s": v, "magic": kind}})

    ALL = ("list", "stack", "mw")
    # every magic person at the person level (function pair on one name)
    for m in core + broad:
        out.append({"stream": "magic-person", "input": {"level": "person", "s": m, "magic": "person"}})
    # the plainest members of the class, as they are found in .bib files
    for v in ("Knuth, Donald E. and others", "Knuth, Donald E. and Lamport, Leslie and et al.", "Donald E. Knuth and Leslie Lamport and et al",
              "Knuth, Donald E. and Others", "Knuth, Donald E. and Lamport, Leslie and Et Al.", "Anonymous", "others", "et al.",
              "Anonymous and others", "Sammy Davis Jr and Martin Luther King Jr.", "May, Brian and March, James and others"):
        emit("fixed", v, ALL)
    # the core words as they stand: the only person, the last of 2 and of 3 / 4, the first, a middle one - all levels
    for m in plain:
        for kind, n in (("only", 1), ("last", 2), ("last", rng.randint(3, 4)), ("first", rng.randint(2, 3)), ("middle", rng.randint(3, 4))):
            emit(kind, value(kind, m, n), ALL)
    # their other spellings: the last person on all levels, the only one and one more position through the middlewares
    for m in forms:
        emit("last", value("last", m, rng.randint(2, 4)), ALL)
        emit("only", m, ("mw",))
        kind = rng.choice(["first", "middle", "twice"])
        emit(kind, value(kind, m, size(kind)), ("mw",) if rng.random() < 0.7 else ("stack",))
    # a magic word inside an ordinary name, and the words the library itself reserves: one position each (mostly the last)
    for m in inside + broad:
        kind = "last" if rng.random() < 0.5 else rng.choice(KINDS)
        emit(kind, value(kind, m, size(kind)), ("list", "mw") if rng.random() < 0.6 else ("list", "stack"))
    # sampled: any kind, 1..4 persons, any magic person, all levels
    for _ in range(1000 if quick else 40000):
        kind = rng.choice(KINDS)
        emit(kind, value(kind, magic(), size(kind)), ALL)
    return out


def shrink(case):
    inp = case["input"]
    s = inp["s"]
    ns = s.split(" and ")
    for j in range(len(ns)):
        if len(ns) > 1:
            yield {"stream": case.get("stream", "?"), "input": dict(inp, s=" and ".join(ns[:j] + ns[j + 1:]))}


# ------------------------------------------------------------------ independent merges (from the property text / the docstrings)
def merge_last(d):
    return ", ".join(x for x in (" ".join(d["von"] + d["last"]), " ".join(d["jr"]), " ".join(d["first"])) if x)


def merge_first(d):
    return " ".join(d["first"] + d["von"] + d["last"] + d["jr"])


def first_style_applies(dicts):
    """the first-name-first texts of these persons, joined by ` and `, ARE these persons for the independent references"""
    texts = [merge_first(d) for d in dicts]
    text = " and ".join(texts)
    try:
        if not nc.balanced(text) or nc.ref_split(text) != texts:
            return False
        return all(nc.spec_parse(t) == d for t, d in zip(texts, dicts))
    except Exception:  # noqa: BLE001
        return False


# ------------------------------------------------------------------ runner of level mwpair (oracle only)
def impl(case):
    import implutil
    import bibtexparser
    from bibtexparser.library import Library
    from bibtexparser.model import Entry, Field
    from bibtexparser.middlewares import MergeCoAuthors, MergeNameParts, SeparateCoAuthors, SplitNameParts, NameParts
    from props import c14
    inp = case["input"]
    key, v = inp["field"], inp["s"]
    rec = {"sx_in": None, "sx_out": None, "key": "M" + json.dumps([key, v]), "tags": ["mwpair"], "nontrivial": False}

    def names_of(lib):
        """the structured names of the name field, or a description of what is there instead"""
        if len(lib.blocks) != 1 or not isinstance(lib.blocks[0], Entry):
            return "no entry: %s" % [type(b).__name__ for b in lib.blocks]
        vals = [f.value for f in lib.blocks[0].fields if f.key == key]
        if len(vals) != 1:
            return "%d fields %s" % (len(vals), key)
        if not isinstance(vals[0], list) or not all(isinstance(p, NameParts) for p in vals[0]):
            return "not a list of NameParts: %r" % (vals[0],)
        return [nc.parts_dict(p) for p in vals[0]]

    def split(lib):
        return SplitNameParts().transform(SeparateCoAuthors().transform(lib))

    def one(value):
        return Library([Entry("article", "k", [Field(key, value), Field("title", "T and others")])])

    def run():
        res = {}
        for style in ("last", "first"):
            lib1 = split(one(v))                 # the default middlewares work in place: every style starts from a new split
            res["names1_" + style] = names_of(lib1)
            if not isinstance(res["names1_" + style], list):
                continue
            lib2 = MergeCoAuthors().transform(MergeNameParts(style=style).transform(lib1))
            merged = [f.value for f in lib2.blocks[0].fields if f.key == key] if len(lib2.blocks) == 1 and isinstance(lib2.blocks[0], Entry) else []
            res["merged_" + style] = merged[0] if len(merged) == 1 else merged
            res["names2_" + style] = names_of(split(lib2)) if len(merged) == 1 and isinstance(merged[0], str) else "merged value: %r" % (merged,)
        # parse_string / write_string with the first-name-first merge (the default style is the stack level)
        text = "@article{key1,\n  %s = {%s},\n  title = {T and others}\n}\n" % (key, v)
        res["text"] = text
        p1 = bibtexparser.parse_string(text, append_middleware=[SeparateCoAuthors(), SplitNameParts()])
        res["stack_names1"] = names_of(p1)
        if isinstance(res["stack_names1"], list):
            res["stack_text2"] = bibtexparser.write_string(p1, prepend_middleware=[MergeNameParts(style="first"), MergeCoAuthors()])
            p2 = bibtexparser.parse_string(res["stack_text2"], append_middleware=[SeparateCoAuthors(), SplitNameParts()])
            res["stack_names2"] = names_of(p2)
        return res

    g = implutil.guarded(run)
    if g[0] == "exc":
        rec["oracle"] = {"ok": False, "detail": "%s raised through the name middlewares on %s = %r" % (g[2], key, v)}
        rec["nontrivial"] = True
        rec["summary"] = "raised " + g[2]
        return rec
    res = g[1]
    rec["summary"] = repr((res.get("merged_last"), res.get("merged_first")))[:200]

    def premises(names, leg):
        """the law speaks about this leg: structured, admissible persons"""
        if not isinstance(names, list):
            rec["tags"].append("mwpair_%s_invalid" % leg)
            return False
        if not all(c14.admissible(d) for d in names):
            rec["tags"].append("mwpair_%s_outside_premises" % leg)
            return False
        return True

    verdict = None
    # (1) the middleware pair, last-name-first: the property as it stands
    n1 = res["names1_last"]
    if premises(n1, "last"):
        rec["tags"] += ["mwpair_last_style_checked", "persons=%d" % len(n1)]
        rec["nontrivial"] = any(len(nc.all_words(d)) >= 2 for d in n1)
        k3 = nc.in_k3(n1)
        if k3:
            rec["tags"].append("mwpair_in_K3_class")
        if res["names2_last"] != n1:
            verdict = {"ok": False, "detail": "middleware pair, last-name-first: %s = %r -> %r -> MergeNameParts(style='last') + MergeCoAuthors "
                       "%r -> %r" % (key, v, n1, res["merged_last"], res["names2_last"])}
            if k3:
                verdict["known"] = "K3"
    # (2) the middleware pair, first-name-first, where that text is these persons for the independent references
    n1 = res["names1_first"]
    if verdict is None and premises(n1, "first"):
        if first_style_applies(n1):
            rec["tags"].append("mwpair_first_style_checked")
            if res["names2_first"] != n1:
                verdict = {"ok": False, "detail": "middleware pair, first-name-first (these persons written first-name-first ARE these persons "
                           "for the name rules): %s = %r -> %r -> MergeNameParts(style='first') + MergeCoAuthors %r -> %r"
                           % (key, v, n1, res["merged_first"], res["names2_first"])}
        else:
            rec["tags"].append("mwpair_first_style_no_inverse")
    # (3) parse_string / write_string, first-name-first, under the same condition and when the text can be written as one braced value
    n1 = res["stack_names1"]
    if verdict is None and premises(n1, "stack_first"):
        text1 = " and ".join(merge_first(d) for d in n1)
        writable = not any("\\\\" in w for d in n1 for w in nc.all_words(d)) and not c14.K2_RE.search(text1) and c14.splitter_brace_ok(text1)
        if writable and first_style_applies(n1):
            rec["tags"].append("mwpair_stack_first_style_checked")
            if res["stack_names2"] != n1:
                verdict = {"ok": False, "detail": "stack, first-name-first (these persons written first-name-first ARE these persons for the "
                           "name rules): %r -> %r -> write_string(prepend_middleware=[MergeNameParts(style='first'), MergeCoAuthors]) %r -> %r"
                           % (res["text"], n1, res["stack_text2"], res["stack_names2"])}
        else:
            rec["tags"].append("mwpair_stack_first_style_no_inverse")
    rec["oracle"] = verdict or {"ok": True, "detail": ""}
    return rec
