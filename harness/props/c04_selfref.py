"""C04, streams SR-*: THE LIBRARY'S OWN ARTEFACTS as the arbitrary text X and at the edges of D1 / D2 (harness/props/selfref.py).

The case generator runs in the parent process, which does not see the tree under test; everything that has to be READ from
that tree (the writer's warning comment under the default template, the default separator / indent / VAL_SEP, the reserved
words, and above all the text that parse -> write -> parse -> write ... produces) is therefore described by PARTS which the
child turns into text (`materialise`).  A part list is a list of literal strings and of

    {"w": label, "n": count, "tpl": template or None}     selfref.warning_lines(count, format)[label]; count may be
                                                          {"first-block-of": parts, "plus": i}: the lines of that document's first block
    {"fmt": "sep" | "indent" | "valsep" | "warning-template"}   the default BibtexFormat's strings / writer.VAL_SEP of the tree
    {"magic": k}                                          selfref.magic_for_tree()[k mod len]
    {"cycle": {"src": parts, "k": rounds, "fmt": {...}, "stack": "empty" | "default"}}
                                                          the text after k rounds of parse_string -> write_string

All choices are made in the parent from the check's PRNG; the child draws nothing.
"""
from props import selfref

LABELS = [lab for lab, _ in selfref.warning_lines(5)]        # the labels only; the texts are made in the child
# labels whose count is a plain ASCII number equal to the asked one (what the writer itself would have written, give or take)
DEFAULT_TPL = None
CUSTOM_TPLS = [
    "% FAILED: {n}",
    "%% {n} line(s) could not be parsed %%",
    "{n}",
    "@comment{{parsing failed: {n} lines}}",
    "% failed\n% the next {n} lines",
    "% WARNING Parsing failed for the following {n} lines",
    "WARNING Parsing failed for the following {n} lines.",
    "% WARNING Parsing failed for the following {n} lines.\n",
    "% parsing failed",
]
FORMATS = [
    ("default", {}),
    ("tight", {"indent": "  ", "block_separator": "\n", "trailing_comma": True}),
    ("wide-auto", {"indent": "", "block_separator": "\n\n\n", "value_column": "auto"}),
    ("nosep", {"block_separator": "", "value_column": 12}),
    ("custom-comment", {"parsing_failed_comment": "% FAILED: {n}", "block_separator": "\n% ----\n"}),
    ("comment-block", {"parsing_failed_comment": "@comment{{parsing failed: {n} lines}}"}),
    ("comment-newline", {"parsing_failed_comment": "% WARNING Parsing failed for the following {n} lines.\n"}),
    ("no-count", {"parsing_failed_comment": "% parsing failed", "indent": "\t\t"}),
]


# ------------------------------------------------------------------ parent side: blocks and documents with known line counts
def valid_blocks(k):
    """[(kind, text)] - every kind of valid block (keys k1..k9), written the way a user / the writer writes them; no bare
    identifiers as values (nothing refers to an @string of a neighbour), each ends in its closing brace"""
    return [
        ("entry-1line", "@misc{%s1, a = {b}}" % k),
        ("entry-written", "@article{%s2,\n\ttitle = {Two},\n\tyear = {2020}\n}" % k),
        ("entry-written-tc", "@article{%s3,\n  title = {Two},\n  year = 2020,\n}" % k),
        ("entry-keyonly", "@misc{%s4}" % k),
        ("entry-keyonly-written", "@misc{%s5,\n}" % k),
        ("entry-blank-inside", "@book{%s6,\n  note = {first\n\nsecond},\n  b = \"c\"\n}" % k),
        ("entry-concat", "@misc{%s7, a = \"x\" # {y} # 12}" % k),
        ("string-1line", "@string{%s8 = \"s\"}" % k),
        ("string-multiline", "@String{%s9 = {a\nb\n\nc}}" % k),
        ("preamble", "@preamble{\"p\"}"),
        ("preamble-multiline", "@Preamble{\"p\n q\" #\n \"r\"}"),
        ("comment", "@comment{x}"),
        ("comment-multiline", "@Comment{a\n\nb\n}"),
    ]


def dupfield_blocks(k):
    return [
        ("dupfield-1line", "@misc{%s10, a = 1, a = 2}" % k),
        ("dupfield-written", "@misc{%s11,\n\ta = {1},\n\tA = {2},\n\ta = {3}\n}" % k),
    ]


def dupkey_pairs(k):
    """[(kind, first, second)]: the second block is a DuplicateBlockKeyBlock when both are in one document"""
    return [
        ("dupkey-entry", "@misc{%s12, a = {b}}" % k, "@misc{%s12,\n\tc = {d}\n}" % k),
        ("dupkey-string", "@string{%s13 = \"s\"}" % k, "@string{%s13 = {t}}" % k),
    ]


def nlines(t):
    return t.count("\n") + 1


TAILS = [
    ("eof", ""), ("eof-nl", "\n"), ("blank+block", "\n\n%B\n"), ("noblank+block", "\n%B\n"), ("sameline+block", " %B"),
    ("blankws+block", "\n \t\n%B"), ("blank+free", "\n\nfree text behind\n"), ("noblank+free", "\nfree text behind"),
    ("crlf+block", "\r\n\r\n%B\r\n"), ("blank+block+block", "\n\n%B\n\n%C\n"), ("noblank+block+blank", "\n%B\n\n%C"),
]


def make_d2(rng, k, first=None):
    """A well-formed suffix document made of own blocks -> (text, info): info holds the counts a warning line can announce"""
    pool = valid_blocks(k) + dupfield_blocks(k)
    pairs = dupkey_pairs(k)
    kind0, b0 = first if first is not None else rng.choice(pool)
    if first is None and rng.random() < 0.15:
        pk, pa, pb = rng.choice(pairs)                     # first block and its duplicate behind it
        kind0, b0, kind1, b1 = pk + "-first", pa, pk, pb
    else:
        kind1, b1 = rng.choice([p for p in pool if p[1] != b0])
    kind2, b2 = rng.choice([p for p in valid_blocks(k) if p[1] not in (b0, b1)])
    tname, tail = rng.choice(TAILS)
    text = b0 + tail.replace("%B", b1).replace("%C", b2)
    info = {"first": nlines(b0), "total": nlines(text.rstrip("\n")), "kind": kind0, "tail": tname, "second": None, "inner": None,
            "kind1": kind1 if "%B" in tail else None}
    if "%B" in tail:
        info["second"] = nlines(text[:text.index(b1, len(b0)) + len(b1)])
    if "\n\n" in text:
        info["inner"] = nlines(text[:text.index("\n\n")])     # the first line that is followed by an empty line
    return text, info


def make_d1(rng, k, last=None):
    """A well-formed prefix document made of own blocks, ending in a complete block -> (text, kind of the last block, its lines)"""
    pool = valid_blocks(k) + dupfield_blocks(k)
    blocks = [rng.choice(pool)[1] for _ in range(rng.randint(0, 2))]
    if last is None and rng.random() < 0.15:
        pk, pa, pb = rng.choice(dupkey_pairs(k))
        blocks.append(pa)
        kind, b = pk, pb
    else:
        kind, b = last if last is not None else rng.choice(pool)
    blocks = [x for x in blocks if x != b] + [b]
    text = blocks[0]
    for x in blocks[1:]:
        text += rng.choice(["\n\n", "\n\n", "\n", "\n\n\n", " "]) + x
    return text, kind, nlines(b)


def count_for(rng, info, which=None):
    """(name, n): which block boundary of D2 the warning announces"""
    opts = [("first", info["first"])] * 4 + [("total", info["total"])]
    if info.get("second"):
        opts += [("second", info["second"])] * 2
    if info.get("inner"):
        opts += [("inner-blank", info["inner"])] * 2
    if which is not None:
        for nm, n in opts:
            if nm == which:
                return nm, n
    return rng.choice(opts)


def W(label, n, tpl=None):
    return {"w": label, "n": n, "tpl": tpl}


PRES = ["", "", "", "\n", "\n\n", "junk\n", "% note\n", "} }\n", "\"\n", "@misc{X1, a = {b}}\n", "@misc{X1, a = {b}}\n\n",
        "@comment{x}\n", "@string{X3 = \"s\"}\n\n", "some text ", "%", "\t", "@misc{X5, t = {unclosed\n", "@misc{X5, t = \"unclosed\n\n"]


def gen(rng, tier, truncated):
    """-> list of cases.  `truncated(rng)` is c04._truncated (one block cut off inside each scanner state)."""
    cases = []
    mult = 1 if tier == "quick" else 5

    def add(stream, d1, x, d2, tags, glue="\n", own=True):
        cases.append({"stream": stream, "input": {"d1": d1, "x": x, "d2": d2, "glue": glue, "own": own, "sr": tags}})

    def tplname(t):
        return "default" if t is None else "custom"

    def some_tpl(p_custom=0.3):
        return rng.choice(CUSTOM_TPLS) if rng.random() < p_custom else DEFAULT_TPL

    all_first = valid_blocks("Q") + dupfield_blocks("Q")

    def pre_text():
        """what X has in front of its last warning line; now and then earlier warning lines, piled up the way repeated write
        rounds pile them up (warning, newline, separator) or one per line"""
        if rng.random() < 0.15:
            out = []
            for _ in range(rng.randint(1, 3)):
                out += [W(rng.choice(["exact", "exact", "n+1"] + LABELS), rng.randint(0, 7)), rng.choice(["\n", "\n\n", "\n\n\n"])]
            return out
        return [rng.choice(PRES)]

    # ---- SR-above: X ends in the warning line; every label x every kind of first block, placement / tail / count / template drawn
    places = ["direct", "direct", "direct", "blank1", "blank2", "far", "far-block", "trail-ws", "crlf", "indented"]

    def x_above(place, w, pre):
        if place == "direct":
            return pre + [w]
        if place == "blank1":
            return pre + [w, "\n"]
        if place == "blank2":
            return pre + [w, "\n\n"]
        if place == "far":
            return pre + [w, "\n\nsome text between\nmore text\n"]
        if place == "far-block":
            return pre + [w, "\n\n@misc{X9, z = {y}}\n"]
        if place == "trail-ws":
            return pre + [w, rng.choice([" ", "\t", "  \t "])]
        if place == "crlf":
            return pre + [w, "\r"]
        return pre + [rng.choice([" ", "\t", "    "]), w]         # indented

    for _ in range(mult):
        for label in LABELS:
            for first in all_first:
                d2, info = make_d2(rng, "Q", first=first)
                cname, n = count_for(rng, info)
                tpl = some_tpl()
                place = rng.choice(places)
                d1, k1, _ = make_d1(rng, "P")
                add("SR-above", d1, x_above(place, W(label, n, tpl), pre_text()), d2,
                    ["SR-label:" + label, "SR-block:" + info["kind"], "SR-place:" + place, "SR-count:" + cname,
                     "SR-tail:" + info["tail"], "SR-tpl:" + tplname(tpl), "SR-d1-last:" + k1])
    # the exact line (and its numeric near misses) x every kind of first block x every placement x every tail class, default template
    for label in ["exact", "n-1", "n+1", "padded"]:
        for first in all_first:
            for place in (sorted(set(places)) if label == "exact" else rng.sample(sorted(set(places)), 3)):
                d2, info = make_d2(rng, "Q", first=first)
                cname, n = count_for(rng, info, which="first" if rng.random() < 0.6 else None)
                d1, k1, _ = make_d1(rng, "P")
                add("SR-above", d1, x_above(place, W(label, n), pre_text()), d2,
                    ["SR-label:" + label, "SR-block:" + info["kind"], "SR-place:" + place, "SR-count:" + cname,
                     "SR-tail:" + info["tail"], "SR-tpl:default", "SR-d1-last:" + k1])
    # every tail x every count name, exact line directly above, default and custom templates
    for tname, _ in TAILS:
        for which in ["first", "second", "total", "inner-blank"]:
            for tpl in [DEFAULT_TPL, DEFAULT_TPL, rng.choice(CUSTOM_TPLS)]:
                for _ in range(40):
                    d2, info = make_d2(rng, "Q")
                    if info["tail"] == tname:
                        break
                cname, n = count_for(rng, info, which=which)
                d1, k1, _ = make_d1(rng, "P")
                add("SR-above", d1, pre_text() + [W("exact", n, tpl)], d2,
                    ["SR-label:exact", "SR-block:" + info["kind"], "SR-place:direct", "SR-count:" + cname,
                     "SR-tail:" + info["tail"], "SR-tpl:" + tplname(tpl), "SR-d1-last:" + k1])
    # every count from 0 to beyond the end of D2, directly above
    for _ in range(16 * mult):
        d2, info = make_d2(rng, "Q")
        d1, k1, _ = make_d1(rng, "P")
        pre = pre_text()
        for n in range(0, info["total"] + 3):
            add("SR-sweep", d1, pre + [W("exact", n)], d2,
                ["SR-label:exact", "SR-block:" + info["kind"], "SR-place:direct", "SR-count:sweep", "SR-tail:" + info["tail"],
                 "SR-tpl:default"])

    # ---- SR-below: X starts with the warning line, right behind the last block of D1 (count: that block's lines, or D2's)
    for _ in range(2 * mult):
        for last in valid_blocks("P") + dupfield_blocks("P"):
            for label in ["exact", rng.choice(LABELS), rng.choice(LABELS)]:
                d1, k1, l1 = make_d1(rng, "P", last=last)
                d2, info = make_d2(rng, "Q")
                n = l1 if rng.random() < 0.5 else count_for(rng, info)[1]
                tpl = some_tpl(0.2)
                sp = rng.choice(["\n", "\n", "", " ", "\n\n", "\t"])
                post = rng.choice(["", "", "\n", "\njunk", "\n\n@misc{X1}\n", " trailing words", "\n@misc{X5, t = {unclosed"])
                add("SR-below", d1, [sp, W(label, n, tpl), post], d2,
                    ["SR-label:" + label, "SR-block:" + info["kind"], "SR-place:below-d1" + ("-sameline" if "\n" not in sp else ""),
                     "SR-d1-last:" + k1, "SR-tpl:" + tplname(tpl), "SR-tail:" + info["tail"]])

    # ---- SR-inside: the warning inside an explicit comment / a value / a cut-off value in X, at the end of D1, at the start of D2
    wraps = [
        ("x-comment", "@comment{", "}"), ("x-comment-lines", "@comment{\n", "\n}"), ("x-value-braced", "@misc{X1, note = {", "}}"),
        ("x-value-quoted", "@misc{X1, note = \"", "\"}"), ("x-value-written", "@misc{X1,\n\tnote = {", "}\n}"),
        ("x-string", "@string{X3 = {", "}}"), ("x-preamble", "@preamble{", "}"),
        ("x-cut-braced", "@misc{X5, note = {", ""), ("x-cut-quoted", "@misc{X5, note = \"", ""), ("x-cut-comment", "@comment{", ""),
        ("x-cut-key", "@misc{", ""), ("x-after-value", "@misc{X5, note = {a}\n", ""),
    ]
    for _ in range(2 * mult):
        for wname, a, b in wraps:
            for label in ["exact", "exact", rng.choice(LABELS), rng.choice(LABELS)]:
                d2, info = make_d2(rng, "Q")
                cname, n = count_for(rng, info)
                tpl = some_tpl(0.2)
                d1, k1, _ = make_d1(rng, "P")
                add("SR-inside", d1, [rng.choice(PRES), a, W(label, n, tpl), b, rng.choice(["", "", "\n"])], d2,
                    ["SR-label:" + label, "SR-block:" + info["kind"], "SR-place:" + wname, "SR-count:" + cname,
                     "SR-tail:" + info["tail"], "SR-tpl:" + tplname(tpl)])
        # balanced templates only: D1 and D2 stay well-formed
        bal = [DEFAULT_TPL, DEFAULT_TPL, DEFAULT_TPL, CUSTOM_TPLS[0], CUSTOM_TPLS[3], CUSTOM_TPLS[5]]
        for wname, a, b in [("d1-comment", "@comment{", "}"), ("d1-value", "@misc{P20, note = {", "}}"),
                            ("d1-value-written", "@misc{P20,\n\tnote = {", "}\n}"), ("d1-string", "@string{P21 = {", "}}"),
                            ("d1-preamble", "@preamble{", "}")]:
            for label in ["exact", "exact", "n+1", rng.choice(LABELS)]:
                d2, info = make_d2(rng, "Q")
                cname, n = count_for(rng, info)
                d1, _, _ = make_d1(rng, "P")
                x = rng.choice(["", "", "\n", " ", "\n\n"])
                add("SR-edge", [d1, "\n\n", a, W(label, n, rng.choice(bal)), b], x, d2,
                    ["SR-label:" + label, "SR-block:" + info["kind"], "SR-place:" + wname, "SR-count:" + cname, "SR-tail:" + info["tail"]])
        for wname, a, b in [("d2-comment", "@comment{", "}"), ("d2-value", "@misc{Q20, note = {", "}}"),
                            ("d2-value-written", "@misc{Q20,\n\tnote = {", "}\n}"), ("d2-string", "@string{Q21 = {", "}}"),
                            ("d2-free-below-first", "@misc{Q20, a = {b}}\n", ""), ("d2-free-below-first-blank", "@comment{c}\n\n", "")]:
            for label in ["exact", "exact", "n-1", rng.choice(LABELS)]:
                rest, info = make_d2(rng, "Q")
                cname, n = count_for(rng, info)
                d1, _, _ = make_d1(rng, "P")
                x = [rng.choice(PRES), rng.choice(["", "text", W(rng.choice(LABELS), rng.randint(0, 6))])]
                add("SR-edge", d1, x, [a, W(label, n, rng.choice(bal)), b, rng.choice(["\n", "\n", "\n\n"]), rest],
                    ["SR-label:" + label, "SR-block:" + info["kind"], "SR-place:" + wname, "SR-count:" + cname, "SR-tail:" + info["tail"]])

    # ---- SR-written: X is what the writer writes for a failed block (warning + raw) - a block that fails in the splitter, a
    # duplicate-field block, a duplicate-key block, a valid block under a stale warning; counts for the block in X or reaching into D2
    for _ in range(2 * mult):
        tr = truncated(rng)
        xblocks = ([("failed:" + st, t) for st, t in tr] + [(kk, t) for kk, t in dupfield_blocks("X") + valid_blocks("X")]
                   + [(pk, pa + "\n\n" + pb) for pk, pa, pb in dupkey_pairs("X")])
        for xkind, xb in xblocks:
            d2, info = make_d2(rng, "Q")
            d1, k1, _ = make_d1(rng, "P")
            lx = len(xb.splitlines())
            gap = rng.choice(["\n", "\n\n", "\n\n", "", "\n\n\n"])
            into = lx + gap.count("\n") + (0 if gap else 1) + info["first"]           # through the first block of D2
            r = rng.random()
            cname, n = ("x-block", lx) if r < 0.5 else (("into-d2", into) if r < 0.8 else ("other", rng.randint(0, into + 2)))
            label = "exact" if rng.random() < 0.7 else rng.choice(LABELS)
            tpl = some_tpl(0.2)
            sepw = rng.choice(["\n", "\n", "\n", "\n\n", " "])
            add("SR-written", d1, [rng.choice(["\n", "\n\n", "", "junk\n"]), W(label, n, tpl), sepw, xb, gap], d2,
                ["SR-label:" + label, "SR-block:" + info["kind"], "SR-xblock:" + xkind.split(":")[0], "SR-count:" + cname,
                 "SR-tail:" + info["tail"], "SR-tpl:" + tplname(tpl)], own=not xkind.startswith("failed"))

    # ---- SR-words: the default separator / indent / VAL_SEP / template and the reserved words as X, alone and in lines
    fm = [{"fmt": "sep"}, {"fmt": "indent"}, {"fmt": "valsep"}, {"fmt": "warning-template"}]
    shapes = [lambda p: [p], lambda p: ["\n", p, "\n"], lambda p: [{"fmt": "indent"}, "title", {"fmt": "valsep"}, p, ",\n}"],
              lambda p: [p, {"fmt": "sep"}, p], lambda p: ["}", {"fmt": "sep"}, p], lambda p: ["@misc{X1,\n", {"fmt": "indent"}, "a", {"fmt": "valsep"}, "{", p, "}\n}", {"fmt": "sep"}],
              lambda p: ["% ", p], lambda p: [p, {"fmt": "valsep"}, "{", p, "}"]]
    n_magic = len(selfref.MAGIC_WORDS) + 60
    for _ in range(mult):
        for p in fm + [{"magic": i} for i in range(n_magic)]:
            d2, info = make_d2(rng, "Q")
            d1, k1, _ = make_d1(rng, "P")
            si = rng.randrange(len(shapes)) if "magic" in p else fm.index(p) % len(shapes)
            add("SR-words", d1, shapes[si](p), d2, ["SR-word:" + (p.get("fmt") or "magic"), "SR-shape:%d" % si, "SR-block:" + info["kind"]])
        for p in fm:
            for si in range(len(shapes)):
                d2, info = make_d2(rng, "Q")
                d1, k1, _ = make_d1(rng, "P")
                add("SR-words", d1, shapes[si](p), d2, ["SR-word:" + p["fmt"], "SR-shape:%d" % si, "SR-block:" + info["kind"]])

    # ---- SR-cycle: what arises by itself - parse -> write repeated 2, 3, 4 times, several formats, both stacks
    def x_source(d2w=None):
        tr = truncated(rng)
        pool = ([t for _, t in rng.sample(tr, 3)] + [t for _, t in dupfield_blocks("X")] + [pa + rng.choice(["\n\n", "\n"]) + pb for _, pa, pb in dupkey_pairs("X")]
                + [t for _, t in rng.sample(valid_blocks("X"), 3)] + ["free text", "% a comment line"])
        items = [rng.choice(pool) for _ in range(rng.randint(1, 4))]
        seen, out = set(), []
        for it in items:
            if it not in seen:
                seen.add(it)
                out.append(it)
        parts = []
        for it in out:
            if rng.random() < 0.25:
                parts += [W(rng.choice(["exact", "exact", "n+1", "twice"]), len(it.splitlines())), "\n"]      # a warning already there
            parts += [it, rng.choice(["\n\n", "\n\n", "\n", "\n\n\n"])]
        if d2w is not None and rng.random() < 0.4:
            # a warning left behind at the end (the failed block below it was deleted or repaired): it announces the lines
            # of the first block of D2 AS WRITTEN in this format, give or take
            parts += [W(rng.choice(["exact", "exact", "exact", "n-1", "n+1", "twice"]), {"first-block-of": d2w, "plus": rng.choice([0, 0, 0, 0, 1, -1])}), "\n\n"]
        return parts

    def cyc(src, k, fspec, stack):
        return {"cycle": {"src": src, "k": k, "fmt": fspec, "stack": stack}}

    for _ in range(mult):
        for fname, fspec in FORMATS:
            for k in (2, 3, 4):
                for form in ("x", "all", "whole"):
                    stack = "default" if rng.random() < 0.3 else "empty"
                    # the written D2 must start with its first block: no warning line in front of it
                    d2, info = make_d2(rng, "Q", first=None if form == "x" else rng.choice(valid_blocks("Q")))
                    d1, k1, _ = make_d1(rng, "P")
                    xs = x_source([cyc([d2], k, fspec, stack)] if form != "x" or rng.random() < 0.5 else [d2])
                    tags = ["SR-cycle:%d" % k, "SR-format:" + fname, "SR-form:" + form, "SR-stack:" + stack, "SR-block:" + info["kind"], "SR-d1-last:" + k1]
                    sep = [fspec["block_separator"]] if "block_separator" in fspec else [{"fmt": "sep"}]
                    if form == "x":
                        lead = rng.choice(["\n", "\n\n", ""])
                        add("SR-cycle", d1, [lead, cyc(xs, k, fspec, stack)], d2, tags, glue=rng.choice(["\n", "auto", "auto"]), own=False)
                    elif form == "all":
                        add("SR-cycle", [cyc([d1], k, fspec, stack)], sep + [cyc(xs, k, fspec, stack)] + sep, [cyc([d2], k, fspec, stack)],
                            tags, glue="auto", own=False)
                    else:
                        cases.append({"stream": "SR-cycle", "input": {
                            "whole": {"d1": d1, "x": xs, "d2": d2, "k": k, "fmt": fspec, "stack": stack, "sep": sep},
                            "d1": [cyc([d1], k, fspec, stack)], "x": sep + [cyc(xs, k, fspec, stack)] + sep, "d2": [cyc([d2], k, fspec, stack)],
                            "glue": "auto", "own": False, "sr": tags}})
    return cases


# ------------------------------------------------------------------ child side: parts -> text, from the tree under test
def _format(spec):
    from bibtexparser.writer import BibtexFormat
    f = BibtexFormat()
    for k, v in (spec or {}).items():
        setattr(f, k, v)                       # the public setters of BibtexFormat
    return f


class _Tpl:
    def __init__(self, t):
        self.parsing_failed_comment = t


def _warning(label, n, tpl):
    lines = dict(selfref.warning_lines(n, _Tpl(tpl) if tpl is not None else None))
    return lines.get(label, lines["exact"])      # a label that coincides with an earlier one for this n is listed once only


def _fmt_text(what):
    if what == "valsep":
        try:
            import bibtexparser.writer as w
            return w.VAL_SEP if isinstance(w.VAL_SEP, str) else " = "
        except Exception:  # noqa: BLE001 - the constant is optional; its pinned value is the fallback
            return " = "
    f = _format(None)
    return {"sep": f.block_separator, "indent": f.indent, "warning-template": f.parsing_failed_comment}[what]


def cycle(text, k, fspec, stack, notes):
    """k rounds of parse -> write through the public entry points; what is handed on is the last text that could be made"""
    import bibtexparser
    try:
        f = _format(fspec)
        for _ in range(k):
            if stack == "empty":
                lib = bibtexparser.parse_string(text, parse_stack=[])
                text = bibtexparser.write_string(lib, unparse_stack=[], bibtex_format=f)
            else:
                lib = bibtexparser.parse_string(text)
                text = bibtexparser.write_string(lib, bibtex_format=f)
    except Exception as e:  # noqa: BLE001 - the rounds only MAKE the input; that they never raise is C01's and C05's statement
        notes.append("SR-cycle-raised:" + type(e).__name__)
    return text


def _first_block_lines(text):
    """lines of the first block of a document, as the tree under test cuts it (only used to MAKE an input)"""
    try:
        import bibtexparser
        return len(bibtexparser.parse_string(text, parse_stack=[]).blocks[0].raw.splitlines())
    except Exception:  # noqa: BLE001
        return 1


def mat(parts, notes):
    if isinstance(parts, str):
        return parts
    out = []
    for p in parts:
        if isinstance(p, str):
            out.append(p)
        elif "w" in p:
            n = p["n"]
            if isinstance(n, dict):
                n = _first_block_lines(mat(n["first-block-of"], notes)) + n.get("plus", 0)
            out.append(_warning(p["w"], n, p.get("tpl")))
        elif "fmt" in p:
            out.append(_fmt_text(p["fmt"]))
        elif "magic" in p:
            words = selfref.magic_for_tree()
            out.append(words[p["magic"] % len(words)])
        elif "cycle" in p:
            c = p["cycle"]
            out.append(cycle(mat(c["src"], notes), c["k"], c["fmt"], c["stack"], notes))
        else:
            raise ValueError("unknown part %r" % (p,))
    return "".join(out)


def materialise(inp):
    """-> (d1, x, glue, d2, notes).  D2 always starts at a line start."""
    notes = []
    d1, x, d2 = mat(inp["d1"], notes), mat(inp["x"], notes), mat(inp["d2"], notes)
    w = inp.get("whole")
    if w:
        # the whole document D1 + X + D2 goes through the rounds; it is then cut into the written D1, the written D2 and what is between
        sep = mat(w["sep"], notes)
        whole = cycle(mat(w["d1"], notes) + "\n\n" + mat(w["x"], notes) + "\n\n" + mat(w["d2"], notes), w["k"], w["fmt"], w["stack"], notes)
        if whole.startswith(d1) and whole.endswith(d2) and len(whole) >= len(d1) + len(d2) and d2.startswith("@") and \
                (len(whole) == len(d1) + len(d2) or whole[len(whole) - len(d2) - 1] == "\n"):
            x = whole[len(d1):len(whole) - len(d2)]
            notes.append("SR-whole:cut")
        else:
            notes.append("SR-whole:written-apart")
    glue = inp.get("glue", "\n")
    if glue == "auto":
        glue = "" if (d1 + x).endswith("\n") else "\n"
    if not d2.startswith("@"):
        # a written D2 that does not start with its first block is no suffix document in the sense of the property: it is
        # arbitrary text then, and only the first clause (the prefix is unchanged) is stated
        notes.append("SR-d2-not-a-block-start")
        x, glue, d2 = x + glue + d2, "", ""
    return d1, x, glue, d2, notes
