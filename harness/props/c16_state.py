"""C16, stream family "state": blocks of every class carrying every kind of state that equality sees.

'Exactly the input blocks, none lost, duplicated or ALTERED': a sort that re-creates blocks instead of copying them can drop what
it did not think of (seeding round 9, C16-i: parser metadata of every class but Entry).  The libraries here hold comments
(explicit, implicit), preambles, @strings, entries, failed / duplicate-key / duplicate-field / middleware-error blocks with
  * parser metadata: set through set_parser_metadata / the parser_metadata mapping, on the block or on the block a failed block
    wraps; strings, numbers, booleans, None, empty and falsy values, lists, tuples, NameParts, nested and shared mutable values;
    left behind by the middlewares of a real parse stack (default stack: removed enclosing on @strings and entries, resolved
    references; field sorting, month, name, LaTeX, key-normalising, enclosing-adding middlewares; a user BlockMiddleware that
    marks every block);
  * start_line / raw that are None, 0, empty, large; field line numbers likewise;
  * values that are no str (int, list, NameParts, None, nested, str / int subclasses), in entries, @strings, preambles, comments;
  * Field subclasses, block subclasses, an attribute the caller put on the instance.
The verdict comes from the property text: the result must read, block by block, like THE stable arrangement by (type rank, key)
(unique, Base/StableSort.v) of a deep copy of the input taken before the call, compared
  (1) attribute by attribute through the public interface (class, start_line, raw, parser_metadata, key, value, comment,
      entry type, fields with class / key / value / line, error class and arguments, wrapped and previous block, duplicate keys,
      caller's attributes), type-exact;
  (2) by the instance state as a whole (what Block.__eq__ looks at), exceptions compared by class and arguments;
  (3) with Block.__eq__ itself, both ways round, wherever no exception object is held (two exceptions are never equal);
and the input library must hold the same objects, unchanged under (1)-(3).  Cases without user classes / caller's attributes /
values the wire format has no shape for are also compared with the model (op 50); the others are oracle-only."""
import copy
import dataclasses
import json

MD_KEYS = ["removed_enclosing", "origin", "MonthIntMiddleware", "k", "", "sorted_fields_custom", "ResolveStringReferences"]
N_MD_VALUES = 16
MD_VALUE_NAMES = ["str-quote", "str-brace", "dict", "list", "nested", "int", "true", "none", "empty-dict", "empty-str", "tuple",
                  "nameparts", "shared-list", "empty-list", "zero", "false"]
LINES = [None, 0, 2 ** 40]
RAWS = [None, "", "@x{\n  multi = {line \u00e9\u4e2d},\n}\n" * 3]
FLINES = [None, 0, 10 ** 9]
VAL_NAMES = ["str", "int", "list", "nameparts", "none", "nested", "bool", "str-subclass", "int-subclass"]
WHERE_NAMES = ["block", "wrapped-block", "caller-attribute"]

# sources of the parsed libraries: both enclosings, references, concatenations, months, names, everything that fails
SPIECES = ['% header\n', '@string{jb = "Journal B"}\n', '@string{ja = {Journal A}}\n', '@string{jc = jb # " (C)"}\n',
           '@preamble{"\\newcommand{\\noop}[1]{}"}\n', '@preamble{{braced}}\n\n', '@comment{about}\n', '\n% two\n% lines\n\n',
           '@article{smith, title = {T}, journal = jb, year = 2001, month = jan}\n',
           '@book{adams, title = "A", year = {1999}, author = {Adams, Ann and Bob Brown}, month = "March"}\n',
           '@book{adams, title = "A again"}\n', '@misc{zed, author = {A, B, C, D}, note = ja # " and " # jb}\n',
           '@article{dupf, t = {1}, t = {2}}\n', '@misc{undef, journal = nosuch}\n', '@article{, title = {empty key}}\n',
           '@string{jb = "again"}\n', '@misc{k12, month = 12, year = 2020, Title = {{Double} \\"o}}\n', '@article{broken, t = {1\n',
           '@Book{Smith, author = "von Last, Jr, First", month = feb # "~1"}\n']
EXTRAS = ["sortfields", "sortcustom", "monthint", "monthlong", "monthabbr", "coauthors", "nameparts", "mergeparts", "latexdec",
          "normkeys", "addenc", "markall", "markcopy"]


# ------------------------------------------------------------------------------------------------------------- generation
def item(u, line="u", raw="u", val=0, fsub=0, fline=1, sub=0):
    return {"u": u, "line": line, "raw": raw, "val": val, "fsub": fsub, "fline": fline, "sub": sub}


def generate_state(rng, quick, maxlen, cases, orders, all_orders):
    """Appended after all older streams (their cases stay what they were)."""
    from . import c16 as base
    default = list(base.DEFAULT_ORDER)

    def add(stream, items, marks, order, preserve, times=1):
        cases.append({"stream": stream, "input": {"state": "built", "items": items, "marks": marks, "order": list(order),
                                                   "preserve": bool(preserve), "times": times}})

    def filler(n):
        return [item(rng.choice([0, 1, 2, 3, 4, 5, 6, 7, 8, 9, 10, 11, 5, 8])) for _ in range(n)]

    def mark(pos, where=0, key=None, val=None, how=None):
        return [pos, where, rng.randrange(len(MD_KEYS)) if key is None else key, rng.randrange(N_MD_VALUES) if val is None else val,
                rng.randint(0, 1) if how is None else how]

    # --- every block kind x every kind of state, one at a time, among other blocks (with and without a comment run above)
    # kinds 0..10: the universe of make_block; 12 / 13: an entry / a @string whose key is taken (a DuplicateBlockKeyBlock)
    kinds = [0, 1, 2, 3, 4, 5, 6, 7, 8, 9, 10, 12, 13]
    flip = 0
    for kind in kinds:
        holds_entry = kind in (0, 1, 2, 9, 10, 12)
        variants = []          # (item of the block, marks on it as (where, key, val, how))
        u = {12: 1, 13: 3}.get(kind, kind)
        for v in range(N_MD_VALUES):
            variants.append((item(u), [(0, v % len(MD_KEYS), v, v % 2)]))
        variants.append((item(u), [(0, 0, 0, 0), (0, 1, 4, 1)]))
        if kind in (9, 10, 12, 13):
            for v in (0, 2, 4, 12):
                variants.append((item(u), [(1, 0, v, v % 2)]))
            variants.append((item(u), [(0, 0, 2, 0), (1, 0, 3, 1)]))
        for v in (0, 3):
            variants.append((item(u), [(2, 3, v, 0)]))
        for ln in LINES:
            variants.append((item(u, line=ln), []))
        for rw in RAWS:
            variants.append((item(u, raw=rw), []))
        variants.append((item(u, line=None, raw=None), [(0, 0, 0, 0)]))
        n_val = len(VAL_NAMES) if holds_entry or kind in (3, 4, 13) else 3
        for v in range(1, n_val):
            variants.append((item(u, val=v), []))
        if holds_entry:
            for fs in (1, 2):
                variants.append((item(u, fsub=fs), []))
            for fl in FLINES:
                variants.append((item(u, fline=fl), []))
            variants.append((item(u, fsub=2, val=3, fline=None), [(0, 0, 2, 0)]))
        if u in base.U_CLASS and kind < 12:
            variants.append((item(u, sub=1), []))
            variants.append((item(u, sub=1), [(0, 0, 0, 0)]))
        for it, ms in variants:
            for order in (default, rng.choice(all_orders)):
                flip ^= 1
                run = [item(c) for c in rng.choice([(), (), (6,), (7, 6)])]
                pre = filler(rng.randint(0, 1))
                if kind == 12:
                    pre = pre + [item(1)]
                if kind == 13:
                    pre = pre + [item(3)]
                items = pre + run + [dict(it)] + filler(rng.randint(1, 2))
                pos = len(pre) + len(run)
                add("state-each", items, [[pos, w, k, v, h] for w, k, v, h in ms], order, flip,
                    times=2 if rng.random() < 0.1 else 1)
    # --- sampled libraries: any number of blocks carry state of several kinds at once
    n_s = 450 if quick else 30000
    for _ in range(n_s):
        n = rng.randint(2, maxlen + 1)
        p = rng.choice([0.15, 0.4, 0.8])
        items = []
        for _ in range(n):
            u = rng.choice((6, 7)) if rng.random() < 0.3 else rng.choice([0, 1, 2, 3, 4, 5, 8, 9, 10, 11, 1, 3, 5])
            it = item(u)
            if rng.random() < p * 0.5:
                it["line"] = rng.choice(LINES)
            if rng.random() < p * 0.5:
                it["raw"] = rng.choice(RAWS)
            if rng.random() < p * 0.5:
                it["val"] = rng.randrange(len(VAL_NAMES))
            if rng.random() < p * 0.25:
                it["fsub"] = rng.randint(1, 2)
            if rng.random() < p * 0.25:
                it["fline"] = rng.choice(FLINES)
            if rng.random() < 0.06:
                it["sub"] = 1
            items.append(it)
        marks = []
        for pos in range(n):
            while rng.random() < p * 0.6:
                marks.append(mark(pos, where=rng.choice([0, 0, 0, 0, 1, 1, 2] if rng.random() < 0.3 else [0, 0, 0, 1])))
        add("state-sampled", items, marks, rng.choice(all_orders), rng.randint(0, 1), times=rng.choice([1, 1, 1, 2]))

    # --- parsed libraries: what the middlewares of a real stack leave behind (+ marks put on afterwards)
    def add_parsed(stream, src, stack, extra, marks, order, preserve, times=1):
        cases.append({"stream": stream, "input": {"state": "parsed", "src": src, "stack": stack, "extra": extra, "marks": marks,
                                                   "order": list(order), "preserve": bool(preserve), "times": times}})
    everything = list(range(len(SPIECES)))
    for stack in ("default", "empty"):
        for extra in [[]] + [[x] for x in EXTRAS] + [["sortfields", "monthint", "nameparts", "markall"]]:
            for preserve in ((1, 0) if not quick else (1,) if (len(extra) + (stack == "empty")) % 2 else (0,)):
                add_parsed("state-parsed-each", everything, stack, extra, [], default if preserve else rng.choice(all_orders), preserve)
    n_p = 250 if quick else 20000
    for _ in range(n_p):
        src = [rng.randrange(len(SPIECES)) for _ in range(rng.randint(2, 6 if quick else 9))]
        extra = [rng.choice(EXTRAS) for _ in range(rng.choice([0, 0, 1, 1, 2]))]
        marks = [mark(rng.randrange(12), where=rng.choice([0, 0, 0, 1, 2])) for _ in range(rng.choice([0, 0, 1, 2]))]
        add_parsed("state-parsed", src, "default" if rng.random() < 0.75 else "empty", extra, marks, rng.choice(all_orders),
                   rng.randint(0, 1), times=rng.choice([1, 1, 1, 2]))


def shrink_state(case):
    inp = case["input"]
    out = []

    def mk(**kw):
        d = dict(inp)
        d.update(kw)
        out.append({"stream": "shrink", "input": d})
    marks, order = inp["marks"], inp["order"]
    if inp["state"] == "built":
        items = inp["items"]
        for i in range(len(items)):
            ms = [[m[0] - 1 if m[0] > i else m[0]] + m[1:] for m in marks if m[0] != i]
            mk(items=items[:i] + items[i + 1:], marks=ms)
        for i, it in enumerate(items):
            plain = item(it["u"])
            for k in plain:
                if it[k] != plain[k]:
                    d = dict(it)
                    d[k] = plain[k]
                    mk(items=items[:i] + [d] + items[i + 1:])
    else:
        src, extra = inp["src"], inp["extra"]
        if not marks:
            for i in range(len(src)):
                mk(src=src[:i] + src[i + 1:])
        for i in range(len(extra)):
            mk(extra=extra[:i] + extra[i + 1:])
    for i in range(len(marks)):
        mk(marks=marks[:i] + marks[i + 1:])
    for i in range(len(order)):
        mk(order=order[:i] + order[i + 1:])
    if inp["times"] > 1:
        mk(times=1)
    return out


# ------------------------------------------------------------------------------------------------------ implementation side
def md_value(code, uid, shared):
    from bibtexparser.middlewares import NameParts
    if code == 12:
        return shared
    return ['"', "{", {"title": "{", "year": "no-enclosing"}, ["me"], {"a": [1, {"b": None, "c": ["x%d" % uid]}], "d": []}, 7, True,
            None, {}, "", (1, "t"), NameParts(["A"], [], ["B%d" % uid], []), None, [], 0, False][code]


def build_block(it, uid, uc):
    """Universe block u (c16.make_block) with identity uid in its content; line / raw / value kinds / field class as the item says."""
    from bibtexparser.model import (Entry, Field, String, Preamble, ExplicitComment, ImplicitComment, ParsingFailedBlock,
                                    DuplicateFieldKeyBlock, MiddlewareErrorBlock)
    from bibtexparser.middlewares import NameParts
    u, val = it["u"], it["val"]
    line = uid if it["line"] == "u" else it["line"]
    raw = "r%d" % uid if it["raw"] == "u" else it["raw"]
    other = [None, 100 + uid, ["s", "l%d" % uid], [NameParts(["F%d" % uid], ["von"], ["L"], []), NameParts([], [], ["M"], ["Jr"])], None,
             [1, ["y", {"z": uid}], ()], True, uc.StrSub("sub%d" % uid), uc.IntSub(uid)][val]

    def fields(first, second=None):
        fl = it["fline"]
        fs = [(uc.SubField if it["fsub"] else Field)("t", first, fl)]
        if second is not None:
            fs.append((uc.SubField if it["fsub"] == 2 else Field)("t", second, fl if fl is None else fl + 1))
        if val:
            fs.append((uc.SubField if it["fsub"] == 2 else Field)(["", "year", "kw", "author", "n", "x", "b", "s", "i"][val], other, fl))
        return fs
    if u in (0, 1, 2, 11):
        b = Entry("article", {0: "b", 1: "a", 2: "", 11: "B"}[u], fields("v%d" % uid), start_line=line, raw=raw)
    elif u in (3, 4):
        b = String({3: "a", 4: "b"}[u], "s%d" % uid if not val else other, line, raw)
    elif u == 5:
        b = Preamble(["p%d" % uid, 500 + uid, ["p", uid]][val % 3], line, raw)
    elif u in (6, 7):
        text = ("ec%d" if u == 6 else "ic%d") % uid
        text = text if not val % 3 else [None, 600 + uid, [text]][val % 3]
        b = (ExplicitComment if u == 6 else ImplicitComment)(text, line, raw)
    elif u == 8:
        if val % 3 == 1:
            b = ParsingFailedBlock(ValueError("bad", uid, ["arg"]), line, raw)
        elif val % 3 == 2:
            b = ParsingFailedBlock(Exception("boom"), line, raw, ignore_error_block=Entry("misc", "w", fields("w%d" % uid), line, raw))
        else:
            b = ParsingFailedBlock(Exception("boom"), line, raw)
    elif u == 9:
        b = DuplicateFieldKeyBlock({"t"}, Entry("misc", "a", fields("1", "2"), start_line=line, raw=raw))
    elif u == 10:
        b = MiddlewareErrorBlock(Entry("misc", "c", fields("1"), start_line=line, raw=raw), ValueError("m"))
    else:
        raise ValueError(u)
    return uc.as_sub(b) if it["sub"] else b


def stack_of(names):
    import bibtexparser.middlewares as m

    class MarkEveryBlock(m.BlockMiddleware):
        """What any user middleware may do: leave a note (a nested, mutable value) on every block, whatever its class."""

        def __init__(self, allow_inplace_modification=True):
            super().__init__(allow_inplace_modification=allow_inplace_modification, allow_parallel_execution=False)
            self.count = 0

        def transform_block(self, block, library):
            out = super().transform_block(block, library)
            self.count += 1
            out.set_parser_metadata(self.metadata_key(), {"class": type(out).__name__, "seen": [self.count, {"n": None}]})
            return out

        def transform_entry(self, entry, library):
            return entry

        def transform_string(self, string, library):
            return string

        def transform_preamble(self, preamble, library):
            return preamble

        def transform_explicit_comment(self, explicit_comment, library):
            return explicit_comment

        def transform_implicit_comment(self, implicit_comment, library):
            return implicit_comment
    res = []
    for n in names:
        res += {"sortfields": lambda: [m.SortFieldsAlphabeticallyMiddleware()],
                "sortcustom": lambda: [m.SortFieldsCustomMiddleware(order=("year", "title"))],
                "monthint": lambda: [m.MonthIntMiddleware()], "monthlong": lambda: [m.MonthLongStringMiddleware()],
                "monthabbr": lambda: [m.MonthAbbreviationMiddleware()], "coauthors": lambda: [m.SeparateCoAuthors()],
                "nameparts": lambda: [m.SeparateCoAuthors(), m.SplitNameParts()],
                "mergeparts": lambda: [m.SeparateCoAuthors(), m.SplitNameParts(), m.MergeNameParts()],
                "latexdec": lambda: [m.LatexDecodingMiddleware()], "normkeys": lambda: [m.NormalizeFieldKeys()],
                "addenc": lambda: [m.AddEnclosingMiddleware(reuse_previous_enclosing=True, default_enclosing="{", enclose_integers=False)],
                "markall": lambda: [MarkEveryBlock()], "markcopy": lambda: [MarkEveryBlock(False)]}[n]()
    return res


def parse(inp, notes):
    import bibtexparser
    text = "".join(SPIECES[k] for k in inp["src"])
    try:
        if inp["stack"] == "default":
            return bibtexparser.parse_string(text, append_middleware=stack_of(inp["extra"]))
        return bibtexparser.parse_string(text, parse_stack=stack_of(inp["extra"]))
    except Exception as e:  # noqa: BLE001 - a stack that refuses the source is not C16's subject: sort the plain parse
        notes.append("state:stack-refused:" + type(e).__name__)
        return bibtexparser.parse_string(text) if inp["stack"] == "default" else bibtexparser.parse_string(text, parse_stack=[])


def no_wire_shape(e):
    import enc
    if e[0] == 99:
        return True
    if e[0] == enc.B_MWERR or e[0] == enc.B_DUPFIELD:
        return no_wire_shape(e[3])
    if e[0] == enc.B_DUPKEY:
        return no_wire_shape(e[3]) or no_wire_shape(e[4])
    return False


def val_tag(it):
    """Which value that is no plain str an item puts where ('' if none)."""
    u, val = it["u"], it["val"]
    if u in (5, 6, 7):
        return "" if not val % 3 else "%s-in-%s" % (["", "int", "list"][val % 3], {5: "Preamble", 6: "ExplicitComment", 7: "ImplicitComment"}[u])
    if u == 8:
        return ["", "error-with-arguments", "failed-block-wrapping-a-block"][val % 3]
    if not val:
        return ""
    return "%s-in-%s" % (VAL_NAMES[val], "String" if u in (3, 4) else "field")


def tname(x):
    t = type(x)
    return t.__name__ if t.__module__ in ("builtins", "bibtexparser.model") else t.__module__.split(".")[-1] + "." + t.__name__


def view(x):
    """Type-exact description of a value / field / block through the PUBLIC interface only, as nested JSON:
    {"t": class, "r": repr} scalars, {"t", "items"} sequences and sets, {"t", "pairs"} mappings, {"t", "attrs"} objects."""
    t = type(x)
    if t is str or t is int or x is None or t is bool:
        return {"t": t.__name__, "r": repr(x)}
    if t is list or t is tuple:
        return {"t": t.__name__, "items": [view(y) for y in x]}
    if t is dict:
        return {"t": "dict", "pairs": sorted(([view(k), view(v)] for k, v in x.items()), key=canon)}
    M = _model()

    def obj(pairs):
        return {"t": tname(x), "attrs": [[k, view(v)] for k, v in pairs]}
    if isinstance(x, M.Field):
        return obj([("key", x.key), ("value", x.value), ("start_line", x.start_line)])
    if isinstance(x, M.Block):
        d = [("start_line", x.start_line), ("raw", x.raw), ("parser_metadata", x.parser_metadata)]
        if isinstance(x, M.Entry):
            d += [("entry_type", x.entry_type), ("key", x.key), ("fields", x.fields)]
        elif isinstance(x, M.String):
            d += [("key", x.key), ("value", x.value)]
        elif isinstance(x, M.Preamble):
            d += [("value", x.value)]
        elif isinstance(x, (M.ExplicitComment, M.ImplicitComment)):
            d += [("comment", x.comment)]
        elif isinstance(x, M.ParsingFailedBlock):
            d += [("error", x.error), ("ignore_error_block", x.ignore_error_block)]
            if isinstance(x, M.DuplicateBlockKeyBlock):
                d += [("key", x.key), ("previous_block", x.previous_block)]
            if isinstance(x, M.DuplicateFieldKeyBlock):
                d += [("duplicate_keys", x.duplicate_keys)]
        d += [(k, v) for k, v in sorted(vars(x).items()) if not k.startswith("_")]      # what the caller put on the instance
        return obj(d)
    if isinstance(x, BaseException):
        return obj([("args", list(x.args))])
    if dataclasses.is_dataclass(x) and not isinstance(x, type):
        return obj([(f.name, getattr(x, f.name)) for f in dataclasses.fields(x)])
    if isinstance(x, dict):
        return {"t": tname(x), "pairs": sorted(([view(k), view(v)] for k, v in x.items()), key=canon)}
    if isinstance(x, (list, tuple)):
        return {"t": tname(x), "items": [view(y) for y in x]}
    if isinstance(x, (set, frozenset)):
        return {"t": tname(x), "items": sorted((view(y) for y in x), key=canon)}
    if x is None or isinstance(x, (str, int, float)):
        return {"t": tname(x), "r": repr(x)}
    return {"t": tname(x), "r": "?"}


_M = []


def _model():
    if not _M:
        import bibtexparser.model as M
        _M.append(M)
    return _M[0]


def canon(v):
    return json.dumps(v, sort_keys=True)


def first_diff(a, b, path=""):
    """Where two views differ first: 'path: a != b' ('' if they do not)."""
    if a == b:
        return ""
    here = path or "block"
    if a["t"] != b["t"]:
        return "%s: class %s != %s" % (here, a["t"], b["t"])
    if "attrs" in a and "attrs" in b:
        na, nb = [k for k, _ in a["attrs"]], [k for k, _ in b["attrs"]]
        if na != nb:
            return "%s: attributes %r != %r" % (here, na, nb)
        for (k, x), (_, y) in zip(a["attrs"], b["attrs"]):
            d = first_diff(x, y, (path + "." if path else "") + k)
            if d:
                return d
    if "items" in a and "items" in b and len(a["items"]) == len(b["items"]):
        for i, (x, y) in enumerate(zip(a["items"], b["items"])):
            d = first_diff(x, y, "%s[%d]" % (path, i))
            if d:
                return d
    if "pairs" in a and "pairs" in b and [canon(k) for k, _ in a["pairs"]] == [canon(k) for k, _ in b["pairs"]]:
        for (k, x), (_, y) in zip(a["pairs"], b["pairs"]):
            d = first_diff(x, y, "%s[%s]" % (path, k.get("r", "?")))
            if d:
                return d

    return "%s: %s != %s" % (here, render(a)[:200], render(b)[:200])


def render(v):
    """A view, written the way Python would print the value."""
    if "r" in v:
        return v["r"]
    if "items" in v:
        body = ", ".join(render(x) for x in v["items"])
        return {"list": "[%s]", "tuple": "(%s)"}.get(v["t"], v["t"] + "(%s)") % body
    if "pairs" in v:
        return ("{%s}" if v["t"] == "dict" else v["t"] + "({%s})") % ", ".join("%s: %s" % (render(k), render(x)) for k, x in v["pairs"])
    return "%s(%s)" % (v["t"], ", ".join("%s=%s" % (k, render(x)) for k, x in v["attrs"]))


def eq_like(a, b):
    """What Block.__eq__ / Field.__eq__ look at - the instance state as a whole - with exception objects compared by class and
    arguments (two exception objects are never equal), and exact types throughout."""
    ta = type(a)
    if ta is str or ta is int or a is None or ta is bool:
        return ta is type(b) and a == b
    M = _model()
    if isinstance(a, (M.Field, M.Block)) or isinstance(b, (M.Field, M.Block)):
        return type(a) is type(b) and eq_like(vars(a), vars(b))
    if isinstance(a, BaseException) or isinstance(b, BaseException):
        return type(a) is type(b) and eq_like(list(a.args), list(b.args))
    if isinstance(a, dict) and isinstance(b, dict):
        return type(a) is type(b) and a.keys() == b.keys() and all(eq_like(a[k], b[k]) for k in a)
    if isinstance(a, (list, tuple)) and isinstance(b, (list, tuple)):
        return type(a) is type(b) and len(a) == len(b) and all(eq_like(x, y) for x, y in zip(a, b))
    return type(a) is type(b) and a == b


def holds_exception(b):
    import bibtexparser.model as M
    return isinstance(b, M.ParsingFailedBlock)


def short(b):
    from . import c16 as base
    s = base.cname(b)[:10]
    for a in ("key", "value", "comment"):
        if hasattr(b, a):
            return "%s:%s" % (s, str(getattr(b, a))[:12])
    return "%s@%s" % (s, b.start_line)


def judge(objs, snapshot, views_before, cur_blocks, out_blocks, names, on):
    """The property text on one application; '' if it holds."""
    from . import c16 as base
    # the input library is unchanged
    if len(cur_blocks) != len(objs) or any(x is not y for x, y in zip(cur_blocks, objs)):
        return "the block list of the input library was changed"
    for i, (b, s) in enumerate(zip(objs, snapshot)):
        v = view(b)
        if v != views_before[i]:
            return "input block %d (%s) was modified: %s" % (i, short(b), first_diff(views_before[i], v))
        if not eq_like(b, s):
            return "input block %d (%s) was modified (instance state differs from the copy taken before the call)" % (i, short(b))
    # exactly the input blocks, in THE stable arrangement, none altered
    arr = base.arrangement(snapshot, names, on)
    want = [snapshot[i] for i in arr]
    vw = [views_before[i] for i in arr]
    out = list(out_blocks)
    vo = [view(b) for b in out]
    jw, jo = [canon(v) for v in vw], [canon(v) for v in vo]
    if jo != jw:
        if sorted(jo) != sorted(jw):
            lost, surplus = list(range(len(jw))), []
            for k, e in enumerate(jo):
                hit = [i for i in lost if jw[i] == e]
                if hit:
                    lost.remove(hit[0])
                else:
                    surplus.append(k)
            detail = ""
            if lost:
                i = lost[0]
                near = [k for k in surplus if vo[k]["t"] == vw[i]["t"]]
                if near:
                    k = min(near, key=lambda k: sum(1 for x, y in zip(vo[k]["attrs"], vw[i]["attrs"]) if x != y))
                    detail = "; input block %s came out altered, %s (input != output)" % (short(want[i]), first_diff(vw[i], vo[k]))
                else:
                    detail = "; input block %s is missing" % short(want[i])
            elif surplus:
                detail = "; block %s is not an input block" % short(out[surplus[0]])
            return "blocks lost, duplicated or altered: %d in, %d out%s: %r -> %r" % (
                len(jw), len(jo), detail, [short(b) for b in snapshot], [short(b) for b in out])
        return "not the stable arrangement by (type rank, key)%s: %r -> %r, expected %r" % (
            " of blocks with their comment runs" if on else "", [short(b) for b in snapshot], [short(b) for b in out],
            [short(b) for b in want])
    for p, (g, w) in enumerate(zip(out, want)):
        if not eq_like(g, w):
            return "output block %d (%s) does not have the instance state of the input block (what Block.__eq__ compares)" % (p, short(g))
        if not holds_exception(g) and not (g == w and w == g):
            return "output block %d (%s) is not equal (Block.__eq__) to the input block" % (p, short(g))
    return ""


def impl_state(case):
    import enc
    import implutil
    import bibtexparser.model as M
    from bibtexparser.library import Library
    from bibtexparser.middlewares import SortBlocksByTypeAndKeyMiddleware
    from . import c16 as base
    from . import userclasses
    uc = userclasses.get()
    inp = case["input"]
    order, preserve, times = inp["order"], inp["preserve"], inp["times"]
    tags, notes = [], []
    built = inp["state"] == "built"
    if built:
        lib = Library([build_block(it, uid, uc) for uid, it in enumerate(inp["items"])])
    else:
        lib = parse(inp, notes)
    user_things = any(it["sub"] or it["fsub"] or it["val"] in (7, 8) for it in inp["items"]) if built else False
    shared = ["shared", [1]]
    n = len(lib.blocks)
    marked = set()
    for pos, where, key, val, how in inp["marks"]:
        if not n:
            break
        b = lib.blocks[pos % n]
        if where == 1 and getattr(b, "ignore_error_block", None) is not None:
            b = b.ignore_error_block
            tags.append("state:md-on-wrapped-block")
        value = md_value(val, pos, shared)
        if where == 2:
            b.user_note = value
            user_things = True
            tags.append("state:caller-attribute")
        elif how == 0:
            b.set_parser_metadata(MD_KEYS[key], value)
        else:
            b.parser_metadata[MD_KEYS[key]] = value
        if where != 2:
            tags.append("state:md-value=" + MD_VALUE_NAMES[val])
            tags.append("state:md-set-by=" + ("set_parser_metadata" if how == 0 else "mapping"))
        marked.add(pos % n)
    try:
        sx_blocks = None if user_things else [enc.enc_block(b) for b in lib.blocks]
    except Exception:  # noqa: BLE001 - a value the wire format has no shape for (a preamble that is a number): oracle only
        sx_blocks = None
    if sx_blocks is not None and any(no_wire_shape(e) for e in sx_blocks):
        sx_blocks = None                 # a plain ParsingFailedBlock that wraps a block: the model has no such block
    modelled = sx_blocks is not None
    on = bool(preserve)
    names = [base.CLASS_NAMES[c] for c in order]
    classes = tuple(getattr(M, base.CLASS_NAMES[c]) if c < 10 else getattr(uc, base.CLASS_NAMES[c]) for c in order)
    rec = {"sx_in": [50, times, int(on), list(order), sx_blocks] if modelled else None, "sx_out": None,
           "key": json.dumps(inp, sort_keys=True), "nontrivial": n >= 2, "tags": tags}
    # what the library holds (distribution)
    tags.append("state:" + inp["state"])
    tags.append("state:model-compared" if modelled else "state:oracle-only")
    for b in lib.blocks:
        inner = getattr(b, "ignore_error_block", None)
        if b.parser_metadata:
            tags.append("state:md-on-" + base.cname(b))
            for k in b.parser_metadata:
                if not built:
                    tags.append("state:md-key=" + (k or "''"))
        if inner is not None and inner.parser_metadata:
            tags.append("state:md-on-block-wrapped-by-" + base.cname(b))
    if built:
        for it in inp["items"]:
            for what, vals in (("line", LINES), ("raw", RAWS)):
                if it[what] != "u":
                    tags.append("state:%s=%s" % ("start_line" if what == "line" else what, ["none", "zero" if what == "line" else "empty", "large"][vals.index(it[what])]))
            vt = val_tag(it)
            if vt:
                tags.append("state:value=" + vt)
            holds_fields = it["u"] in (0, 1, 2, 11, 9, 10) or (it["u"] == 8 and it["val"] % 3 == 2)
            if it["fsub"] and holds_fields:
                tags.append("state:field-subclass")
            if it["fline"] != 1 and holds_fields:
                tags.append("state:field-line=" + ("none" if it["fline"] is None else "zero" if it["fline"] == 0 else "large"))
            if it["sub"]:
                tags.append("state:block-subclass")
    else:
        tags.append("state:stack=" + inp["stack"])
        for x in inp["extra"]:
            tags.append("state:mw=" + x)
    tags.extend(notes)
    rec["tags"] = tags = sorted(set(tags))
    mw = implutil.guarded(lambda: SortBlocksByTypeAndKeyMiddleware(block_type_order=classes, preserve_comments_on_top=preserve))
    if mw[0] == "exc":
        rec["sx_out"] = implutil.r_exc(mw[1]) if modelled else None
        rec["oracle"] = {"ok": False, "detail": "constructor raised %s for order %r" % (mw[2], names)}
        rec["summary"] = "constructor raised " + mw[2]
        return rec
    mw = mw[1]
    complaints = []
    cur = lib
    for t in range(times):
        objs = list(cur.blocks)
        snapshot = copy.deepcopy(objs)
        views_before = [view(b) for b in objs]
        r = implutil.guarded(lambda: mw.transform(cur))
        if r[0] == "exc":
            rec["sx_out"] = implutil.r_exc(r[1]) if modelled else None
            rec["oracle"] = {"ok": False, "detail": "transform raised %s" % r[2]}
            rec["summary"] = "raised " + r[2]
            return rec
        out = r[1]
        if out is cur:
            complaints.append("the input library object was returned")
        if not hasattr(out, "blocks"):
            complaints.append("the result is no library: %s" % type(out).__name__)
            break
        c = judge(objs, snapshot, views_before, cur.blocks, out.blocks, names, on)
        if c:
            complaints.append(("pass %d: " % (t + 1) if times > 1 else "") + c)
        if t == 0:
            arr = base.arrangement(objs, names, on)
            if arr != list(range(len(objs))):
                tags.append("state:sorting-moves-a-block")
            if any(arr[p] != p for p in range(len(arr)) if arr[p] in marked):
                tags.append("state:sorting-moves-a-marked-block")
        cur = out
    if modelled:
        try:
            rec["sx_out"] = implutil.r_ok([enc.enc_block(b) for b in cur.blocks])
        except Exception:  # noqa: BLE001 - the result holds something the input did not (the oracle has said what)
            rec["sx_in"] = None
    rec["oracle"] = {"ok": not complaints, "detail": "; ".join(complaints)[:900]}
    rec["summary"] = repr([short(b) for b in cur.blocks])[:240]
    tags.append("len=%d" % n)
    tags.append("preserve" if on else "no-preserve")
    tags.append("order-len=%d" % len(order))
    if any(base.cname(b) == "DuplicateBlockKeyBlock" for b in lib.blocks):
        tags.append("has-duplicate-key-block")
    return rec
