"""C20 - entry points apply exactly the requested middleware stack, in order."""
import json
import re

ENGINE = "stack"
RULE = ("[stream textio: byte strings (documents in utf-8 / utf-16 LE+BE / latin-1 / utf-8-sig, CR and CRLF mixtures, byte order marks, every malformed utf-8 form, truncations, corruptions, lone surrogates, random bytes) read with utf-8, latin-1, utf-16 from real files and texts written with them, against the Coq model of the runtime's text layer (Model/TextIO.v, ops 180/181) and through parse_file(path, encoding, parse_stack=[]) / write_file] "
        "documents x stacks of 0..3 order-sensitive probe middlewares (library probes and block probes that append their tag to "
        "every block's metadata trace) and shipped middlewares, in every argument position of parse_string / write_string / "
        "parse_file / write_file (none, full stack, addition, both -> ValueError), as lists, tuples, generators and iterators; files in utf-8, latin-1, gbk, "
        "utf-16 with CRLF content, matching and mismatching read encodings, path / StringIO / real file-object targets; block probes "
        "answering None, [], (), one block, lists/tuples/deques of k blocks, generators, iterators, strings, bytes, ranges, dicts, "
        "sets, ints, objects, collections with a non-block, per block class; Library(blocks) with duplicate keys; STATEFUL recording block "
        "probes (oracle only) whose answer lives in an object they keep - a scratch list/deque/user Collection/list subclass cleared and "
        "refilled per block, a growing list, one constant container, the library's own block list - and/or change after returning it "
        "(append a block / a non-block, clear, reverse, pop), one probe object 1..3 times in a stack and used for two successive calls, "
        "through transform / parse_string / write_string: every block must be replaced, at its position, by what was answered for it as "
        "it was when answered. "
        "MIDDLEWARE OBJECTS WITH EXTRA PROTOCOLS (stream proto): direct Middleware subclasses, LibraryMiddleware / BlockMiddleware probes and "
        "subclasses of shipped middlewares that ALSO define __call__ (returning its argument / None / raising / taking no argument), "
        "__iter__ (empty / yielding a foreign probe), __len__+__getitem__, __len__ == 0, __bool__ False, __eq__ always True, __eq__ without "
        "__hash__, a __getattr__ fallback answering every unknown name with a function, alone and combined, 1..3 per stack next to plain "
        "items, in every argument position of the four entry points and through transform: same composition, and transform() of every "
        "item of the stack called exactly as often as the manual composition calls it (once). "
        "DOCUMENT TEXT THAT COINCIDES WITH THE PROCESS ENVIRONMENT (stream envtext): the text given to parse_string / the decoded content "
        "of the file given to parse_file is the name of a file that EXISTS at call time (relative to the current directory - the case "
        "changes into a directory of its own -, ./ and ../ forms, absolute, with blanks / line ends / quotes / invisible characters "
        "around it, near misses), a directory, a symbolic link, ~ and ~/x with HOME set, a URL (also one that is an existing relative "
        "path), an encoding name or coding cookie, - and standard-stream names, a module name, an environment-variable reference "
        "($X ${X} %X%, BIBINPUTS), an include directive, a glob, a list of names, a system path, a reserved word of the library, a name "
        "next to the parsed FILE; file names that themselves look like BibTeX (as text and as the path of parse_file / write_file); "
        "all with stacks in every argument position: the result is the split of THE GIVEN TEXT followed by the stack (composition "
        "computed before the surroundings are created, entry point called inside them). "
        "EVERY KIND OF TARGET AND EVERY FORM OF PATH (streams wtarget / psource, props/c20_targets.py): write_file with real files from open() in "
        "modes w / a / w+ / x / r+ / a+ and from a descriptor, in ten encodings, five newline settings, several error handlers and bufferings, "
        "io.TextIOWrapper over BytesIO / BufferedWriter / BufferedRandom, tempfile.NamedTemporaryFile / TemporaryFile / SpooledTemporaryFile "
        "(rolled over and not), codecs.open / codecs.getwriter / StreamReaderWriter, gzip / bz2 / lzma text files, a pipe, a socket file, io.StringIO "
        "(plain, subclass, with initial content), a pure-Python io.TextIOBase subclass, duck-typed objects that have only write(str) (returning a "
        "count / None, with __slots__, a namespace, a __getattr__ wrapper, with file-like attributes, refusing non-str, write as instance "
        "attribute); written to before, positioned at the start / in the middle / at the end, written to afterwards; paths for write_file and "
        "parse_file relative, ./, ../, absolute, below directories with blanks and non-ASCII names, with .. and doubled slashes, six levels of "
        "180-character components, through absolute / relative / chained symbolic links and a linked directory, a hard link, a str subclass, "
        "24 file names (blanks at the ends, line feed, tab, quotes, 200 characters, 240 bytes of CJK, combining and bidi characters, leading - "
        "and ~), existing and fresh; parse_file from a named pipe and from a file larger than 64 kB.  Verdict: what arrives equals what the "
        "same target receives from one write() of the manual composition's text (bytes on disk after close; checked against "
        "translate(pre + text + post).encode(encoding, errors) where that is a formula), None is returned, a refusing codec raises the same "
        "class; model compared where the sink's content is old ++ text.  pathlib / bytes / PathLike / descriptor paths, binary, read-only and "
        "closed file objects, missing files are recorded, nothing demanded. "
        "distinct = distinct case description; non-trivial = a non-empty stack or a non-trivial splice")
TRUSTED = ["oracle instances supplied by the harness on every case: the graph of Splitter(text).split(), of every shipped middleware "
           "instance on the libraries it is applied to in the manual composition, of the codec (bytes.decode + universal newlines) "
           "and of the sink (file content read back); a missing row is reported as a disagreement",
           "previous_block of duplicate-key blocks is compared as a stub (aliasing is C07/C08's subject)"]
ASSUMPTIONS = ["stack arguments are iterables of middlewares: lists, tuples, generators and iterators are all generated (F13)",
               "codecs, universal-newline translation and the file system are the runtime's (DESIGN C20 Limits): partial"]
CASE_TIMEOUT_S = 30

DOCS = [
    "",
    "@article{k1, title = {A Title}, year = 2020, month = jan}\n",
    "@string{me = \"My Name\"}\n@article{k2, author = me, title = \"Quoted\", note = me # { et al.}}\n",
    "% a comment\n@comment{explicit}\n@preamble{\"pre\"}\n@book{b1, author = {Smith, John and Doe, Jane}, Year = {1999}, month = {3}}\n",
    "@article{dup, a = {1}}\n@article{dup, a = {2}}\n@string{s = {x}}\n@string{s = {y}}\n",
    "@article{bad, title = {unclosed\n@article{ok, title = {fine}, title = {twice}}\n@misc{z, note = {last}}\n",
    "@article{c1,\r\n  title = {CRLF value\r\nsecond line},\r\n  year = 1\r\n}\r\n\r\ntext\r\n@misc{c2, a = {b}}\r\n",
    "@misc{u1, title = {ünicöde élève}, author = {Müller, Jürgen}}\n",
    "@misc{g1, title = {中文标题}, author = {王 小明}}\r\n@comment{注释}\r\n",
    "@misc{z9, b = {2}, a = {1}, C = {3}}\n@article{a0, month = {December}, author = \"A and B and C\"}\nfree text\n@string{zz = {1}}\n",
    # edge characters at the very start / end of the decoded content: parse_file must hand them to parse_string untouched
    "\ufeff@article{bom, a = {b}}\n@comment{after a byte order mark}\n",
    "\ufeff% comment right after a BOM\n@misc{bom2, t = {x}}",
    "\n\n  \t@misc{lead, t = {x}}  \n\n\x0c\n",
    "\x00@misc{nul, t = {a\x00b}}\n\x1a",
    "@misc{noeol, t = {x}}",
]
DOC_ENC = {7: ["utf-8", "latin-1", "utf-16"], 8: ["utf-8", "gbk", "utf-16"], 10: ["utf-8", "utf-16"], 11: ["utf-8", "utf-16"]}
ENCODINGS = ["utf-8", "latin-1", "gbk", "utf-16"]

SHIPPED = [
    ["RemoveEnclosingMiddleware", {"allow_inplace_modification": True}],
    ["RemoveEnclosingMiddleware", {"allow_inplace_modification": False}],
    ["AddEnclosingMiddleware", {"reuse_previous_enclosing": False, "enclose_integers": True, "default_enclosing": "{",
                                "allow_inplace_modification": False}],
    ["AddEnclosingMiddleware", {"reuse_previous_enclosing": True, "enclose_integers": False, "default_enclosing": "\"",
                                "allow_inplace_modification": True}],
    ["ResolveStringReferencesMiddleware", {"allow_inplace_modification": True}],
    ["MonthIntMiddleware", {}],
    ["MonthAbbreviationMiddleware", {}],
    ["SortBlocksByTypeAndKeyMiddleware", {}],
    ["SortFieldsAlphabeticallyMiddleware", {}],
    ["NormalizeFieldKeys", {}],
    ["SeparateCoAuthors", {}],
    ["MergeCoAuthors", {}],
]
CLASSES = ["entry", "string", "preamble", "expl", "impl"]
NEW_BLOCKS = [["entry", "misc", "new1", [["x", "{1}"]], "@misc{new1}"], ["expl", "added"], ["impl", "text"],
              ["string", "ns", "{v}", None], ["preamble", "p"], ["failed", "raw\ntext"],
              ["entry", "article", "k1", [], None], ["string", "me", "{other}", None]]
COLL_KINDS = ["list", "tuple", "deque"]
NONBLOCK_COLL = ["str", "bytes", "range", "dict", "set", "frozenset"]
# non-block results, incl. FALSY ones that are neither None nor an empty collection (False, 0, 0.0, an object with __bool__ False)
OTHER_KINDS = ["gen", "iter", "int", "object", "true", "field", "library", "map", "float", "false", "zero", "zerofloat", "falsyobj",
               "emptygen"]


# extra dunder / duck protocols a user's middleware class may define besides the middleware interface (stream proto)
PROTOS = ["call_id", "call_none", "call_raise", "call_noargs", "iter_empty", "iter_mw", "seq", "len0", "bool_false", "eq_true",
          "unhashable", "getattr", "getattr_none"]


def core_d(d):
    """The descriptor without its protocol decoration."""
    return d[2] if d[0] == "x" else d


# ------------------------------------------------------------------ generators
def rxmw(rng, p_x=0.75):
    """A middleware descriptor of the proto stream: any probe / shipped middleware, decorated with 1..3 extra protocols."""
    inner = rmw(rng)
    if inner[0] == "lib" and rng.random() < 0.4:
        inner = ["mid"] + inner[1:]
    if rng.random() >= p_x:
        return inner
    return ["x", rng.sample(PROTOS, rng.choice([1, 1, 1, 2, 2, 3])), inner]


def rxstack(rng):
    st = [rxmw(rng) for _ in range(rng.choice([1, 1, 2, 2, 3]))]
    if not any(d[0] == "x" for d in st):
        i = rng.randrange(len(st))
        st[i] = ["x", [rng.choice(PROTOS)], st[i]]
    return st


def rxargs(rng):
    r = rng.random()
    if r < 0.45:
        return rxstack(rng), None
    if r < 0.9:
        return None, rxstack(rng)
    return rxstack(rng), rxstack(rng)


def proto_cases(rng, n):
    """MIDDLEWARE OBJECTS WITH EXTRA PROTOCOLS in every stack argument position of every entry point, and through transform."""
    import props.c06 as c06
    cases = []
    plain = {c: ["self"] for c in CLASSES}
    bases = [lambda i: ["mid", 3 + i % 5, i % 3 != 0], lambda i: ["lib", 3 + i % 5, i % 3 != 1],
             lambda i: ["blk", 3 + i % 5, i % 3 != 2, dict(plain, **({"impl": ["none"]} if i % 2 else {"expl": ["coll", "list", ["self", ["new", NEW_BLOCKS[1]]]]}))],
             lambda i: ["shipped"] + SHIPPED[i % len(SHIPPED)]]
    docs = [DOCS[1], DOCS[2], DOCS[3], DOCS[9], DOCS[3] + DOCS[2]]
    i = 0
    # bounded exhaustive: protocol x kind of base class x entry point x argument position, the position in the stack rotating
    for proto in PROTOS:
        for bi, base in enumerate(bases):
            for op in ("parse", "write"):
                for pos in ("ps", "am"):
                    i += 1
                    x = ["x", [proto], base(i)]
                    st = [[x], [x, ["lib", 2, True]], [["lib", 1, True], x], [["lib", 1, True], x, ["lib", 2, False]],
                          [x, ["x", [proto], bases[(bi + 1) % 4](i + 1)]], [["shipped"] + SHIPPED[i % len(SHIPPED)], x]][i % 6]
                    a = {"ps": None, "am": None}
                    a[pos] = st
                    inp = dict(op=op, text=docs[i % len(docs)], cont=["list", "tuple", "gen", "iter"][i % 4], **a)
                    if op == "write":
                        inp.update(parsed=["default", "raw"][i % 5 == 0], fmt=None)
                    cases.append({"stream": "proto", "input": inp})
        for op in ("parse_file", "write_file"):
            for pos in ("ps", "am"):
                i += 1
                x = ["x", [proto], bases[i % 4](i)]
                a = {"ps": None, "am": None}
                a[pos] = [[x], [["lib", 1, True], x], [x, ["lib", 2, True]]][i % 3]
                if op == "parse_file":
                    fe = ENCODINGS[i % 4]
                    inp = dict(op=op, text=docs[i % 4], file_enc=fe, read_enc=fe, cont=["list", "tuple", "gen"][i % 3], **a)
                else:
                    inp = dict(op=op, text=docs[i % 4], parsed="default", fmt=None, cont=["list", "tuple", "iter"][i % 3],
                               target=["path", "path_existing", "stringio", "fileobj"][i % 4], enc=ENCODINGS[i % 4], pre=["", "PRE\n"][i % 2], **a)
                cases.append({"stream": "proto", "input": inp})
        # the per-block protocol of a decorated probe, judged by expected_transform
        for base in bases[:3]:
            i += 1
            blocks = [["expl", "first"], ["entry", "article", "k1", [["a", "{1}"]], "@article{k1}"], ["string", "me", "{v}", "@string{me}"],
                      ["preamble", "pp"], ["impl", "free"], ["failed", "broken"], ["expl", "last"]]
            cases.append({"stream": "proto", "input": dict(op="transform", mw=["x", [proto], base(i)], blocks=blocks)})
    # random: 1..3 items per stack, 1..3 protocols per decorated item, every position incl. both (-> ValueError)
    for _ in range(220 * n):
        ps, am = rxargs(rng)
        r = rng.random()
        text, di = rdoc(rng)
        encs = DOC_ENC.get(di, ENCODINGS if text.isascii() else ["utf-8", "utf-16"])
        if r < 0.3:
            inp = dict(op="parse", text=text, ps=ps, am=am, cont=rng.choice(["list", "list", "tuple", "gen", "iter"]))
        elif r < 0.6:
            inp = dict(op="write", text=text, parsed=rng.choice(["default", "raw"]), ps=ps, am=am, fmt=rfmt(rng),
                       cont=rng.choice(["list", "list", "tuple", "gen", "iter"]))
        elif r < 0.8:
            fe = rng.choice(encs)
            inp = dict(op="parse_file", text=text, file_enc=fe, read_enc=fe if rng.random() < 0.8 else None, ps=ps, am=am,
                       cont=rng.choice(["list", "tuple", "gen"]))
        else:
            inp = dict(op="write_file", text=text, parsed=rng.choice(["default", "raw"]), ps=ps, am=am, fmt=rfmt(rng),
                       cont=rng.choice(["list", "tuple", "iter"]), target=rng.choice(["path", "path_existing", "stringio", "fileobj"]),
                       enc=rng.choice(encs), pre=rng.choice(["", "PRE\n", "% header\r\n"]))
        cases.append({"stream": "proto", "input": inp})
    for _ in range(40 * n):
        keys, skeys = [], []
        blocks = [c06.rblock(rng, keys, skeys) for _ in range(rng.choice([0, 1, 2, 3, 5, 8]))]
        mwd = rxmw(rng, p_x=1.0)
        while core_d(mwd)[0] == "shipped":
            mwd = rxmw(rng, p_x=1.0)
        cases.append({"stream": "proto", "input": dict(op="transform", mw=mwd, blocks=blocks)})
    return cases


def rspec(rng, in_stack):
    r = rng.random()
    if r < (0.6 if in_stack else 0.15):
        return ["self"]
    if r < (0.68 if in_stack else 0.27):
        return ["none"]
    if r < (0.93 if in_stack else 0.75):
        if rng.random() < 0.25:
            return ["coll", rng.choice(NONBLOCK_COLL), ["non"] * rng.choice([0, 0, 0, 1, 2])]
        n = rng.choice([0, 1, 1, 2, 3])
        items, used_self = [], False
        for _ in range(n):
            q = rng.random()
            if q < 0.45 and not (in_stack and used_self):
                items.append("self")
                used_self = True
            elif q < 0.92 or in_stack:
                items.append(["new", rng.choice(NEW_BLOCKS)])
            else:
                items.append("non")
        if not in_stack and rng.random() < 0.1:
            items.insert(rng.randint(0, len(items)), "non")
        return ["coll", rng.choice(COLL_KINDS), items]
    return ["other", rng.choice(OTHER_KINDS)]


def rmw(rng, in_stack=True, bad=False):
    r = rng.random()
    k = rng.randint(1, 9)
    if r < 0.4:
        return ["lib", k, rng.random() < 0.7]
    if r < 0.7:
        specs = {c: rspec(rng, in_stack) for c in CLASSES}
        if in_stack and not bad:
            for c in CLASSES:
                if specs[c][0] == "other" or (specs[c][0] == "coll" and "non" in specs[c][2]):
                    if rng.random() < 0.85:
                        specs[c] = ["self"]
        return ["blk", k, rng.random() < 0.7, specs]
    return ["shipped"] + rng.choice(SHIPPED)


def rstack(rng, p_none=0.0):
    if rng.random() < p_none:
        return None
    return [rmw(rng) for _ in range(rng.choice([0, 1, 1, 2, 2, 3]))]


def rdoc(rng):
    i = rng.randrange(len(DOCS))
    if rng.random() < 0.3:
        j = rng.randrange(len(DOCS))
        return DOCS[i] + DOCS[j], None
    return DOCS[i], i


def rfmt(rng):
    import props.c06 as c06
    return c06.rfmt(rng) if rng.random() < 0.5 else None


def rargs(rng):
    """(full stack, addition): every argument position incl. both (-> ValueError)."""
    r = rng.random()
    if r < 0.12:
        return None, None
    if r < 0.45:
        return rstack(rng), None
    if r < 0.88:
        return None, rstack(rng)
    return rstack(rng), rstack(rng)


def generate(rng, tier):
    quick = tier == "quick"
    n = 1 if quick else 30
    cases = []
    # ordered pairs/triples of probes in each position, every document (bounded exhaustive)
    for di in range(len(DOCS)):
        for pos in ("ps", "am"):
            for st in ([], [["lib", 1, True]], [["lib", 1, True], ["lib", 2, True]], [["lib", 2, True], ["lib", 1, False]],
                       [["lib", 1, True], ["shipped"] + SHIPPED[0], ["lib", 2, True]],
                       [["shipped"] + SHIPPED[5], ["blk", 3, True, {c: ["self"] for c in CLASSES}], ["shipped"] + SHIPPED[6]]):
                a = {"ps": None, "am": None}
                a[pos] = st
                cases.append({"stream": "parse", "input": dict(op="parse", text=DOCS[di], cont="list", **a)})
                cases.append({"stream": "write", "input": dict(op="write", text=DOCS[di], parsed="default", fmt=None, cont="list", **a)})
    for _ in range(250 * n):
        ps, am = rargs(rng)
        cases.append({"stream": "parse", "input": dict(op="parse", text=rdoc(rng)[0], ps=ps, am=am, cont=rng.choice(["list", "list", "tuple", "gen", "iter"]))})
    for _ in range(250 * n):
        ps, am = rargs(rng)
        cases.append({"stream": "write", "input": dict(op="write", text=rdoc(rng)[0], parsed=rng.choice(["default", "raw"]), ps=ps, am=am,
                                                       fmt=rfmt(rng), cont=rng.choice(["list", "list", "tuple", "gen", "iter"]))})
    for _ in range(40 * n):
        ps, am = rargs(rng)
        if ps is None and am is None:
            am = [["lib", 1, True]]
        cases.append({"stream": "oneshot", "input": dict(op=rng.choice(["parse", "write"]), text=rdoc(rng)[0], parsed="default", ps=ps, am=am,
                                                         fmt=None, cont=rng.choice(["gen", "iter"]))})
    # files
    for _ in range(160 * n):
        text, di = rdoc(rng)
        encs = DOC_ENC.get(di, ["utf-8", "latin-1", "gbk", "utf-16"] if text.isascii() else ["utf-8", "utf-16"])
        fe = rng.choice(encs)
        r = rng.random()
        re_ = fe if r < 0.7 else (None if r < 0.8 else rng.choice(ENCODINGS))
        ps, am = rargs(rng)
        cases.append({"stream": "parse_file", "input": dict(op="parse_file", text=text, file_enc=fe, read_enc=re_, ps=ps, am=am, cont=rng.choice(["list", "tuple", "gen"]))})
    for _ in range(160 * n):
        text, di = rdoc(rng)
        encs = DOC_ENC.get(di, ["utf-8", "latin-1", "gbk", "utf-16"] if text.isascii() else ["utf-8", "utf-16"])
        ps, am = rargs(rng)
        cases.append({"stream": "write_file", "input": dict(op="write_file", text=text, parsed=rng.choice(["default", "raw"]), ps=ps, am=am,
                                                            fmt=rfmt(rng), cont=rng.choice(["list", "tuple", "iter"]), target=rng.choice(["path", "path_existing", "stringio", "fileobj"]),
                                                            enc=rng.choice(encs), pre=rng.choice(["", "PRE\n", "% header\r\n"]))})
    # the splice protocol
    import props.c06 as c06
    for cls_i, cls in enumerate(CLASSES):
        for spec in ([["none"], ["self"], ["coll", "list", []], ["coll", "tuple", []], ["coll", "str", []], ["coll", "dict", []],
                      ["coll", "set", []], ["coll", "bytes", []], ["coll", "range", []], ["coll", "str", ["non"]],
                      ["coll", "str", ["non", "non"]], ["coll", "dict", ["non"]], ["coll", "set", ["non"]], ["coll", "bytes", ["non"]],
                      ["coll", "range", ["non", "non"]]]
                     + [["coll", kind, items] for kind in COLL_KINDS for items in (
                         ["self"], ["self", "self"], ["self", ["new", NEW_BLOCKS[0]]], [["new", NEW_BLOCKS[1]], "self", ["new", NEW_BLOCKS[2]]],
                         ["non"], ["self", "non"], ["non", "self"], [["new", NEW_BLOCKS[0]], ["new", NEW_BLOCKS[0]]])]
                     + [["other", k] for k in OTHER_KINDS]):
            specs = {c: ["self"] for c in CLASSES}
            specs[cls] = spec
            blocks = [["expl", "first"], ["entry", "article", "k1", [["a", "{1}"]], "@article{k1}"], ["string", "me", "{v}", "@string{me}"],
                      ["preamble", "pp"], ["impl", "free"], ["failed", "broken"], ["entry", "book", "k2", [], None], ["expl", "last"]]
            cases.append({"stream": "splice", "input": dict(op="transform", mw=["blk", 4, cls_i % 2 == 0, specs], blocks=blocks)})
    for _ in range(300 * n):
        keys, skeys = [], []
        blocks = [c06.rblock(rng, keys, skeys) for _ in range(rng.choice([0, 1, 2, 3, 5, 8]))]
        mwd = rmw(rng, in_stack=False, bad=True)
        while mwd[0] == "shipped":
            mwd = rmw(rng, in_stack=False, bad=True)
        cases.append({"stream": "splice", "input": dict(op="transform", mw=mwd, blocks=blocks)})
    for _ in range(60 * n):
        keys, skeys = ["k"], ["s"]
        blocks = [c06.rblock(rng, keys, skeys) for _ in range(rng.choice([0, 1, 2, 4, 7]))]
        cases.append({"stream": "library", "input": dict(op="library", blocks=blocks)})
    # STATEFUL block probes: the collection handed back for one block is an object the probe keeps (a scratch buffer that is
    # cleared and refilled, a list that grows, one constant container, the library's own block list) and/or changes after
    # it was returned; ONE probe object used r times in a stack and for two successive entry-point calls
    plan0 = [["coll", [["new", NEW_BLOCKS[2]], "self"]], ["coll", ["self"]], ["coll", []], "self",
             ["coll", ["self", ["new", NEW_BLOCKS[1]]]], "none"]
    fixed_blocks = [["expl", "first"], ["entry", "article", "k1", [["a", "{1}"]], "@article{k1}"], ["string", "me", "{v}", "@string{me}"],
                    ["preamble", "pp"], ["impl", "free"], ["failed", "broken"], ["entry", "book", "k2", [], None], ["expl", "last"]]
    i = 0
    for mode in ST_MODES:
        for late in ([None] if mode == "libview" else ST_LATE):
            for via in ("transform", "parse", "write"):
                for cont in (ST_CONT if late is None else [ST_CONT[i % len(ST_CONT)]]):
                    i += 1
                    probe = dict(k=5, inplace=i % 3 != 0, mode=mode, cont=cont, late=late, plan=plan0)
                    inp = dict(op="stateful", via=via, probe=probe, repeat=1 + (i % 5 == 0 and mode in ST_REPEATABLE), calls=1 + (i % 2),
                               pos=("ps", "am")[i % 4 == 0], prefix=[], alias=False)
                    if via == "transform":
                        inp["blocks"] = fixed_blocks
                    else:
                        inp["text"] = DOCS[3] + DOCS[9]
                    cases.append({"stream": "stateful", "input": inp})
    for _ in range(260 * n):
        mode = rng.choice(ST_MODES + ["buffer", "fresh"])
        bad = rng.random() < 0.15
        probe = dict(k=rng.randint(1, 9), inplace=rng.random() < 0.7, mode=mode,
                     cont=rng.choice(ST_CONT + (["tuple"] if mode in ("fresh", "const") else [])),
                     late=None if mode == "libview" else rng.choice(ST_LATE), plan=rplan(rng, bad))
        via = rng.choice(["transform", "parse", "write"])
        inp = dict(op="stateful", via=via, probe=probe, repeat=rng.choice([1, 1, 1, 2, 3]) if mode in ST_REPEATABLE else 1, calls=rng.choice([1, 1, 2]),
                   pos=rng.choice(["ps", "am"]), alias=rng.random() < 0.2,
                   prefix=rng.choice([[], [], [["lib", 1, True]], [["lib", 2, False]], [["shipped"] + SHIPPED[7]],
                                      [["blk", 3, True, {c: ["self"] for c in CLASSES}]]]))
        if via == "transform":
            keys, skeys = [], []
            inp["blocks"] = [c06.rblock(rng, keys, skeys) for _ in range(rng.choice([0, 1, 2, 3, 5, 8]))]
        else:
            inp["text"] = rdoc(rng)[0]
        cases.append({"stream": "stateful", "input": inp})
    cases += proto_cases(rng, n)
    cases += env_cases(rng, n)
    # the runtime's text layer under parse_file / write_file against Model/TextIO.v (ops 180 / 181), appended last (props/c20_textio.py)
    from props import c20_textio
    cases += c20_textio.generate(rng, quick)
    # every kind of target write_file can be handed, every form of path (streams wtarget / psource, props/c20_targets.py): appended last
    from props import c20_targets
    cases += c20_targets.generate(rng, quick)
    return cases


# ------------------------------------------------------------------ stream envtext: the text coincides with the process environment
# A case of this stream carries `env`: what exists around the call - files / directories / symbolic links below a directory of its
# own, the current directory, HOME, environment variables - and a `text` (and, for the file entry points, a `path`) given as a list
# of parts, a part being a literal string or ["TMP"] (the absolute name of the case's directory).  The document handed to
# parse_string / written into the file handed to parse_file is a legal input like any other: the name of a file that exists, a
# directory, `~/x`, a URL, an encoding name, `-`, a module name, `$VAR` ... must be SPLIT AS THE TEXT IT IS and sent through the
# stack.  The expectation (manual composition) is computed before the environment is populated; the entry point is called inside.
ENV_DOCS = [1, 2, 3, 9, 7]          # DOCS used as the content of the files a text may name (all non-empty, all different)
ENV_PATHS = [[["TMP"], "/in.bib"], ["in.bib"], ["./in.bib"], ["deep/er/in.bib"], ["@misc{x, t = {y}}"], ["@article{in.bib}"], ["~in.bib"],
             ["in bib.txt"], ["-"], ["utf-8"], ["文献-in.bib"], ["in.bib\n"], [["TMP"], "/@comment{x}.bib"], ["$HOME"], ["%in.bib"],
             ["*.bib"], ["in.bib "], ["@string{s = {v}}\n@misc{k, t = s}"], ["{in}.bib"], ["in.bib~"], ["http:in.bib"], ["gbk"]]
_ENV_POOL = []


def env_scenarios():
    """The fixed, ordered pool of (kind, text, surroundings).  Nothing random here: generate() combines it with the PRNG."""
    if _ENV_POOL:
        return _ENV_POOL
    import props.charclasses as cc
    import props.selfref as selfref
    S = _ENV_POOL

    def add(kind, text, files=(), dirs=(), links=(), cwd=".", home=None, vars=(), path=None):
        d = dict(kind=kind, text=text if isinstance(text, list) else [text], files=list(files), dirs=list(dirs),
                 links=[list(x) for x in links], cwd=cwd, home=home, vars=[list(x) for x in vars])
        if path is not None:
            d["path"] = path
        S.append(d)
    T = ["TMP"]
    plain = ["refs.bib", "refs", "my refs.bib", "réfs.bib", "文献.bib", "library.bibtex", ".bib", "a", "refs.bib.txt", "Refs.BIB"]
    for name in plain:
        add("file_rel", name, files=[name])
        add("file_abs", [T, "/" + name], files=[name])
    for name in plain[:4]:
        add("file_dotrel", "./" + name, files=[name])
        add("file_dotrel", "sub/" + name, files=["sub/" + name])
        add("file_dotrel", "sub/../" + name, files=[name], dirs=["sub"])
        add("file_dotrel", "../" + name, files=[name], cwd="work")
        add("file_dotrel", "../work/" + name, files=["work/" + name], cwd="work")
        add("file_dotrel", ".//sub//" + name, files=["sub/" + name])
        add("file_abs", [T, "/sub/../" + name], files=[name], dirs=["sub"])
        add("file_abs", [T, "//sub/./" + name], files=["sub/" + name])
    # the name with something around it: what a strip() / rstrip("\n") / shlex / quote removal before the test would eat
    edges = [("", "\n"), ("", "\r\n"), ("", "\r"), ("", " "), ("", "\t"), (" ", ""), ("\n", ""), ("  ", "  \n"), ("", "\n\n"), ("\ufeff", ""),
             ("", "\x00"), ('"', '"'), ("'", "'"), ("<", ">"), ("{", "}"), ("% ", ""), ("%", ""), ("(", ")"), ("[", "]"), ("`", "`")]
    edges += [("", c) for c in cc.OTHER_ISSPACE[:8]] + [(c, "") for c in cc.INVISIBLE_NOT_SPACE[:3]] + [("", c) for c in cc.LINE_BOUNDARIES[-2:]]
    for i, (pre, post) in enumerate(edges):
        name = ["refs.bib", "my refs.bib", "réfs.bib"][i % 3]
        add("file_edge", pre + name + post, files=[name])
        if i % 2 == 0:
            add("file_edge", [pre, T, "/" + name + post], files=[name])
    for t in ["missing.bib", "REFS.BIB", "refs.bi", "refs.bibx", "refs.bib.bak", "efs.bib", "refs/bib", "refs.bib/", "refs.bib/.", "refs.bib\\",
              "refs..bib", "refs.bib" * 40, "r" * 300 + ".bib", "sub/" * 1200 + "refs.bib", [T, "/missing.bib"], [T, "x/refs.bib"], [T, "/refs.bib/x"]]:
        add("file_nearmiss", t, files=["refs.bib"], dirs=["sub"])
    for t in ["sub", "sub/", "./sub", ".", "./", "..", "/", "//", [T], [T, "/"], [T, "/sub"], "sub/.", "sub\n", " sub", "sub/*"]:
        add("dir", t, files=["sub/refs.bib", "sub/other.bib", "refs.bib"])
    add("dir", "refs.bib", files=["refs.bib/inner.bib"])
    add("dir", [T, "/refs.bib"], files=["refs.bib/refs.bib"])
    add("dir", "empty", dirs=["empty"])
    add("dir", "@misc{x}", files=["@misc{x}/refs.bib"])
    for t in ["~", "~/", "~/refs.bib", "~/refs.bib\n", "~/missing.bib", "~/sub/refs.bib", "~root", "~root/refs.bib", "~nosuchuser/refs.bib", "~+", "~-",
              " ~/refs.bib", "~/refs.bib ", "~\\refs.bib"]:
        add("tilde", t, files=["home/refs.bib", "home/sub/refs.bib", "refs.bib"], home="home")
    add("tilde", "~/refs.bib", files=["~/refs.bib", "home/refs.bib"], home="home")           # exists literally AND after expansion
    add("tilde", "~/refs.bib", files=["~/refs.bib"])                                         # a directory called ~
    add("tilde", "~", files=["~"])
    for name in ["refs.bib~", "~refs.bib", "#refs.bib#", ".#refs.bib", "~$refs.bib", "refs.bib.~1~"]:
        add("tilde", name, files=[name, "refs.bib"])
    for t in [["file://", T, "/refs.bib"], ["file://localhost", T, "/refs.bib"], ["file:", T, "/refs.bib"], ["FILE://", T, "/refs.bib"],
              ["file://", T, "/refs.bib\n"], ["file://", T, "/missing.bib"], ["file://", T], "file:refs.bib", "file:///dev/null", "file://refs.bib",
              "http://localhost/refs.bib", "https://example.org/refs.bib", "ftp://example.org/pub/refs.bib", "http://127.0.0.1:9/refs.bib",
              "data:text/plain,@misc{x, t = {y}}", "data:,refs.bib", "mailto:refs@example.org", "doi:10.1000/182", "urn:isbn:0451450523",
              "www.example.org/refs.bib", "//example.org/refs.bib", "git@example.org:refs.bib", "example.org:refs.bib", "s3://bucket/refs.bib",
              "zip://refs.zip!/refs.bib", "http://", "https://doi.org/10.1000/182", "<http://localhost/refs.bib>", "\\url{http://localhost/refs.bib}"]:
        add("url", t, files=["refs.bib"])
    add("url", "http://localhost/refs.bib", files=["http:/localhost/refs.bib"])               # the URL IS a relative path that exists
    add("url", "file:refs.bib", files=["file:refs.bib", "refs.bib"])
    add("url", "file:///refs.bib", files=["file:/refs.bib"])
    for t in ["utf-8", "UTF-8", "utf8", "latin-1", "latin1", "iso-8859-1", "gbk", "utf-16", "utf-16-le", "ascii", "cp1252", "idna", "rot13", "rot_13",
              "unicode_escape", "undefined", "mbcs", "utf-8-sig", "punycode", "hex", "base64", "zlib", "encoding=gbk", "locale", "utf-8\n", " gbk"]:
        add("encoding_name", t)
    add("encoding_name", "utf-8", files=["utf-8"])
    add("encoding_name", "gbk", files=["gbk", "refs.bib"])
    for t in ["% -*- coding: gbk -*-\n@misc{x, t = {y}}\n", "# -*- coding: latin-1 -*-\n@misc{x, t = {é}}\n", "% !TeX encoding = latin1\n@misc{x, t = {é}}\n",
              "%% encoding: utf-16\n@misc{x, t = {y}}\n", "% Encoding: GBK\n@misc{x, t = {y}}\n", "<?xml version=\"1.0\" encoding=\"latin-1\"?>\n@misc{x, t = {é}}",
              "#!/usr/bin/env bibtexparser\n@misc{x, t = {y}}\n", "@comment{jabref-meta: fileDirectory:.;}\n@misc{x, file = {:refs.bib:bib}}\n"]:
        add("coding_cookie", t, files=["refs.bib"])
    for t in ["-", "--", "-\n", "- ", " -", "/dev/stdin", "/dev/null", "/dev/fd/0", "/dev/tty", "stdin", "<stdin>", "<stdout>", "<string>", "sys.stdin",
              "CON", "NUL", "0", "1", "2", "&0", "-1", "--help", "-h", "--version"]:
        add("dash", t)
    add("dash", "-", files=["-"])
    add("dash", "--", files=["--", "-"])
    add("dash", "0", files=["0"])
    for t in ["bibtexparser", "bibtexparser.middlewares", "bibtexparser.splitter", "bibtexparser.entrypoint", "bibtexparser.middlewares.names", "os",
              "os.path", "sys", "json", "codecs", "__main__", "builtins", "props.c20", "this", "antigravity", "site", "bibtexparser:parse_string",
              "bibtexparser.parse_file", "import os", "__import__('os')", "bibtexparser\n", "-m bibtexparser", "pip", "nosuchmodule_c20"]:
        add("module_name", t)
    add("module_name", "conf", files=["conf.py"])
    add("module_name", "conf.py", files=["conf.py"])
    add("module_name", "pkg", files=["pkg/__init__.py", "pkg/refs.bib"])
    add("module_name", "pkg.refs", files=["pkg/__init__.py", "pkg/refs.py"])
    add("module_name", "bibtexparser", files=["bibtexparser"])
    doc = DOCS[1]
    V = [["VERIF_C20_DOC", [doc]], ["VERIF_C20_FILE", ["refs.bib"]], ["VERIF_C20_ABS", [T, "/refs.bib"]], ["VERIF_C20_DIR", [T]],
         ["BIBINPUTS", [T, "/inputs"]], ["TEXINPUTS", [T, "/inputs:"]]]
    for t in ["$HOME", "${HOME}", "$HOME/refs.bib", "${HOME}/refs.bib", "%HOME%", "%HOME%\\refs.bib", "$PATH", "%PATH%", "$USER", "$PWD", "${PWD}/refs.bib",
              "$VERIF_C20_DOC", "${VERIF_C20_DOC}", "%VERIF_C20_DOC%", "$VERIF_C20_DOC\n", "$VERIF_C20_FILE", "${VERIF_C20_FILE}", "$VERIF_C20_ABS",
              "$VERIF_C20_DIR/refs.bib", "${VERIF_C20_DIR}/refs.bib", "$VERIF_C20_UNSET", "${VERIF_C20_UNSET:-refs.bib}", "${VERIF_C20_UNSET-$VERIF_C20_FILE}",
              "$$", "$", "${", "${}", "$1", "$@", "$?", "VERIF_C20_DOC", "VERIF_C20_FILE", "HOME", "PATH", "BIBINPUTS", "$BIBINPUTS", "$BIBINPUTS/inp.bib", "inp.bib",
              "inp", "{VERIF_C20_DOC}", "%(HOME)s", "{HOME}", "{0}", "%s", "{}", "@misc{x, t = {$HOME}}", "@string{h = {$VERIF_C20_DOC}}\n@misc{y, t = h}",
              "@misc{x, t = \"${VERIF_C20_FILE}\"}", "@misc{$VERIF_C20_FILE, t = {x}}", "os.environ['HOME']", "env:HOME", "$env:HOME", "$(HOME)"]:
        add("envvar", t, files=["refs.bib", "home/refs.bib", "inputs/inp.bib"], home="home", vars=V)
    for t in ["\\input{refs.bib}", "\\bibliography{refs}", "\\include{refs}", "\\addbibresource{refs.bib}", "@include{refs.bib}", "@input{refs.bib}",
              "@import{refs.bib}", "@comment{refs.bib}", "@preamble{\"\\input{refs.bib}\"}", "#include \"refs.bib\"", "#include <refs.bib>", "!include refs.bib",
              "< refs.bib", "<refs.bib", "> refs.bib", ">> refs.bib", "refs.bib|", "|cat refs.bib", "| cat refs.bib", "$(cat refs.bib)", "`cat refs.bib`",
              "cat refs.bib", "source refs.bib", ". refs.bib", "@refs.bib", ["@", T, "/refs.bib"], "@@refs.bib", "file = {refs.bib}", "@misc{k, file = {refs.bib}}",
              "@misc{k, file = {:refs.bib:PDF}}", "@misc{k, crossref = {refs.bib}}", "@misc{refs.bib, t = {x}}", ["@misc{", T, "/refs.bib, t = {x}}"],
              "@string{refs.bib = {x}}", "@misc{k, t = refs.bib}", "@misc{k, t = refs # bib}", "@refs.bib{k, t = {x}}", "% refs.bib", "%include refs.bib",
              "include::refs.bib[]", "{{refs.bib}}", "{% include 'refs.bib' %}", "<<refs.bib", "import refs.bib", "load refs.bib", "open refs.bib",
              "refs.bib:1", "refs.bib:1:1", "refs.bib#k", "refs.bib?raw", "refs.bib::k"]:
        add("directive", t, files=["refs.bib", "refs"])
    for name in ["@misc{x}", "@article{k, t = {v}}", "@comment{refs.bib}", "@string{s = {v}}", "@misc{x}\n", "{refs.bib}", "% refs.bib", "@preamble{\"p\"}",
                 "@misc{a,b={c}}.bib", "@", "{", "}", "@misc{x", "@misc{x,\n t = {v}\n}", "@string{s = {v}}\n@misc{k, t = s}", "\"refs.bib\"", "@misc{x} ", "=", "#", ","]:
        add("biblike_name", name, files=[name])
        add("biblike_name", [T, "/" + name], files=[name])
    add("biblike_name", "@misc{x}/@misc{y}", files=["@misc{x}/@misc{y}"])
    for t in ["*.bib", "refs.*", "?efs.bib", "[r]efs.bib", "**/*.bib", "*", "**", "refs.{bib,txt}", "sub/*", "*/*.bib", [T, "/*.bib"], "refs.bib*", "[!x]efs.bib"]:
        add("glob", t, files=["refs.bib", "sub/other.bib"])
    add("glob", "*.bib", files=["*.bib", "refs.bib"])
    add("glob", "?", files=["?", "a"])
    for t in ["refs.bib\nother.bib", "refs.bib\nother.bib\n", "refs.bib other.bib", "refs.bib,other.bib", "refs.bib, other.bib", "refs.bib:other.bib",
              "refs.bib;other.bib", "refs.bib\x00other.bib", "['refs.bib', 'other.bib']", "[\"refs.bib\"]", "refs.bib\tother.bib", "refs.bib\r\nother.bib\r\n",
              ["refs.bib\n", T, "/other.bib\n"], "refs.bib\n\nother.bib", "refs.bib\n@misc{x, t = {y}}\n", "@misc{x, t = {y}}\nrefs.bib", "@misc{x, t = {y}}\nrefs.bib\n",
              "refs.bib\n% comment", "refs.bib refs.bib"]:
        add("name_list", t, files=["refs.bib", "other.bib"])
    add("symlink", "link.bib", files=["refs.bib"], links=[["link.bib", "refs.bib"]])
    add("symlink", [T, "/link.bib"], files=["refs.bib"], links=[["link.bib", "refs.bib"]])
    add("symlink", "dangling.bib", files=["refs.bib"], links=[["dangling.bib", "nowhere.bib"]])
    add("symlink", "ldir", files=["sub/refs.bib"], links=[["ldir", "sub"]])
    add("symlink", "ldir/refs.bib", files=["sub/refs.bib"], links=[["ldir", "sub"]])
    add("symlink", "loop.bib", links=[["loop.bib", "loop.bib"]])
    add("symlink", "null.bib", links=[["null.bib", "/dev/null"]])
    for t in ["/etc/passwd", "/etc/hostname", "/etc/hosts", "/proc/self/environ", "/proc/self/cmdline", "/proc/self/status", "/dev/null", "/tmp", "/usr/bin/env",
              "/bin/sh", "C:\\refs.bib", "C:/refs.bib", "\\\\server\\share\\refs.bib", "/nonexistent/refs.bib", "/etc/passwd\n", "/proc/self/cwd/refs.bib",
              "/proc/self/fd/0", "/etc", "/root", "/home"]:
        add("system_path", t, files=["refs.bib"])
    # the library's own artefacts and reserved words (selfref): as document, and as the name of an existing file
    magic = [w for w in selfref.MAGIC_WORDS if isinstance(w, str) and w and "/" not in w and "\x00" not in w and len(w) < 100]
    for i, w in enumerate(magic):
        add("magic_word", w, files=[w] if i % 2 == 0 and w not in (".", "..") else [])
    # parse_file: the content names a file that exists next to the FILE, not in the current directory; or names the file itself
    add("rel_to_file", "other.bib", files=["deep/other.bib"], path=["deep/in.bib"])
    add("rel_to_file", "other.bib\n", files=["deep/other.bib"], path=[T, "/deep/in.bib"])
    add("rel_to_file", "./other.bib", files=["deep/other.bib", "work/x.bib"], path=["../deep/in.bib"], cwd="work")
    add("rel_to_file", "../other.bib", files=["other.bib"], path=["deep/in.bib"], cwd="work")
    add("rel_to_file", "in.bib", path=["in.bib"])
    add("rel_to_file", "in.bib\n", path=["deep/in.bib"])
    add("rel_to_file", [T, "/in.bib"], path=[T, "/in.bib"])
    add("rel_to_file", "deep/in.bib", path=["deep/in.bib"])
    add("rel_to_file", "@misc{x}", path=["@misc{x}"])
    return S


def _parts_ascii(parts):
    return all(p.isascii() for p in parts if isinstance(p, str))


def env_case(rng, sc, op, i, random_stack):
    """One case of the envtext stream from scenario `sc`: the files the text may name get BibTeX documents as content (so that reading
    them instead of splitting the text shows), the stack argument and the file parameters rotate / are drawn."""
    files = [[f, ENV_DOCS[(i + j) % len(ENV_DOCS)] if not random_stack else rng.choice(ENV_DOCS)] for j, f in enumerate(sc["files"])]
    env = dict(kind=sc["kind"], files=files, dirs=sc["dirs"], links=sc["links"], cwd=sc["cwd"], home=sc["home"], vars=sc["vars"])
    if random_stack:
        ps, am = rargs(rng)
    else:
        ps, am = [([], None), (None, None), ([["lib", 1, True], ["lib", 2, False]], None), (None, [["lib", 3, True]]),
                  ([["blk", 4, True, {c: ["self"] for c in CLASSES}]], None), (None, [])][i % 6]
    cont = rng.choice(["list", "list", "tuple", "gen", "iter"]) if random_stack else "list"
    text = sc["text"]
    if op == "parse":
        return {"stream": "envtext", "input": dict(op="parse", text=text, ps=ps, am=am, cont=cont, env=env)}
    if op == "parse_file":
        taken = {f for f, _ in files} | set(sc["dirs"]) | {x[0] for x in sc["links"]}
        path = sc.get("path")
        if path is None:
            path = rng.choice(ENV_PATHS) if random_stack else ENV_PATHS[i % len(ENV_PATHS)]
            flat = "".join(p for p in path if isinstance(p, str)).lstrip("/")
            if any(flat == t or t.startswith(flat + "/") or flat.startswith(t + "/") for t in taken) or sc["cwd"] != ".":
                path = ENV_PATHS[0]
        env["path"] = path
        encs = ENCODINGS if _parts_ascii(text) else ["utf-8", "utf-16"]
        fe = rng.choice(encs) if random_stack else encs[i % len(encs)]
        re_ = None if (fe == "utf-8" and i % 2) else fe
        return {"stream": "envtext", "input": dict(op="parse_file", text=text, file_enc=fe, read_enc=re_, ps=ps, am=am,
                                                    cont="list" if cont == "iter" else cont, env=env)}
    if op == "write":
        return {"stream": "envtext", "input": dict(op="write", text=text, parsed=["raw", "default"][i % 2], ps=ps, am=am, fmt=None, cont=cont, env=env)}
    env["path"] = rng.choice(ENV_PATHS) if random_stack else ENV_PATHS[i % len(ENV_PATHS)]
    return {"stream": "envtext", "input": dict(op="write_file", text=text, parsed=["raw", "default"][i % 2], ps=ps, am=am, fmt=None,
                                                cont="list" if cont in ("gen", "tuple") else cont, target=["path", "path_existing"][i % 2],
                                                enc="utf-8", pre="", env=env)}


def env_cases(rng, n):
    """DOCUMENT TEXT THAT COINCIDES WITH SOMETHING IN THE PROCESS ENVIRONMENT (see the comment above env_scenarios)."""
    S = env_scenarios()
    cases = []
    # bounded exhaustive: every scenario through parse_string and through parse_file (stack argument, path form, encoding rotating)
    for i, sc in enumerate(S):
        if "path" not in sc:
            cases.append(env_case(rng, sc, "parse", i, False))
        cases.append(env_case(rng, sc, "parse_file", i, False))
    # the path handed to parse_file / write_file coincides with something (looks like BibTeX, `-`, `~x`, an encoding name ...): ordinary documents
    plain = dict(kind="path_only", files=[], dirs=[], links=[], cwd=".", home=None, vars=[])
    for i, p in enumerate(ENV_PATHS):
        for k in (0, 1):
            sc = dict(plain, text=[DOCS[ENV_DOCS[(i + k) % len(ENV_DOCS)]]], path=p)
            cases.append(env_case(rng, sc, "parse_file", i + k, False))
        sc = dict(plain, text=[DOCS[ENV_DOCS[i % len(ENV_DOCS)]]])
        cases.append(env_case(rng, sc, "write_file", i, False))
    # writing a library whose text coincides with the environment (every third scenario)
    for i, sc in enumerate(S[::3]):
        if "path" not in sc:
            cases.append(env_case(rng, sc, "write" if i % 3 else "write_file", i, False))
    # random: scenario x entry point x stack in every argument position x container x content of the named files
    for i in range(300 * n):
        sc = rng.choice(S)
        r = rng.random()
        op = "parse" if r < 0.5 else ("parse_file" if r < 0.85 else ("write" if r < 0.93 else "write_file"))
        if "path" in sc:
            op = "parse_file"
        cases.append(env_case(rng, sc, op, i, True))
    return cases


ST_MODES = ["fresh", "buffer", "grow", "const", "libview"]
ST_REPEATABLE = ("fresh", "buffer")      # a pass at most triples the library: the same object may be several times in a stack
ST_LATE = [None, "append_non", "append_block", "clear", "reverse", "pop"]
ST_CONT = ["list", "deque", "bag", "sublist"]


def rplan(rng, bad):
    """What a stateful probe answers on its 1st, 2nd, ... call (cycled): None, the block, or a collection of items."""
    steps = []
    for _ in range(rng.choice([1, 2, 2, 3, 4])):
        r = rng.random()
        if r < 0.1:
            steps.append("none")
        elif r < 0.25:
            steps.append("self")
        else:
            items = []
            for _ in range(rng.choice([0, 1, 1, 2, 2, 3])):
                q = rng.random()
                items.append("self" if q < 0.5 else ("non" if bad and q > 0.85 else ["new", rng.choice(NEW_BLOCKS)]))
            steps.append(["coll", items])
    return steps


def shrink(case):
    inp = case["input"]
    out = []
    if inp.get("op") == "textio":          # shorter byte strings / texts: drop one item at a time
        k = "data" if inp["kind"] == "read" else "text"
        return [{"stream": case.get("stream", "shrink"), "input": dict(inp, **{k: inp[k][:i] + inp[k][i + 1:]})} for i in range(len(inp[k]))][:40]
    if inp.get("op") in ("wtarget", "psource"):
        from props import c20_targets
        return c20_targets.shrink(case)

    def mk(**kw):
        out.append({"stream": case.get("stream", "shrink"), "input": dict(inp, **kw)})
    for a in ("ps", "am"):
        st = inp.get(a)
        if st:
            for i in range(len(st)):
                mk(**{a: st[:i] + st[i + 1:]})
            for i in range(len(st)):
                if st[i][0] == "x":         # fewer protocols on the item
                    if len(st[i][1]) > 1:
                        for j in range(len(st[i][1])):
                            mk(**{a: st[:i] + [["x", st[i][1][:j] + st[i][1][j + 1:], st[i][2]]] + st[i + 1:]})
    if inp.get("fmt"):
        mk(fmt=None)
    if inp.get("blocks"):
        bs = inp["blocks"]
        for i in range(len(bs)):
            mk(blocks=bs[:i] + bs[i + 1:])
    if inp.get("env"):
        env = inp["env"]            # fewer things around the call; the text stays what it is
        for k in ("files", "dirs", "links", "vars"):
            for i in range(len(env.get(k) or [])):
                mk(env=dict(env, **{k: env[k][:i] + env[k][i + 1:]}))
        if env.get("home"):
            mk(env=dict(env, home=None))
    elif inp.get("text"):
        for d in DOCS:
            if len(d) < len(inp["text"]):
                mk(text=d)
    return out


# ------------------------------------------------------------------ probes (defined against the tree under test)
_PROBES = {}


def probes():
    if _PROBES:
        return _PROBES
    import collections
    import collections.abc
    from bibtexparser.library import Library
    from bibtexparser.middlewares import BlockMiddleware, LibraryMiddleware
    from bibtexparser.middlewares.middleware import Middleware
    from bibtexparser.model import Field
    import copy
    import props.c06 as c06
    import props.userclasses as userclasses

    def tag(b, k):
        b.parser_metadata["trace"] = list(b.parser_metadata.get("trace", [])) + [k]

    class LibTag(LibraryMiddleware):
        def __init__(self, k, inplace):
            super().__init__(allow_inplace_modification=inplace)
            self.k = k

        def transform(self, library):
            library = super().transform(library)
            for b in library.blocks:
                tag(b, self.k)
            return library

    class MidTag(Middleware):
        """A direct subclass of the abstract Middleware: the whole of transform() is its own."""

        def __init__(self, k, inplace):
            super().__init__(allow_inplace_modification=inplace)
            self.k = k

        def transform(self, library):
            if not self.allow_inplace_modification:
                library = copy.deepcopy(library)
            for b in library.blocks:
                tag(b, self.k)
            return library

    _deco = {}

    def decorate(base, protos):
        """Subclass of the middleware class `base` that ALSO defines the listed dunder / duck protocols.  None of them is part of
        the middleware interface: the object is to be applied through transform() like any other.  Every use of a protocol is noted
        in the instance's __dict__ (diagnostics), every transform() call is counted."""
        key = (base, tuple(protos))
        if key in _deco:
            return _deco[key]

        def note(self, what):
            self.__dict__.setdefault("_x_log", []).append(what)
        parent = base
        ns = {}
        for p in protos:
            if p == "call_id":
                parent = userclasses.get().with_call(parent)         # the shared helper: __call__ hands its argument back
            elif p == "call_none":
                def __call__(self, *a, **k):
                    note(self, "__call__")
                    return None
                ns["__call__"] = __call__
            elif p == "call_raise":
                def __call__(self, *a, **k):
                    note(self, "__call__")
                    raise RuntimeError("this middleware's __call__ is a helper of its own, not a library transformation")
                ns["__call__"] = __call__
            elif p == "call_noargs":
                def __call__(self):
                    note(self, "__call__")
                    return self
                ns["__call__"] = __call__
            elif p == "iter_empty":
                def __iter__(self):
                    note(self, "__iter__")
                    return iter(())
                ns["__iter__"] = __iter__
            elif p == "iter_mw":
                def __iter__(self):
                    note(self, "__iter__")
                    return iter([LibTag(77, True)])
                ns["__iter__"] = __iter__
            elif p == "seq":
                def __len__(self):
                    note(self, "__len__")
                    return 1

                def __getitem__(self, i):
                    note(self, "__getitem__")
                    if i in (0, -1):
                        return LibTag(78, True)
                    raise IndexError(i)
                ns["__len__"], ns["__getitem__"] = __len__, __getitem__
            elif p == "len0":
                def __len__(self):
                    note(self, "__len__")
                    return 0
                ns["__len__"] = __len__
            elif p == "bool_false":
                def __bool__(self):
                    note(self, "__bool__")
                    return False
                ns["__bool__"] = __bool__
            elif p == "eq_true":
                ns["__eq__"] = lambda self, other: True
                ns["__ne__"] = lambda self, other: False
                ns["__hash__"] = lambda self: 0
            elif p == "unhashable":
                ns["__eq__"] = lambda self, other: self is other
                ns["__hash__"] = None
            elif p in ("getattr", "getattr_none"):
                def __getattr__(self, name, _id=(p == "getattr")):
                    if name.startswith("__") or name.startswith("_x_"):
                        raise AttributeError(name)
                    note(self, "__getattr__(%s)" % name)
                    return (lambda *a, **k: (a[0] if a else None)) if _id else (lambda *a, **k: None)
                ns["__getattr__"] = __getattr__
            else:
                raise ValueError(p)
        up = parent

        def transform(self, library):
            self.__dict__["_x_n"] = self.__dict__.get("_x_n", 0) + 1
            return up.transform(self, library)
        ns["transform"] = transform
        cls = type("X_%s_%s" % ("_".join(protos), base.__name__), (parent,), ns)
        _deco[key] = cls
        return cls

    def make_result(spec, block):
        t = spec[0]
        if t == "none":
            return None
        if t == "self":
            return block
        if t == "coll":
            kind, items = spec[1], spec[2]
            objs = [block if it == "self" else (object() if it == "non" else c06.build_block(it[1])) for it in items]
            n = len(items)
            if kind == "list":
                return objs
            if kind == "tuple":
                return tuple(objs)
            if kind == "deque":
                return collections.deque(objs)
            if kind == "str":
                return "x" * n
            if kind == "bytes":
                return b"x" * n
            if kind == "range":
                return range(n)
            if kind == "dict":
                return {"k%d" % i: block for i in range(n)}
            if kind == "set":
                return set(range(n))
            if kind == "frozenset":
                return frozenset(range(n))
            raise ValueError(kind)
        kind = spec[1]
        if kind == "gen":
            return (x for x in [block])
        if kind == "iter":
            return iter([block])
        if kind == "map":
            return map(lambda x: x, [block])
        if kind == "int":
            return 5
        if kind == "float":
            return 1.5
        if kind == "true":
            return True
        if kind == "false":
            return False
        if kind == "zero":
            return 0
        if kind == "zerofloat":
            return 0.0
        if kind == "falsyobj":
            return _Falsy()
        if kind == "emptygen":
            return (x for x in [])
        if kind == "object":
            return object()
        if kind == "field":
            return Field("a", "b")
        if kind == "library":
            return Library([block])
        raise ValueError(kind)

    class _Falsy:
        def __bool__(self):
            return False

    class BlkProbe(BlockMiddleware):
        def __init__(self, k, inplace, specs):
            super().__init__(allow_inplace_modification=inplace)
            self.k, self.specs = k, specs

        def _do(self, cls, block):
            tag(block, self.k)
            return make_result(self.specs[cls], block)

        def transform_entry(self, entry, library):
            return self._do("entry", entry)

        def transform_string(self, string, library):
            return self._do("string", string)

        def transform_preamble(self, preamble, library):
            return self._do("preamble", preamble)

        def transform_explicit_comment(self, explicit_comment, library):
            return self._do("expl", explicit_comment)

        def transform_implicit_comment(self, implicit_comment, library):
            return self._do("impl", implicit_comment)

    import copy
    from bibtexparser import model as M

    class Bag(collections.abc.Collection):
        """A user-defined mutable Collection (not a Sequence)."""

        def __init__(self, items=()):
            self.items = list(items)

        def __len__(self):
            return len(self.items)

        def __iter__(self):
            return iter(list(self.items))

        def __contains__(self, x):
            return any(x is y for y in self.items)

        def append(self, x):
            self.items.append(x)

        def extend(self, xs):
            self.items.extend(xs)

        def clear(self):
            del self.items[:]

        def reverse(self):
            self.items.reverse()

        def pop(self):
            return self.items.pop()

    class SubList(list):
        pass

    class StatefulProbe(BlockMiddleware):
        """Overrides transform_block (so it sees every block class) and RECORDS, for every call, the block it was handed and the
        content of its answer at the moment it answered.  The answer may live in an object the probe keeps and changes later."""

        def __init__(self, d):
            super().__init__(allow_inplace_modification=d["inplace"])
            self.d = d
            self.calls = 0
            self.buf = None
            self.handed = []
            self.passes = []
            self.new_pass = True
            self.retired = False
            self.volume = 0

        def mark(self):
            self.new_pass = True

        def _new(self, items):
            c = self.d["cont"]
            return {"list": list, "deque": collections.deque, "bag": Bag, "sublist": SubList, "tuple": tuple}[c](items)

        def scribble(self):
            op = self.d["late"]
            if op is None:
                return
            for c in self.handed:
                if isinstance(c, tuple):
                    continue
                if op == "append_non":
                    c.append("not a block")
                elif op == "append_block":
                    c.append(M.ImplicitComment("% added to a result after it was returned"))
                elif op == "clear":
                    c.clear()
                elif op == "reverse":
                    c.reverse()
                elif op == "pop" and len(c):
                    c.pop()

        def transform_block(self, block, library):
            if self.retired or self.calls > 5000 or self.volume > 50000:
                # its case is over (a library that still calls it has kept it somewhere: the plain probes of the other streams
                # report that) or the stack is running away: pass the block through so that the run stays bounded
                return block
            if self.new_pass or self.passes[-1]["lib"] is not library:
                self.passes.append({"lib": library, "inputs": list(library.blocks), "calls": []})
                self.new_pass = False
            arg = block
            if not self.allow_inplace_modification:
                block = copy.deepcopy(block)
            tag(block, self.d["k"])
            self.scribble()
            i = self.calls
            self.calls += 1
            step = self.d["plan"][i % len(self.d["plan"])]
            if step == "none":
                res, snap = None, []
            elif step == "self":
                res, snap = block, [block]
            else:
                mode = self.d["mode"]
                if mode == "libview":
                    res = library.blocks
                else:
                    items = [block if it == "self" else ([object(), None, "text", 0][(i + j) % 4] if it == "non" else c06.build_block(it[1]))
                             for j, it in enumerate(step[1])]
                    if mode == "fresh":
                        res = self._new(items)
                    elif mode == "const":
                        if self.buf is None:
                            self.buf = self._new(items)
                        res = self.buf
                    else:
                        if self.buf is None:
                            self.buf = self._new([])
                        if mode == "buffer":
                            self.buf.clear()
                        self.buf.extend(items)
                        res = self.buf
                    if not any(res is h for h in self.handed):
                        self.handed.append(res)
                snap = list(res)
            self.passes[-1]["calls"].append((arg, snap))
            self.volume += len(snap)
            return res

    _PROBES.update(tag=tag, LibTag=LibTag, BlkProbe=BlkProbe, StatefulProbe=StatefulProbe, MidTag=MidTag, decorate=decorate)
    return _PROBES


_BUILT = {"impl": [], "ref": []}      # the decorated objects of the running case: handed to the entry point / used by the composition


def build_mw(d, side=None):
    import bibtexparser.middlewares as MW
    P = probes()
    if d[0] == "x":
        c = d[2]
        base = {"lib": P["LibTag"], "mid": P["MidTag"], "blk": P["BlkProbe"]}.get(c[0]) or getattr(MW, c[1])
        cls = P["decorate"](base, d[1])
        m = cls(**c[2]) if c[0] == "shipped" else cls(*c[1:])
        if side is not None:
            _BUILT[side].append(m)
        return m
    if d[0] == "lib":
        return P["LibTag"](d[1], d[2])
    if d[0] == "mid":
        return P["MidTag"](d[1], d[2])
    if d[0] == "blk":
        return P["BlkProbe"](d[1], d[2], d[3])
    return getattr(MW, d[1])(**d[2])


def build_stack(st, cont="list"):
    if st is None:
        return None
    ms = [build_mw(d, "impl") for d in st]
    if cont == "tuple":
        return tuple(ms)
    if cont == "gen":
        return (m for m in ms)
    if cont == "iter":
        return iter(ms)
    return ms


# ------------------------------------------------------------------ wire encoding
STUB = [4, [[], [], []], []]


def enc_b(b):
    import enc
    x = enc.enc_block(b)
    if x[0] == enc.B_DUPKEY:
        x[3] = STUB
    return x


def has99(x):
    if isinstance(x, list):
        return (len(x) > 0 and x[0] == 99 and len(x) == 2) or any(has99(y) for y in x)
    return False


def enc_lib(lib):
    return [enc_b(b) for b in lib.blocks]


def enc_spec(s):
    import props.c06 as c06
    if s[0] == "none":
        return [0]
    if s[0] == "self":
        return [1]
    if s[0] == "coll":
        return [2, [[0] if it == "self" else ([2] if it == "non" else [1, enc_b(c06.build_block(it[1]))]) for it in s[2]]]
    return [3]


def enc_mw(d, ident):
    d = core_d(d)           # the extra protocols are no part of the middleware interface: the model sees the middleware
    if d[0] in ("lib", "mid"):
        return [0, d[1]]
    if d[0] == "blk":
        return [1, d[1], [enc_spec(d[3][c]) for c in CLASSES]]
    return [2, ident]


def enc_ostack(st, base):
    if st is None:
        return []
    return [[enc_mw(d, base + i) for i, d in enumerate(st)]]


def enc_ofmt(f, fo):
    import enc
    if f is None:
        return []
    return [[enc.enc_str(f["indent"]), [] if f["col"] == "auto" else [f["col"]], enc.enc_str(f["sep"]), int(f["trailing"]),
             enc.enc_str(fo.parsing_failed_comment)]]


# ------------------------------------------------------------------ manual composition (the oracle) + oracle tables
class Ref:
    def __init__(self):
        self.table = []
        self.stable = []

    def step(self, ident, m, lib):
        import implutil
        before = enc_lib(lib) if ident is not None else None
        try:
            out = m.transform(lib)
        except Exception as e:  # noqa: BLE001
            if ident is not None:
                self.table.append([ident, before, implutil.r_exc(implutil.EXC_CODES.get(type(e).__name__, implutil.EXC_OTHER))])
            raise
        if ident is not None:
            self.table.append([ident, before, implutil.r_ok(enc_lib(out))])
        return out

    def run(self, lib, stack):
        for ident, m in stack:
            lib = self.step(ident, m, lib)
        return lib


def ref_stack(full, add, defaults, prepend):
    """The stack the property text prescribes, as (wire id or None, middleware) pairs."""
    if full is not None and add is not None:
        raise ValueError("both")
    import bibtexparser.middlewares as MW
    if full is not None:
        base = [(i if core_d(d)[0] == "shipped" else None, build_mw(d, "ref")) for i, d in enumerate(full)]
    else:
        base = [(ident, getattr(MW, name)(**kw)) for ident, name, kw in defaults]
    extra = [] if add is None else [(100 + i if core_d(d)[0] == "shipped" else None, build_mw(d, "ref")) for i, d in enumerate(add)]
    return extra + base if prepend else base + extra


DEFAULT_PARSE = [(1000, "ResolveStringReferencesMiddleware", {"allow_inplace_modification": True}),
                 (1001, "RemoveEnclosingMiddleware", {"allow_inplace_modification": True})]
DEFAULT_UNPARSE = [(1002, "AddEnclosingMiddleware", {"allow_inplace_modification": False, "default_enclosing": "{",
                                                      "reuse_previous_enclosing": False, "enclose_integers": True})]


def source_lib(inp):
    import bibtexparser
    if inp.get("parsed") == "raw":
        return bibtexparser.parse_string(inp["text"], parse_stack=[])
    return bibtexparser.parse_string(inp["text"])


def decode_ref(data, encoding):
    """The runtime's text layer on the bytes of the file (codec + BOM handling + universal newlines): the decode oracle."""
    import io
    return io.TextIOWrapper(io.BytesIO(data), encoding=encoding or "utf-8").read()


def outcome(r, f):
    import implutil
    return implutil.r_ok(f(r[1])) if r[0] == "ok" else implutil.r_exc(r[1])


class EnvCtx:
    """The surroundings of one envtext case.  Its directory has a name that is a function of the case and of this process (the absolute
    name is part of some texts: a second evaluation in the same process must see the same text).  __init__ only creates the empty
    directory and resolves text and path; enter() populates it, changes directory and sets the variables; leave() restores all."""

    def __init__(self, inp):
        import hashlib
        import os
        import shutil
        import tempfile
        self.env = env = inp["env"]
        h = hashlib.sha1(json.dumps(inp, sort_keys=True).encode("utf-8")).hexdigest()[:10]
        # a memory file system when there is one: each case makes and removes a few directories, which costs milliseconds each on disk
        base = "/dev/shm" if (os.path.isdir("/dev/shm") and os.access("/dev/shm", os.W_OK | os.X_OK)) else tempfile.gettempdir()
        self.root = os.path.join(os.path.realpath(base), "verif_c20_env_%d_%s" % (os.getpid(), h))
        shutil.rmtree(self.root, ignore_errors=True)
        os.makedirs(self.root)
        self.cwd = os.path.normpath(os.path.join(self.root, env.get("cwd") or "."))
        self.text = self.subst(inp["text"])
        self.path = self.subst(env["path"]) if env.get("path") is not None else None
        self.saved = None

    def subst(self, parts):
        if isinstance(parts, str):
            return parts
        return "".join(p if isinstance(p, str) else {"TMP": self.root}[p[0]] for p in parts)

    def enter(self, content=None):
        """content: the bytes of the file at self.path (parse_file), None when the call itself is to create it."""
        import os
        env = self.env
        touched = (["HOME"] if env.get("home") else []) + [name for name, _ in env.get("vars") or []]
        self.saved = (os.getcwd(), {k: os.environ.get(k) for k in touched})
        os.makedirs(self.cwd, exist_ok=True)
        for d in env.get("dirs") or []:
            os.makedirs(os.path.join(self.root, d), exist_ok=True)
        if env.get("home"):
            os.makedirs(os.path.join(self.root, env["home"]), exist_ok=True)
        for rel, di in env.get("files") or []:
            full = os.path.join(self.root, rel)
            os.makedirs(os.path.dirname(full), exist_ok=True)
            with open(full, "wb") as fh:
                fh.write((DOCS[di] if isinstance(di, int) else di).encode("utf-8"))
        for rel, target in env.get("links") or []:
            os.symlink(target, os.path.join(self.root, rel))
        os.chdir(self.cwd)
        if self.path is not None:
            parent = os.path.dirname(self.path)
            if parent:
                os.makedirs(parent, exist_ok=True)
            if content is not None:
                with open(self.path, "wb") as fh:
                    fh.write(content)
        if env.get("home"):
            os.environ["HOME"] = os.path.join(self.root, env["home"])
        for name, parts in env.get("vars") or []:
            os.environ[name] = self.subst(parts)

    def observe(self):
        """What the text coincides with, measured inside the environment (goes to the distribution)."""
        import os
        t = self.text
        tags = []

        def probe(label, f):
            try:
                if f():
                    tags.append("envobs_" + label)
            except (ValueError, OSError, UnicodeError):
                tags.append("envobs_os_refuses_text")
        probe("text_is_existing_file", lambda: os.path.isfile(t))
        probe("text_is_existing_dir", lambda: os.path.isdir(t))
        probe("text_exists_not_file_not_dir", lambda: os.path.lexists(t) and not os.path.isfile(t) and not os.path.isdir(t))
        probe("stripped_text_exists", lambda: t.strip() != t and os.path.lexists(t.strip()))
        probe("expanduser_text_exists", lambda: os.path.expanduser(t) != t and os.path.lexists(os.path.expanduser(t.strip())))
        probe("expandvars_changes_text", lambda: os.path.expandvars(t) != t)
        probe("text_has_bibtex_chars", lambda: any(c in t for c in "@{}"))
        probe("text_is_one_line", lambda: "\n" not in t.rstrip("\r\n") and "\r" not in t.rstrip("\r\n"))
        return sorted(set(tags))

    def leave(self):
        import os
        import shutil
        if self.saved is not None:
            cwd, old = self.saved
            os.chdir(cwd)
            for k, v in old.items():
                if v is None:
                    os.environ.pop(k, None)
                else:
                    os.environ[k] = v
            self.saved = None
        shutil.rmtree(self.root, ignore_errors=True)


def impl(case):
    import enc
    import implutil
    import os
    import shutil
    import tempfile
    inp = case["input"]
    op = inp["op"]
    rec = {"key": json.dumps(inp, sort_keys=True), "tags": [op]}
    if op in ("transform", "library"):
        return impl_transform(inp, rec)
    if op == "stateful":
        return impl_stateful(inp, rec)
    if op == "textio":
        from props import c20_textio
        return c20_textio.impl(case)
    if op in ("wtarget", "psource"):
        from props import c20_targets
        return c20_targets.impl(case)
    import bibtexparser
    from bibtexparser.splitter import Splitter
    from bibtexparser import writer as W
    import props.c06 as c06
    ps, am, cont = inp.get("ps"), inp.get("am"), inp.get("cont", "list")
    ref = Ref()
    tmp = None
    ctx = None
    del _BUILT["impl"][:], _BUILT["ref"][:]
    try:
        if inp.get("env") is not None:
            # envtext: text and path are resolved against the case's (still empty) directory; every expectation below is computed
            # BEFORE the surroundings exist (ctx.enter), the entry point is called inside them
            ctx = EnvCtx(inp)
            inp = dict(inp, text=ctx.text)
            rec["tags"].append("env_" + inp["env"]["kind"])
        if op in ("parse", "parse_file"):
            dres = None
            if op == "parse_file":
                data = inp["text"].encode(inp["file_enc"])
                if ctx is None:
                    tmp = tempfile.mkdtemp(prefix="verif_c20_")
                    path = os.path.join(tmp, "in.bib")
                    with open(path, "wb") as fh:
                        fh.write(data)
                else:
                    path = ctx.path
                dres = implutil.guarded(lambda: decode_ref(data, inp["read_enc"]))

            def reference():
                if dres is not None:
                    if dres[0] == "exc":
                        raise UnicodeDecodeError("x", b"", 0, 1, "reference")
                    text = dres[1]
                else:
                    text = inp["text"]
                lib = Splitter(text).split()
                ref.stable.append([enc.enc_str(text), implutil.r_ok(enc_lib(lib))])
                return ref.run(lib, ref_stack(ps, am, DEFAULT_PARSE, prepend=False))
            exp = dres if (dres is not None and dres[0] == "exc") else implutil.guarded(reference)
            kw = {}
            if ps is not None:
                kw["parse_stack"] = build_stack(ps, cont)
            if am is not None:
                kw["append_middleware"] = build_stack(am, cont)
            if ctx is not None:
                ctx.enter(data if op == "parse_file" else None)
                rec["tags"] += ctx.observe()
                if op == "parse_file":
                    rec["tags"].append("envpath_" + ("absolute" if os.path.isabs(path) else "relative")
                                       + ("_bibtex_chars" if any(c in os.path.basename(path) for c in "@{}") else ""))
            if op == "parse":
                got = implutil.guarded(lambda: bibtexparser.parse_string(inp["text"], **kw))
                sx_in = [70, enc.enc_str(inp["text"]), ref.stable, enc_ostack(ps, 0), enc_ostack(am, 100), ref.table]
            else:
                if inp["read_enc"] is not None:
                    kw["encoding"] = inp["read_enc"]
                got = implutil.guarded(lambda: bibtexparser.parse_file(path, **kw))
                sx_in = [72, outcome(dres, enc.enc_str), ref.stable, enc_ostack(ps, 0), enc_ostack(am, 100), ref.table]
            rec["sx_out"] = outcome(got, enc_lib)
            e_out = outcome(exp, enc_lib)
            same = rec["sx_out"] == e_out
            summary = ("raised %s" % got[2]) if got[0] == "exc" else repr([type(b).__name__ + ":" + str(b.parser_metadata.get("trace"))
                                                                          for b in got[1].blocks])[:200]
        else:
            f = inp.get("fmt")
            fo_ref, fo = c06.make_fmt(f), c06.make_fmt(f)
            lib0 = source_lib(inp)
            in_enc = enc_lib(lib0)

            def reference():
                st = ref_stack(ps, am, DEFAULT_UNPARSE, prepend=True)
                lib = ref.run(source_lib(inp), st)
                return W.write(lib, fo_ref)
            exp = implutil.guarded(reference)
            if op == "write":
                kw = {}
                if ps is not None:
                    kw["unparse_stack"] = build_stack(ps, cont)
                if am is not None:
                    kw["prepend_middleware"] = build_stack(am, cont)
                if f is not None:
                    kw["bibtex_format"] = fo
                if ctx is not None:
                    ctx.enter()
                    rec["tags"] += ctx.observe()
                got = implutil.guarded(lambda: bibtexparser.write_string(lib0, **kw))
                sx_in = [71, in_enc, enc_ostack(ps, 0), enc_ostack(am, 100), enc_ofmt(f, fo), ref.table]
                rec["sx_out"] = outcome(got, enc.enc_str)
                e_out = outcome(exp, enc.enc_str)
                same = rec["sx_out"] == e_out
                summary = ("raised %s" % got[2]) if got[0] == "exc" else repr(got[1])[:200]
            else:
                kw = {}
                if ps is not None:
                    kw["parse_stack"] = build_stack(ps, cont)
                if am is not None:
                    kw["append_middleware"] = build_stack(am, cont)
                if f is not None:
                    kw["bibtex_format"] = fo
                if ctx is None:
                    tmp = tempfile.mkdtemp(prefix="verif_c20_")
                    path = os.path.join(tmp, "out.bib")
                else:
                    path = ctx.path
                    ctx.enter()
                    rec["tags"] += ctx.observe()
                    rec["tags"].append("envpath_" + ("absolute" if os.path.isabs(path) else "relative")
                                       + ("_bibtex_chars" if any(c in os.path.basename(path) for c in "@{}") else ""))
                target, pre, fenc = inp["target"], inp["pre"], inp["enc"]
                import io
                import locale
                kind, old = 1, pre
                if target in ("path", "path_existing"):
                    kind = 0
                    if target == "path_existing":
                        with open(path, "w") as fh:
                            fh.write("OLD CONTENT " * 50)
                    old = "OLD" if target == "path_existing" else ""

                    def call():
                        r = bibtexparser.write_file(path, lib0, **kw)
                        with open(path, "rb") as fh:
                            return r, fh.read().decode(locale.getpreferredencoding(False))
                elif target == "stringio":
                    def call():
                        s = io.StringIO()
                        s.write(pre)
                        r = bibtexparser.write_file(s, lib0, **kw)
                        return r, s.getvalue()
                else:
                    def call():
                        with open(path, "w", encoding=fenc, newline="") as fh:
                            fh.write(pre)
                            r = bibtexparser.write_file(fh, lib0, **kw)
                        with open(path, "rb") as fh:
                            return r, fh.read().decode(fenc)
                got = implutil.guarded(call)
                sx_in = [73, kind, enc.enc_str(old), in_enc, enc_ostack(ps, 0), enc_ostack(am, 100), enc_ofmt(f, fo), ref.table]
                if target == "fileobj" and exp[0] == "ok":
                    # the sink is the runtime's: a text the file object's codec cannot encode is refused by it
                    try:
                        (pre + exp[1]).encode(fenc)
                    except UnicodeEncodeError:
                        exp = ("exc", implutil.EXC_CODES.get("UnicodeEncodeError", implutil.EXC_OTHER), "UnicodeEncodeError")
                        sx_in = [99, 0]          # outside the executable sink instance: oracle only
                        rec["tags"].append("sink_refuses_text")
                rec["sx_out"] = outcome(got, lambda v: enc.enc_str(v[1]))
                e_out = outcome(exp, lambda t: enc.enc_str((pre if kind == 1 else "") + t))
                same = rec["sx_out"] == e_out and (got[0] == "exc" or got[1][0] is None)
                summary = ("raised %s" % got[2]) if got[0] == "exc" else repr(got[1][1])[:200]
    finally:
        if ctx is not None:
            ctx.leave()
        if tmp:
            shutil.rmtree(tmp, ignore_errors=True)
    rec["summary"] = summary
    if cont in ("gen", "iter"):
        rec["tags"].append("one_shot_iterable")
    # decorated items: transform() of each is called exactly as often as the manual composition calls it - once, or not at
    # all when nothing is applied (ValueError for both arguments, undecodable file) or an earlier item raised
    xi, xr = _BUILT["impl"], _BUILT["ref"]
    n_impl = [m.__dict__.get("_x_n", 0) for m in xi]
    n_ref = [m.__dict__.get("_x_n", 0) for m in xr] if len(xr) == len(xi) else [0] * len(xi)
    used = sorted({w for m in xi for w in m.__dict__.get("_x_log", [])})
    if xi:
        protos = sorted({p for d in (ps or []) + (am or []) if d[0] == "x" for p in d[1]})
        rec["tags"] += ["proto_" + p for p in protos] + ["xbase_" + b for b in sorted({d[2][0] for d in (ps or []) + (am or []) if d[0] == "x"})]
        rec["tags"].append("decorated_items_%d" % min(len(xi), 4))
        if used:
            rec["tags"].append("extra_protocol_used_by_library")
    if same and n_impl != n_ref:
        rec["oracle"] = {"ok": False, "detail": "%s(...): transform() of the decorated stack items was called %s time(s), the composition "
                                                "(each item of the requested stack exactly once, in order) calls them %s time(s); protocols the "
                                                "library used on them: %s" % (op, n_impl, n_ref, used)}
    elif same:
        rec["oracle"] = {"ok": True, "detail": ""}
    else:
        what = ("%s(...) differs from the manual composition (split / given-or-default stack in order / writer): got %s, "
                "composition gives %s" % (op, summary, ("raised code %s" % exp[1]) if exp[0] == "exc" else
                                          (repr(exp[1])[:200] if isinstance(exp[1], str) else
                                           repr([type(b).__name__ + ":" + str(b.parser_metadata.get("trace")) for b in exp[1].blocks])[:200])))
        if xi:
            what += ("; the stack holds middleware objects that also define %s: transform() calls on them %s (composition: %s), protocols "
                     "the library used on them: %s" % (protos, n_impl, n_ref, used))
        rec["oracle"] = {"ok": False, "detail": what}
    rec["sx_in"] = None if (has99(sx_in) or has99(rec["sx_out"])) else sx_in
    n_mw = len(ps or []) + len(am or [])
    rec["nontrivial"] = n_mw > 0 or op in ("parse_file", "write_file")
    rec["tags"] += ["stack_%d" % min(n_mw, 4), "both_args" if (ps is not None and am is not None) else
                    ("full_stack" if ps is not None else ("addition" if am is not None else "defaults"))]
    if op == "parse_file":
        rec["tags"].append("enc_%s_as_%s" % (inp["file_enc"], inp["read_enc"]))
    if op == "write_file":
        rec["tags"].append("target_" + inp["target"])
    if got[0] == "exc":
        rec["tags"].append("raises_" + got[2])
    return rec


def expected_transform(mwd, blocks):
    """The per-block protocol of the property text, on fresh blocks."""
    from bibtexparser.library import Library
    from bibtexparser import model as M
    import props.c06 as c06
    P = probes()
    mwd = core_d(mwd)
    k = mwd[1]
    out = []
    names = {M.Entry: "entry", M.String: "string", M.Preamble: "preamble", M.ExplicitComment: "expl", M.ImplicitComment: "impl"}
    for b in blocks:
        if mwd[0] in ("lib", "mid"):
            P["tag"](b, k)
            out.append(b)
            continue
        cls = names.get(type(b))
        if cls is None:
            out.append(b)
            continue
        P["tag"](b, k)
        spec = mwd[3][cls]
        if spec[0] == "none":
            continue
        if spec[0] == "self":
            out.append(b)
        elif spec[0] == "coll":
            for it in spec[2]:
                if it == "non":
                    raise TypeError("non-block")
                out.append(b if it == "self" else c06.build_block(it[1]))
        else:
            raise TypeError("illegal")
    return Library(out)


def impl_transform(inp, rec):
    import implutil
    from bibtexparser.library import Library
    import props.c06 as c06

    def mk():
        return Library([c06.build_block(d) for d in inp["blocks"]])
    if inp["op"] == "library":
        lib = mk()
        raw_blocks = [c06.build_block(d) for d in inp["blocks"]]
        sx_in = [75, [enc_b(b) for b in raw_blocks]]
        rec["sx_out"] = implutil.r_ok(enc_lib(lib))
        # oracle: nothing dropped or reordered; k-th block is the k-th input or its duplicate-key wrapper
        ok = len(lib.blocks) == len(raw_blocks)
        seen = {"Entry": set(), "String": set()}
        for a, b in zip(raw_blocks, lib.blocks):
            tn = type(a).__name__
            if tn in seen and a.key in seen[tn]:
                ok = ok and (type(b).__name__ == "DuplicateBlockKeyBlock" and enc_b(b.ignore_error_block) == enc_b(a)
                             and b.key == a.key and b.raw == a.raw and b.start_line == a.start_line)
            else:
                ok = ok and enc_b(b) == enc_b(a) and type(b) is type(a)
                if tn in seen:
                    seen[tn].add(a.key)
        rec["oracle"] = {"ok": ok, "detail": "Library(blocks) dropped, reordered or mis-wrapped a block"}
        rec["sx_in"] = None if has99(sx_in) else sx_in
        rec["nontrivial"] = any(type(b).__name__ == "DuplicateBlockKeyBlock" for b in lib.blocks)
        rec["summary"] = repr([type(b).__name__ for b in lib.blocks])[:200]
        return rec
    mwd = inp["mw"]
    lib = mk()
    sx_in = [74, enc_mw(mwd, 0), enc_lib(lib)]
    got = implutil.guarded(lambda: build_mw(mwd).transform(lib))
    if mwd[0] == "x":
        rec["tags"] += ["proto_" + p for p in mwd[1]] + ["xbase_" + mwd[2][0], "decorated_transform"]
        mwd = mwd[2]
    if mwd[0] == "shipped":
        exp = got
        sx_in = None
    else:
        exp = implutil.guarded(lambda: expected_transform(mwd, list(mk().blocks)))
    rec["sx_out"] = outcome(got, enc_lib)
    same = rec["sx_out"] == outcome(exp, enc_lib)
    rec["summary"] = ("raised %s" % got[2]) if got[0] == "exc" else repr([type(b).__name__ for b in got[1].blocks])[:200]
    rec["oracle"] = {"ok": same, "detail": "transform differs from the splice protocol (None / block / collection of blocks in place; "
                                           "TypeError otherwise): got %s" % rec["summary"]}
    rec["sx_in"] = None if (sx_in is None or has99(sx_in) or has99(rec["sx_out"])) else sx_in
    rec["nontrivial"] = mwd[0] == "blk"
    if mwd[0] == "blk":
        kinds = sorted({(s[0] + "_" + s[1]) if s[0] in ("coll", "other") else s[0] for s in mwd[3].values()})
        rec["tags"] += kinds
    if got[0] == "exc":
        rec["tags"].append("raises_" + got[2])
    return rec


# ------------------------------------------------------------------ stateful block probes (oracle only)
def same_blocks(out, exp):
    """out is exp, object by object (Library() may wrap a duplicate-key Entry/String: the wrapper must then hold that object)."""
    return len(out) == len(exp) and all(
        o is e or (type(o).__name__ == "DuplicateBlockKeyBlock" and type(e).__name__ != "DuplicateBlockKeyBlock" and o.ignore_error_block is e)
        for o, e in zip(out, exp))


def names(bs):
    return repr([type(b).__name__ + ":" + str(getattr(b, "key", "") or "") for b in bs])[:300]


def splice_recorded(p):
    """What the property prescribes for one pass of a recording probe over a library: each block of the library, at its position,
    replaced by what the probe answered FOR THAT BLOCK, as the answer was when it was given."""
    pool = list(p["calls"])
    out = []
    for n, b in enumerate(p["inputs"]):
        for i, (a, snap) in enumerate(pool):
            if a is b:
                out.extend(snap)
                del pool[i]
                break
        else:
            return None, "block %d of the library was never handed to transform_block" % n
    if pool:
        return None, "transform_block was called %d time(s) more than the library has blocks" % len(pool)
    return out, ""


def expect_stateful(probe, p0, repeat):
    """-> ("typeerror", None) when a TypeError is the prescribed outcome, ("fail", why) when the recorded calls already contradict the
    per-block protocol, else ("blocks", the blocks the last pass of the probe must have put into the library it returned)."""
    from bibtexparser import model as M
    passes = probe.passes[p0:]
    if any(not isinstance(x, M.Block) for p in passes for _, snap in p["calls"] for x in snap):
        return "typeerror", None
    if len(passes) > repeat:
        return "fail", "the probe object is %d time(s) in the stack but ran %d passes" % (repeat, len(passes))
    final = []
    for j, p in enumerate(passes):
        exp, why = splice_recorded(p)
        if exp is None:
            return "fail", "pass %d: %s" % (j + 1, why)
        if j + 1 < len(passes) and not same_blocks(passes[j + 1]["inputs"], exp):
            return "fail", ("pass %d of the same probe object did not receive the blocks its pass %d returned: expected %s, received %s"
                            % (j + 2, j + 1, names(exp), names(passes[j + 1]["inputs"])))
        final = exp
    if len(passes) < repeat and final:
        return "fail", "the probe object is %d time(s) in the stack but ran only %d pass(es) although blocks were left" % (repeat, len(passes))
    return "blocks", final


_LIVE_STATEFUL = []


def impl_stateful(inp, rec):
    import implutil
    import bibtexparser
    import bibtexparser.middlewares as MW
    from bibtexparser.library import Library
    from bibtexparser import writer as W
    import props.c06 as c06
    P = probes()
    pd, via, repeat, pos = inp["probe"], inp["via"], inp["repeat"], inp["pos"]
    for old in _LIVE_STATEFUL:              # also after a case that was cut short
        old.retired = True
    del _LIVE_STATEFUL[:]
    probe = P["StatefulProbe"](pd)
    _LIVE_STATEFUL.append(probe)
    problems = []
    summary = ""
    for call in range(inp["calls"]):
        probe.mark()
        p0 = len(probe.passes)
        stack = [build_mw(d) for d in inp["prefix"]] + [probe] * repeat
        if via == "transform":
            objs = [c06.build_block(d) for d in inp["blocks"]]
            if inp.get("alias") and objs:
                objs.append(objs[0])            # the same object held twice
            lib = Library(objs)

            def run():
                cur = lib
                for m in stack:
                    cur = m.transform(cur)
                return cur
        elif via == "parse":
            kw = {"parse_stack": stack} if pos == "ps" else {"append_middleware": stack}

            def run():
                return bibtexparser.parse_string(inp["text"], **kw)
        else:
            lib0 = bibtexparser.parse_string(inp["text"])
            kw = {"unparse_stack": stack} if pos == "ps" else {"prepend_middleware": stack}

            def run():
                return bibtexparser.write_string(lib0, **kw)
        got = implutil.guarded(run)
        kind, val = expect_stateful(probe, p0, repeat)
        summary = ("raised %s" % got[2]) if got[0] == "exc" else (repr(got[1])[:200] if via == "write" else names(got[1].blocks))
        here = "call %d: " % (call + 1)
        if kind == "typeerror":
            if not (got[0] == "exc" and got[2] == "TypeError"):
                problems.append(here + "a collection holding a non-block was returned, TypeError expected; got " + summary)
        elif kind == "fail":
            problems.append(here + val + " (outcome: %s)" % summary)
        elif via == "write":
            final = val

            def reference():
                cur = Library(final)
                if pos == "am":
                    for _, name, mkw in DEFAULT_UNPARSE:
                        cur = getattr(MW, name)(**mkw).transform(cur)
                return W.write(cur)
            exp = implutil.guarded(reference)       # the stages after the probe may refuse its blocks: then both must
            if exp[0] != got[0] or exp[1] != got[1]:
                problems.append(here + "the outcome is not that of writing the blocks the probe returned, each at the position of its "
                                       "block: got %s, expected %s" % (summary, repr(exp[1])[:300] if exp[0] == "ok" else "raised " + exp[2]))
        elif got[0] == "exc":
            problems.append(here + "raised %s although every per-block result was None, a block or a collection of blocks when it was "
                                   "returned" % got[2])
        else:
            final = val
            if not same_blocks(got[1].blocks, final):
                problems.append(here + "the library does not hold, at the position of each block, what the probe returned for it "
                                       "(as it was when returned): got %s, expected %s" % (names(got[1].blocks), names(final)))
            else:
                probe.scribble()            # the returned collections are the probe's: changing them now must not reach the library
                if not same_blocks(got[1].blocks, final):
                    problems.append(here + "changing a returned collection after the call changed the resulting library")
    probe.retired = True
    rec.update(sx_in=None, sx_out=None, summary=summary, nontrivial=True,
               oracle={"ok": not problems, "detail": "; ".join(problems)[:1500]})
    rec["tags"] += ["stateful_" + pd["mode"], "late_%s" % pd["late"], "via_" + via, "cont_" + pd["cont"], "repeat_%d" % repeat,
                    "calls_%d" % inp["calls"]]
    if got[0] == "exc":
        rec["tags"].append("raises_" + got[2])
    return rec
