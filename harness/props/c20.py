"""C20 - entry points apply exactly the requested middleware stack, in order."""
import json
import re

ENGINE = "stack"
RULE = ("documents x stacks of 0..3 order-sensitive probe middlewares (library probes and block probes that append their tag to "
        "every block's metadata trace) and shipped middlewares, in every argument position of parse_string / write_string / "
        "parse_file / write_file (none, full stack, addition, both -> ValueError), as lists, tuples, generators and iterators; files in utf-8, latin-1, gbk, "
        "utf-16 with CRLF content, matching and mismatching read encodings, path / StringIO / real file-object targets; block probes "
        "answering None, [], (), one block, lists/tuples/deques of k blocks, generators, iterators, strings, bytes, ranges, dicts, "
        "sets, ints, objects, collections with a non-block, per block class; Library(blocks) with duplicate keys; STATEFUL recording block "
        "probes (oracle only) whose answer lives in an object they keep - a scratch list/deque/user Collection/list subclass cleared and "
        "refilled per block, a growing list, one constant container, the library's own block list - and/or change after returning it "
        "(append a block / a non-block, clear, reverse, pop), one probe object 1..3 times in a stack and used for two successive calls, "
        "through transform / parse_string / write_string: every block must be replaced, at its position, by what was answered for it as "
        "it was when answered. "
        "MIDDLEWARE OBJECTS WITH EXTRA PROTOCOLS (stream proto): direct Middleware subclasses, LibraryMiddleware / BlockMiddleware probes and "
        "subclasses of shipped middlewares that ALSO define __call__ (returning its argument / None / raising / taking no argument), "
        "__iter__ (empty / yielding a foreign probe), __len__+__getitem__, __len__ == 0, __bool__ False, __eq__ always True, __eq__ without "
        "__hash__, a __getattr__ fallback answering every unknown name with a function, alone and combined, 1..3 per stack next to plain "
        "items, in every argument position of the four entry points and through transform: same composition, and transform() of every "
        "item of the stack called exactly as often as the manual composition calls it (once). "
        "distinct = distinct case description; non-trivial = a non-empty stack or a non-trivial splice")
TRUSTED = ["oracle instances supplied by the harness on every case: the graph of Splitter(text).split(), of every shipped middleware "
           "instance on the libraries it is applied to in the manual composition, of the codec (bytes.decode + universal newlines) "
           "and of the sink (file content read back); a missing row is reported as a disagreement",
           "previous_block of duplicate-key blocks is compared as a stub (aliasing is C07/C08's subject)"]
ASSUMPTIONS = ["stack arguments are iterables of middlewares: lists, tuples, generators and iterators are all generated (F13)",
               "codecs, universal-newline translation and the file system are the runtime's (DESIGN C20 Limits): partial"]
CASE_TIMEOUT_S = 30

DOCS = [
    "",
    "@article{k1, title = {A Title}, year = 2020, month = jan}\n",
    "@string{me = \"My Name\"}\n@article{k2, author = me, title = \"Quoted\", note = me # { et al.}}\n",
    "% a comment\n@comment{explicit}\n@preamble{\"pre\"}\n@book{b1, author = {Smith, John and Doe, Jane}, Year = {1999}, month = {3}}\n",
    "@article{dup, a = {1}}\n@article{dup, a = {2}}\n@string{s = {x}}\n@string{s = {y}}\n",
    "@article{bad, title = {unclosed\n@article{ok, title = {fine}, title = {twice}}\n@misc{z, note = {last}}\n",
    "@article{c1,\r\n  title = {CRLF value\r\nsecond line},\r\n  year = 1\r\n}\r\n\r\ntext\r\n@misc{c2, a = {b}}\r\n",
    "@misc{u1, title = {ünicöde élève}, author = {Müller, Jürgen}}\n",
    "@misc{g1, title = {中文标题}, author = {王 小明}}\r\n@comment{注释}\r\n",
    "@misc{z9, b = {2}, a = {1}, C = {3}}\n@article{a0, month = {December}, author = \"A and B and C\"}\nfree text\n@string{zz = {1}}\n",
    # edge characters at the very start / end of the decoded content: parse_file must hand them to parse_string untouched
    "\ufeff@article{bom, a = {b}}\n@comment{after a byte order mark}\n",
    "\ufeff% comment right after a BOM\n@misc{bom2, t = {x}}",
    "\n\n  \t@misc{lead, t = {x}}  \n\n\x0c\n",
    "\x00@misc{nul, t = {a\x00b}}\n\x1a",
    "@misc{noeol, t = {x}}",
]
DOC_ENC = {7: ["utf-8", "latin-1", "utf-16"], 8: ["utf-8", "gbk", "utf-16"], 10: ["utf-8", "utf-16"], 11: ["utf-8", "utf-16"]}
ENCODINGS = ["utf-8", "latin-1", "gbk", "utf-16"]

SHIPPED = [
    ["RemoveEnclosingMiddleware", {"allow_inplace_modification": True}],
    ["RemoveEnclosingMiddleware", {"allow_inplace_modification": False}],
    ["AddEnclosingMiddleware", {"reuse_previous_enclosing": False, "enclose_integers": True, "default_enclosing": "{",
                                "allow_inplace_modification": False}],
    ["AddEnclosingMiddleware", {"reuse_previous_enclosing": True, "enclose_integers": False, "default_enclosing": "\"",
                                "allow_inplace_modification": True}],
    ["ResolveStringReferencesMiddleware", {"allow_inplace_modification": True}],
    ["MonthIntMiddleware", {}],
    ["MonthAbbreviationMiddleware", {}],
    ["SortBlocksByTypeAndKeyMiddleware", {}],
    ["SortFieldsAlphabeticallyMiddleware", {}],
    ["NormalizeFieldKeys", {}],
    ["SeparateCoAuthors", {}],
    ["MergeCoAuthors", {}],
]
CLASSES = ["entry", "string", "preamble", "expl", "impl"]
NEW_BLOCKS = [["entry", "misc", "new1", [["x", "{1}"]], "@misc{new1}"], ["expl", "added"], ["impl", "text"],
              ["string", "ns", "{v}", None], ["preamble", "p"], ["failed", "raw\ntext"],
              ["entry", "article", "k1", [], None], ["string", "me", "{other}", None]]
COLL_KINDS = ["list", "tuple", "deque"]
NONBLOCK_COLL = ["str", "bytes", "range", "dict", "set", "frozenset"]
# non-block results, incl. FALSY ones that are neither None nor an empty collection (False, 0, 0.0, an object with __bool__ False)
OTHER_KINDS = ["gen", "iter", "int", "object", "true", "field", "library", "map", "float", "false", "zero", "zerofloat", "falsyobj",
               "emptygen"]


# extra dunder / duck protocols a user's middleware class may define besides the middleware interface (stream proto)
PROTOS = ["call_id", "call_none", "call_raise", "call_noargs", "iter_empty", "iter_mw", "seq", "len0", "bool_false", "eq_true",
          "unhashable", "getattr", "getattr_none"]


def core_d(d):
    """The descriptor without its protocol decoration."""
    return d[2] if d[0] == "x" else d


# ------------------------------------------------------------------ generators
def rxmw(rng, p_x=0.75):
    """A middleware descriptor of the proto stream: any probe / shipped middleware, decorated with 1..3 extra protocols."""
    inner = rmw(rng)
    if inner[0] == "lib" and rng.random() < 0.4:
        inner = ["mid"] + inner[1:]
    if rng.random() >= p_x:
        return inner
    return ["x", rng.sample(PROTOS, rng.choice([1, 1, 1, 2, 2, 3])), inner]


def rxstack(rng):
    st = [rxmw(rng) for _ in range(rng.choice([1, 1, 2, 2, 3]))]
    if not any(d[0] == "x" for d in st):
        i = rng.randrange(len(st))
        st[i] = ["x", [rng.choice(PROTOS)], st[i]]
    return st


def rxargs(rng):
    r = rng.random()
    if r < 0.45:
        return rxstack(rng), None
    if r < 0.9:
        return None, rxstack(rng)
    return rxstack(rng), rxstack(rng)


def proto_cases(rng, n):
    """MIDDLEWARE OBJECTS WITH EXTRA PROTOCOLS in every stack argument position of every entry point, and through transform."""
    import props.c06 as c06
    cases = []
    plain = {c: ["self"] for c in CLASSES}
    bases = [lambda i: ["mid", 3 + i % 5, i % 3 != 0], lambda i: ["lib", 3 + i % 5, i % 3 != 1],
             lambda i: ["blk", 3 + i % 5, i % 3 != 2, dict(plain, **({"impl": ["none"]} if i % 2 else {"expl": ["coll", "list", ["self", ["new", NEW_BLOCKS[1]]]]}))],
             lambda i: ["shipped"] + SHIPPED[i % len(SHIPPED)]]
    docs = [DOCS[1], DOCS[2], DOCS[3], DOCS[9], DOCS[3] + DOCS[2]]
    i = 0
    # bounded exhaustive: protocol x kind of base class x entry point x argument position, the position in the stack rotating
    for proto in PROTOS:
        for bi, base in enumerate(bases):
            for op in ("parse", "write"):
                for pos in ("ps", "am"):
                    i += 1
                    x = ["x", [proto], base(i)]
                    st = [[x], [x, ["lib", 2, True]], [["lib", 1, True], x], [["lib", 1, True], x, ["lib", 2, False]],
                          [x, ["x", [proto], bases[(bi + 1) % 4](i + 1)]], [["shipped"] + SHIPPED[i % len(SHIPPED)], x]][i % 6]
                    a = {"ps": None, "am": None}
                    a[pos] = st
                    inp = dict(op=op, text=docs[i % len(docs)], cont=["list", "tuple", "gen", "iter"][i % 4], **a)
                    if op == "write":
                        inp.update(parsed=["default", "raw"][i % 5 == 0], fmt=None)
                    cases.append({"stream": "proto", "input": inp})
        for op in ("parse_file", "write_file"):
            for pos in ("ps", "am"):
                i += 1
                x = ["x", [proto], bases[i % 4](i)]
                a = {"ps": None, "am": None}
                a[pos] = [[x], [["lib", 1, True], x], [x, ["lib", 2, True]]][i % 3]
                if op == "parse_file":
                    fe = ENCODINGS[i % 4]
                    inp = dict(op=op, text=docs[i % 4], file_enc=fe, read_enc=fe, cont=["list", "tuple", "gen"][i % 3], **a)
                else:
                    inp = dict(op=op, text=docs[i % 4], parsed="default", fmt=None, cont=["list", "tuple", "iter"][i % 3],
                               target=["path", "path_existing", "stringio", "fileobj"][i % 4], enc=ENCODINGS[i % 4], pre=["", "PRE\n"][i % 2], **a)
                cases.append({"stream": "proto", "input": inp})
        # the per-block protocol of a decorated probe, judged by expected_transform
        for base in bases[:3]:
            i += 1
            blocks = [["expl", "first"], ["entry", "article", "k1", [["a", "{1}"]], "@article{k1}"], ["string", "me", "{v}", "@string{me}"],
                      ["preamble", "pp"], ["impl", "free"], ["failed", "broken"], ["expl", "last"]]
            cases.append({"stream": "proto", "input": dict(op="transform", mw=["x", [proto], base(i)], blocks=blocks)})
    # random: 1..3 items per stack, 1..3 protocols per decorated item, every position incl. both (-> ValueError)
    for _ in range(220 * n):
        ps, am = rxargs(rng)
        r = rng.random()
        text, di = rdoc(rng)
        encs = DOC_ENC.get(di, ENCODINGS if text.isascii() else ["utf-8", "utf-16"])
        if r < 0.3:
            inp = dict(op="parse", text=text, ps=ps, am=am, cont=rng.choice(["list", "list", "tuple", "gen", "iter"]))
        elif r < 0.6:
            inp = dict(op="write", text=text, parsed=rng.choice(["default", "raw"]), ps=ps, am=am, fmt=rfmt(rng),
                       cont=rng.choice(["list", "list", "tuple", "gen", "iter"]))
        elif r < 0.8:
            fe = rng.choice(encs)
            inp = dict(op="parse_file", text=text, file_enc=fe, read_enc=fe if rng.random() < 0.8 else None, ps=ps, am=am,
                       cont=rng.choice(["list", "tuple", "gen"]))
        else:
            inp = dict(op="write_file", text=text, parsed=rng.choice(["default", "raw"]), ps=ps, am=am, fmt=rfmt(rng),
                       cont=rng.choice(["list", "tuple", "iter"]), target=rng.choice(["path", "path_existing", "stringio", "fileobj"]),
                       enc=rng.choice(encs), pre=rng.choice(["", "PRE\n", "% header\r\n"]))
        cases.append({"stream": "proto", "input": inp})
    for _ in range(40 * n):
        keys, skeys = [], []
        blocks = [c06.rblock(rng, keys, skeys) for _ in range(rng.choice([0, 1, 2, 3, 5, 8]))]
        mwd = rxmw(rng, p_x=1.0)
        while core_d(mwd)[0] == "shipped":
            mwd = rxmw(rng, p_x=1.0)
        cases.append({"stream": "proto", "input": dict(op="transform", mw=mwd, blocks=blocks)})
    return cases


def rspec(rng, in_stack):
    r = rng.random()
    if r < (0.6 if in_stack else 0.15):
        return ["self"]
    if r < (0.68 if in_stack else 0.27):
        return ["none"]
    if r < (0.93 if in_stack else 0.75):
        if rng.random() < 0.25:
            return ["coll", rng.choice(NONBLOCK_COLL), ["non"] * rng.choice([0, 0, 0, 1, 2])]
        n = rng.choice([0, 1, 1, 2, 3])
        items, used_self = [], False
        for _ in range(n):
            q = rng.random()
            if q < 0.45 and not (in_stack and used_self):
                items.append("self")
                used_self = True
            elif q < 0.92 or in_stack:
                items.append(["new", rng.choice(NEW_BLOCKS)])
            else:
                items.append("non")
        if not in_stack and rng.random() < 0.1:
            items.insert(rng.randint(0, len(items)), "non")
        return ["coll", rng.choice(COLL_KINDS), items]
    return ["other", rng.choice(OTHER_KINDS)]


def rmw(rng, in_stack=True, bad=False):
    r = rng.random()
    k = rng.randint(1, 9)
    if r < 0.4:
        return ["lib", k, rng.random() < 0.7]
    if r < 0.7:
        specs = {c: rspec(rng, in_stack) for c in CLASSES}
        if in_stack and not bad:
            for c in CLASSES:
                if specs[c][0] == "other" or (specs[c][0] == "coll" and "non" in specs[c][2]):
                    if rng.random() < 0.85:
                        specs[c] = ["self"]
        return ["blk", k, rng.random() < 0.7, specs]
    return ["shipped"] + rng.choice(SHIPPED)


def rstack(rng, p_none=0.0):
    if rng.random() < p_none:
        return None
    return [rmw(rng) for _ in range(rng.choice([0, 1, 1, 2, 2, 3]))]


def rdoc(rng):
    i = rng.randrange(len(DOCS))
    if rng.random() < 0.3:
        j = rng.randrange(len(DOCS))
        return DOCS[i] + DOCS[j], None
    return DOCS[i], i


def rfmt(rng):
    import props.c06 as c06
    return c06.rfmt(rng) if rng.random() < 0.5 else None


def rargs(rng):
    """(full stack, addition): every argument position incl. both (-> ValueError)."""
    r = rng.random()
    if r < 0.12:
        return None, None
    if r < 0.45:
        return rstack(rng), None
    if r < 0.88:
        return None, rstack(rng)
    return rstack(rng), rstack(rng)


def generate(rng, tier):
    quick = tier == "quick"
    n = 1 if quick else 30
    cases = []
    # ordered pairs/triples of probes in each position, every document (bounded exhaustive)
    for di in range(len(DOCS)):
        for pos in ("ps", "am"):
            for st in ([], [["lib", 1, True]], [["lib", 1, True], ["lib", 2, True]], [["lib", 2, True], ["lib", 1, False]],
                       [["lib", 1, True], ["shipped"] + SHIPPED[0], ["lib", 2, True]],
                       [["shipped"] + SHIPPED[5], ["blk", 3, True, {c: ["self"] for c in CLASSES}], ["shipped"] + SHIPPED[6]]):
                a = {"ps": None, "am": None}
                a[pos] = st
                cases.append({"stream": "parse", "input": dict(op="parse", text=DOCS[di], cont="list", **a)})
                cases.append({"stream": "write", "input": dict(op="write", text=DOCS[di], parsed="default", fmt=None, cont="list", **a)})
    for _ in range(250 * n):
        ps, am = rargs(rng)
        cases.append({"stream": "parse", "input": dict(op="parse", text=rdoc(rng)[0], ps=ps, am=am, cont=rng.choice(["list", "list", "tuple", "gen", "iter"]))})
    for _ in range(250 * n):
        ps, am = rargs(rng)
        cases.append({"stream": "write", "input": dict(op="write", text=rdoc(rng)[0], parsed=rng.choice(["default", "raw"]), ps=ps, am=am,
                                                       fmt=rfmt(rng), cont=rng.choice(["list", "list", "tuple", "gen", "iter"]))})
    for _ in range(40 * n):
        ps, am = rargs(rng)
        if ps is None and am is None:
            am = [["lib", 1, True]]
        cases.append({"stream": "oneshot", "input": dict(op=rng.choice(["parse", "write"]), text=rdoc(rng)[0], parsed="default", ps=ps, am=am,
                                                         fmt=None, cont=rng.choice(["gen", "iter"]))})
    # files
    for _ in range(160 * n):
        text, di = rdoc(rng)
        encs = DOC_ENC.get(di, ["utf-8", "latin-1", "gbk", "utf-16"] if text.isascii() else ["utf-8", "utf-16"])
        fe = rng.choice(encs)
        r = rng.random()
        re_ = fe if r < 0.7 else (None if r < 0.8 else rng.choice(ENCODINGS))
        ps, am = rargs(rng)
        cases.append({"stream": "parse_file", "input": dict(op="parse_file", text=text, file_enc=fe, read_enc=re_, ps=ps, am=am, cont=rng.choice(["list", "tuple", "gen"]))})
    for _ in range(160 * n):
        text, di = rdoc(rng)
        encs = DOC_ENC.get(di, ["utf-8", "latin-1", "gbk", "utf-16"] if text.isascii() else ["utf-8", "utf-16"])
        ps, am = rargs(rng)
        cases.append({"stream": "write_file", "input": dict(op="write_file", text=text, parsed=rng.choice(["default", "raw"]), ps=ps, am=am,
                                                            fmt=rfmt(rng), cont=rng.choice(["list", "tuple", "iter"]), target=rng.choice(["path", "path_existing", "stringio", "fileobj"]),
                                                            enc=rng.choice(encs), pre=rng.choice(["", "PRE\n", "% header\r\n"]))})
    # the splice protocol
    import props.c06 as c06
    for cls_i, cls in enumerate(CLASSES):
        for spec in ([["none"], ["self"], ["coll", "list", []], ["coll", "tuple", []], ["coll", "str", []], ["coll", "dict", []],
                      ["coll", "set", []], ["coll", "bytes", []], ["coll", "range", []], ["coll", "str", ["non"]],
                      ["coll", "str", ["non", "non"]], ["coll", "dict", ["non"]], ["coll", "set", ["non"]], ["coll", "bytes", ["non"]],
                      ["coll", "range", ["non", "non"]]]
                     + [["coll", kind, items] for kind in COLL_KINDS for items in (
                         ["self"], ["self", "self"], ["self", ["new", NEW_BLOCKS[0]]], [["new", NEW_BLOCKS[1]], "self", ["new", NEW_BLOCKS[2]]],
                         ["non"], ["self", "non"], ["non", "self"], [["new", NEW_BLOCKS[0]], ["new", NEW_BLOCKS[0]]])]
                     + [["other", k] for k in OTHER_KINDS]):
            specs = {c: ["self"] for c in CLASSES}
            specs[cls] = spec
            blocks = [["expl", "first"], ["entry", "article", "k1", [["a", "{1}"]], "@article{k1}"], ["string", "me", "{v}", "@string{me}"],
                      ["preamble", "pp"], ["impl", "free"], ["failed", "broken"], ["entry", "book", "k2", [], None], ["expl", "last"]]
            cases.append({"stream": "splice", "input": dict(op="transform", mw=["blk", 4, cls_i % 2 == 0, specs], blocks=blocks)})
    for _ in range(300 * n):
        keys, skeys = [], []
        blocks = [c06.rblock(rng, keys, skeys) for _ in range(rng.choice([0, 1, 2, 3, 5, 8]))]
        mwd = rmw(rng, in_stack=False, bad=True)
        while mwd[0] == "shipped":
            mwd = rmw(rng, in_stack=False, bad=True)
        cases.append({"stream": "splice", "input": dict(op="transform", mw=mwd, blocks=blocks)})
    for _ in range(60 * n):
        keys, skeys = ["k"], ["s"]
        blocks = [c06.rblock(rng, keys, skeys) for _ in range(rng.choice([0, 1, 2, 4, 7]))]
        cases.append({"stream": "library", "input": dict(op="library", blocks=blocks)})
    # STATEFUL block probes: the collection handed back for one block is an object the probe keeps (a scratch buffer that is
    # cleared and refilled, a list that grows, one constant container, the library's own block list) and/or changes after
    # it was returned; ONE probe object used r times in a stack and for two successive entry-point calls
    plan0 = [["coll", [["new", NEW_BLOCKS[2]], "self"]], ["coll", ["self"]], ["coll", []], "self",
             ["coll", ["self", ["new", NEW_BLOCKS[1]]]], "none"]
    fixed_blocks = [["expl", "first"], ["entry", "article", "k1", [["a", "{1}"]], "@article{k1}"], ["string", "me", "{v}", "@string{me}"],
                    ["preamble", "pp"], ["impl", "free"], ["failed", "broken"], ["entry", "book", "k2", [], None], ["expl", "last"]]
    i = 0
    for mode in ST_MODES:
        for late in ([None] if mode == "libview" else ST_LATE):
            for via in ("transform", "parse", "write"):
                for cont in (ST_CONT if late is None else [ST_CONT[i % len(ST_CONT)]]):
                    i += 1
                    probe = dict(k=5, inplace=i % 3 != 0, mode=mode, cont=cont, late=late, plan=plan0)
                    inp = dict(op="stateful", via=via, probe=probe, repeat=1 + (i % 5 == 0 and mode in ST_REPEATABLE), calls=1 + (i % 2),
                               pos=("ps", "am")[i % 4 == 0], prefix=[], alias=False)
                    if via == "transform":
                        inp["blocks"] = fixed_blocks
                    else:
                        inp["text"] = DOCS[3] + DOCS[9]
                    cases.append({"stream": "stateful", "input": inp})
    for _ in range(260 * n):
        mode = rng.choice(ST_MODES + ["buffer", "fresh"])
        bad = rng.random() < 0.15
        probe = dict(k=rng.randint(1, 9), inplace=rng.random() < 0.7, mode=mode,
                     cont=rng.choice(ST_CONT + (["tuple"] if mode in ("fresh", "const") else [])),
                     late=None if mode == "libview" else rng.choice(ST_LATE), plan=rplan(rng, bad))
        via = rng.choice(["transform", "parse", "write"])
        inp = dict(op="stateful", via=via, probe=probe, repeat=rng.choice([1, 1, 1, 2, 3]) if mode in ST_REPEATABLE else 1, calls=rng.choice([1, 1, 2]),
                   pos=rng.choice(["ps", "am"]), alias=rng.random() < 0.2,
                   prefix=rng.choice([[], [], [["lib", 1, True]], [["lib", 2, False]], [["shipped"] + SHIPPED[7]],
                                      [["blk", 3, True, {c: ["self"] for c in CLASSES}]]]))
        if via == "transform":
            keys, skeys = [], []
            inp["blocks"] = [c06.rblock(rng, keys, skeys) for _ in range(rng.choice([0, 1, 2, 3, 5, 8]))]
        else:
            inp["text"] = rdoc(rng)[0]
        cases.append({"stream": "stateful", "input": inp})
    cases += proto_cases(rng, n)
    return cases


ST_MODES = ["fresh", "buffer", "grow", "const", "libview"]
ST_REPEATABLE = ("fresh", "buffer")      # a pass at most triples the library: the same object may be several times in a stack
ST_LATE = [None, "append_non", "append_block", "clear", "reverse", "pop"]
ST_CONT = ["list", "deque", "bag", "sublist"]


def rplan(rng, bad):
    """What a stateful probe answers on its 1st, 2nd, ... call (cycled): None, the block, or a collection of items."""
    steps = []
    for _ in range(rng.choice([1, 2, 2, 3, 4])):
        r = rng.random()
        if r < 0.1:
            steps.append("none")
        elif r < 0.25:
            steps.append("self")
        else:
            items = []
            for _ in range(rng.choice([0, 1, 1, 2, 2, 3])):
                q = rng.random()
                items.append("self" if q < 0.5 else ("non" if bad and q > 0.85 else ["new", rng.choice(NEW_BLOCKS)]))
            steps.append(["coll", items])
    return steps


def shrink(case):
    inp = case["input"]
    out = []

    def mk(**kw):
        out.append({"stream": case.get("stream", "shrink"), "input": dict(inp, **kw)})
    for a in ("ps", "am"):
        st = inp.get(a)
        if st:
            for i in range(len(st)):
                mk(**{a: st[:i] + st[i + 1:]})
            for i in range(len(st)):
                if st[i][0] == "x":         # fewer protocols on the item
                    if len(st[i][1]) > 1:
                        for j in range(len(st[i][1])):
                            mk(**{a: st[:i] + [["x", st[i][1][:j] + st[i][1][j + 1:], st[i][2]]] + st[i + 1:]})
    if inp.get("fmt"):
        mk(fmt=None)
    if inp.get("blocks"):
        bs = inp["blocks"]
        for i in range(len(bs)):
            mk(blocks=bs[:i] + bs[i + 1:])
    if inp.get("text"):
        for d in DOCS:
            if len(d) < len(inp["text"]):
                mk(text=d)
    return out


# ------------------------------------------------------------------ probes (defined against the tree under test)
_PROBES = {}


def probes():
    if _PROBES:
        return _PROBES
    import collections
    import collections.abc
    from bibtexparser.library import Library
    from bibtexparser.middlewares import BlockMiddleware, LibraryMiddleware
    from bibtexparser.middlewares.middleware import Middleware
    from bibtexparser.model import Field
    import copy
    import props.c06 as c06
    import props.userclasses as userclasses

    def tag(b, k):
        b.parser_metadata["trace"] = list(b.parser_metadata.get("trace", [])) + [k]

    class LibTag(LibraryMiddleware):
        def __init__(self, k, inplace):
            super().__init__(allow_inplace_modification=inplace)
            self.k = k

        def transform(self, library):
            library = super().transform(library)
            for b in library.blocks:
                tag(b, self.k)
            return library

    class MidTag(Middleware):
        """A direct subclass of the abstract Middleware: the whole of transform() is its own."""

        def __init__(self, k, inplace):
            super().__init__(allow_inplace_modification=inplace)
            self.k = k

        def transform(self, library):
            if not self.allow_inplace_modification:
                library = copy.deepcopy(library)
            for b in library.blocks:
                tag(b, self.k)
            return library

    _deco = {}

    def decorate(base, protos):
        """Subclass of the middleware class `base` that ALSO defines the listed dunder / duck protocols.  None of them is part of
        the middleware interface: the object is to be applied through transform() like any other.  Every use of a protocol is noted
        in the instance's __dict__ (diagnostics), every transform() call is counted."""
        key = (base, tuple(protos))
        if key in _deco:
            return _deco[key]

        def note(self, what):
            self.__dict__.setdefault("_x_log", []).append(what)
        parent = base
        ns = {}
        for p in protos:
            if p == "call_id":
                parent = userclasses.get().with_call(parent)         # the shared helper: __call__ hands its argument back
            elif p == "call_none":
                def __call__(self, *a, **k):
                    note(self, "__call__")
                    return None
                ns["__call__"] = __call__
            elif p == "call_raise":
                def __call__(self, *a, **k):
                    note(self, "__call__")
                    raise RuntimeError("this middleware's __call__ is a helper of its own, not a library transformation")
                ns["__call__"] = __call__
            elif p == "call_noargs":
                def __call__(self):
                    note(self, "__call__")
                    return self
                ns["__call__"] = __call__
            elif p == "iter_empty":
                def __iter__(self):
                    note(self, "__iter__")
                    return iter(())
                ns["__iter__"] = __iter__
            elif p == "iter_mw":
                def __iter__(self):
                    note(self, "__iter__")
                    return iter([LibTag(77, True)])
                ns["__iter__"] = __iter__
            elif p == "seq":
                def __len__(self):
                    note(self, "__len__")
                    return 1

                def __getitem__(self, i):
                    note(self, "__getitem__")
                    if i in (0, -1):
                        return LibTag(78, True)
                    raise IndexError(i)
                ns["__len__"], ns["__getitem__"] = __len__, __getitem__
            elif p == "len0":
                def __len__(self):
                    note(self, "__len__")
                    return 0
                ns["__len__"] = __len__
            elif p == "bool_false":
                def __bool__(self):
                    note(self, "__bool__")
                    return False
                ns["__bool__"] = __bool__
            elif p == "eq_true":
                ns["__eq__"] = lambda self, other: True
                ns["__ne__"] = lambda self, other: False
                ns["__hash__"] = lambda self: 0
            elif p == "unhashable":
                ns["__eq__"] = lambda self, other: self is other
                ns["__hash__"] = None
            elif p in ("getattr", "getattr_none"):
                def __getattr__(self, name, _id=(p == "getattr")):
                    if name.startswith("__") or name.startswith("_x_"):
                        raise AttributeError(name)
                    note(self, "__getattr__(%s)" % name)
                    return (lambda *a, **k: (a[0] if a else None)) if _id else (lambda *a, **k: None)
                ns["__getattr__"] = __getattr__
            else:
                raise ValueError(p)
        up = parent

        def transform(self, library):
            self.__dict__["_x_n"] = self.__dict__.get("_x_n", 0) + 1
            return up.transform(self, library)
        ns["transform"] = transform
        cls = type("X_%s_%s" % ("_".join(protos), base.__name__), (parent,), ns)
        _deco[key] = cls
        return cls

    def make_result(spec, block):
        t = spec[0]
        if t == "none":
            return None
        if t == "self":
            return block
        if t == "coll":
            kind, items = spec[1], spec[2]
            objs = [block if it == "self" else (object() if it == "non" else c06.build_block(it[1])) for it in items]
            n = len(items)
            if kind == "list":
                return objs
            if kind == "tuple":
                return tuple(objs)
            if kind == "deque":
                return collections.deque(objs)
            if kind == "str":
                return "x" * n
            if kind == "bytes":
                return b"x" * n
            if kind == "range":
                return range(n)
            if kind == "dict":
                return {"k%d" % i: block for i in range(n)}
            if kind == "set":
                return set(range(n))
            if kind == "frozenset":
                return frozenset(range(n))
            raise ValueError(kind)
        kind = spec[1]
        if kind == "gen":
            return (x for x in [block])
        if kind == "iter":
            return iter([block])
        if kind == "map":
            return map(lambda x: x, [block])
        if kind == "int":
            return 5
        if kind == "float":
            return 1.5
        if kind == "true":
            return True
        if kind == "false":
            return False
        if kind == "zero":
            return 0
        if kind == "zerofloat":
            return 0.0
        if kind == "falsyobj":
            return _Falsy()
        if kind == "emptygen":
            return (x for x in [])
        if kind == "object":
            return object()
        if kind == "field":
            return Field("a", "b")
        if kind == "library":
            return Library([block])
        raise ValueError(kind)

    class _Falsy:
        def __bool__(self):
            return False

    class BlkProbe(BlockMiddleware):
        def __init__(self, k, inplace, specs):
            super().__init__(allow_inplace_modification=inplace)
            self.k, self.specs = k, specs

        def _do(self, cls, block):
            tag(block, self.k)
            return make_result(self.specs[cls], block)

        def transform_entry(self, entry, library):
            return self._do("entry", entry)

        def transform_string(self, string, library):
            return self._do("string", string)

        def transform_preamble(self, preamble, library):
            return self._do("preamble", preamble)

        def transform_explicit_comment(self, explicit_comment, library):
            return self._do("expl", explicit_comment)

        def transform_implicit_comment(self, implicit_comment, library):
            return self._do("impl", implicit_comment)

    import copy
    from bibtexparser import model as M

    class Bag(collections.abc.Collection):
        """A user-defined mutable Collection (not a Sequence)."""

        def __init__(self, items=()):
            self.items = list(items)

        def __len__(self):
            return len(self.items)

        def __iter__(self):
            return iter(list(self.items))

        def __contains__(self, x):
            return any(x is y for y in self.items)

        def append(self, x):
            self.items.append(x)

        def extend(self, xs):
            self.items.extend(xs)

        def clear(self):
            del self.items[:]

        def reverse(self):
            self.items.reverse()

        def pop(self):
            return self.items.pop()

    class SubList(list):
        pass

    class StatefulProbe(BlockMiddleware):
        """Overrides transform_block (so it sees every block class) and RECORDS, for every call, the block it was handed and the
        content of its answer at the moment it answered.  The answer may live in an object the probe keeps and changes later."""

        def __init__(self, d):
            super().__init__(allow_inplace_modification=d["inplace"])
            self.d = d
            self.calls = 0
            self.buf = None
            self.handed = []
            self.passes = []
            self.new_pass = True
            self.retired = False
            self.volume = 0

        def mark(self):
            self.new_pass = True

        def _new(self, items):
            c = self.d["cont"]
            return {"list": list, "deque": collections.deque, "bag": Bag, "sublist": SubList, "tuple": tuple}[c](items)

        def scribble(self):
            op = self.d["late"]
            if op is None:
                return
            for c in self.handed:
                if isinstance(c, tuple):
                    continue
                if op == "append_non":
                    c.append("not a block")
                elif op == "append_block":
                    c.append(M.ImplicitComment("% added to a result after it was returned"))
                elif op == "clear":
                    c.clear()
                elif op == "reverse":
                    c.reverse()
                elif op == "pop" and len(c):
                    c.pop()

        def transform_block(self, block, library):
            if self.retired or self.calls > 5000 or self.volume > 50000:
                # its case is over (a library that still calls it has kept it somewhere: the plain probes of the other streams
                # report that) or the stack is running away: pass the block through so that the run stays bounded
                return block
            if self.new_pass or self.passes[-1]["lib"] is not library:
                self.passes.append({"lib": library, "inputs": list(library.blocks), "calls": []})
                self.new_pass = False
            arg = block
            if not self.allow_inplace_modification:
                block = copy.deepcopy(block)
            tag(block, self.d["k"])
            self.scribble()
            i = self.calls
            self.calls += 1
            step = self.d["plan"][i % len(self.d["plan"])]
            if step == "none":
                res, snap = None, []
            elif step == "self":
                res, snap = block, [block]
            else:
                mode = self.d["mode"]
                if mode == "libview":
                    res = library.blocks
                else:
                    items = [block if it == "self" else ([object(), None, "text", 0][(i + j) % 4] if it == "non" else c06.build_block(it[1]))
                             for j, it in enumerate(step[1])]
                    if mode == "fresh":
                        res = self._new(items)
                    elif mode == "const":
                        if self.buf is None:
                            self.buf = self._new(items)
                        res = self.buf
                    else:
                        if self.buf is None:
                            self.buf = self._new([])
                        if mode == "buffer":
                            self.buf.clear()
                        self.buf.extend(items)
                        res = self.buf
                    if not any(res is h for h in self.handed):
                        self.handed.append(res)
                snap = list(res)
            self.passes[-1]["calls"].append((arg, snap))
            self.volume += len(snap)
            return res

    _PROBES.update(tag=tag, LibTag=LibTag, BlkProbe=BlkProbe, StatefulProbe=StatefulProbe, MidTag=MidTag, decorate=decorate)
    return _PROBES


_BUILT = {"impl": [], "ref": []}      # the decorated objects of the running case: handed to the entry point / used by the composition


def build_mw(d, side=None):
    import bibtexparser.middlewares as MW
    P = probes()
    if d[0] == "x":
        c = d[2]
        base = {"lib": P["LibTag"], "mid": P["MidTag"], "blk": P["BlkProbe"]}.get(c[0]) or getattr(MW, c[1])
        cls = P["decorate"](base, d[1])
        m = cls(**c[2]) if c[0] == "shipped" else cls(*c[1:])
        if side is not None:
            _BUILT[side].append(m)
        return m
    if d[0] == "lib":
        return P["LibTag"](d[1], d[2])
    if d[0] == "mid":
        return P["MidTag"](d[1], d[2])
    if d[0] == "blk":
        return P["BlkProbe"](d[1], d[2], d[3])
    return getattr(MW, d[1])(**d[2])


def build_stack(st, cont="list"):
    if st is None:
        return None
    ms = [build_mw(d, "impl") for d in st]
    if cont == "tuple":
        return tuple(ms)
    if cont == "gen":
        return (m for m in ms)
    if cont == "iter":
        return iter(ms)
    return ms


# ------------------------------------------------------------------ wire encoding
STUB = [4, [[], [], []], []]


def enc_b(b):
    import enc
    x = enc.enc_block(b)
    if x[0] == enc.B_DUPKEY:
        x[3] = STUB
    return x


def has99(x):
    if isinstance(x, list):
        return (len(x) > 0 and x[0] == 99 and len(x) == 2) or any(has99(y) for y in x)
    return False


def enc_lib(lib):
    return [enc_b(b) for b in lib.blocks]


def enc_spec(s):
    import props.c06 as c06
    if s[0] == "none":
        return [0]
    if s[0] == "self":
        return [1]
    if s[0] == "coll":
        return [2, [[0] if it == "self" else ([2] if it == "non" else [1, enc_b(c06.build_block(it[1]))]) for it in s[2]]]
    return [3]


def enc_mw(d, ident):
    d = core_d(d)           # the extra protocols are no part of the middleware interface: the model sees the middleware
    if d[0] in ("lib", "mid"):
        return [0, d[1]]
    if d[0] == "blk":
        return [1, d[1], [enc_spec(d[3][c]) for c in CLASSES]]
    return [2, ident]


def enc_ostack(st, base):
    if st is None:
        return []
    return [[enc_mw(d, base + i) for i, d in enumerate(st)]]


def enc_ofmt(f, fo):
    import enc
    if f is None:
        return []
    return [[enc.enc_str(f["indent"]), [] if f["col"] == "auto" else [f["col"]], enc.enc_str(f["sep"]), int(f["trailing"]),
             enc.enc_str(fo.parsing_failed_comment)]]


# ------------------------------------------------------------------ manual composition (the oracle) + oracle tables
class Ref:
    def __init__(self):
        self.table = []
        self.stable = []

    def step(self, ident, m, lib):
        import implutil
        before = enc_lib(lib) if ident is not None else None
        try:
            out = m.transform(lib)
        except Exception as e:  # noqa: BLE001
            if ident is not None:
                self.table.append([ident, before, implutil.r_exc(implutil.EXC_CODES.get(type(e).__name__, implutil.EXC_OTHER))])
            raise
        if ident is not None:
            self.table.append([ident, before, implutil.r_ok(enc_lib(out))])
        return out

    def run(self, lib, stack):
        for ident, m in stack:
            lib = self.step(ident, m, lib)
        return lib


def ref_stack(full, add, defaults, prepend):
    """The stack the property text prescribes, as (wire id or None, middleware) pairs."""
    if full is not None and add is not None:
        raise ValueError("both")
    import bibtexparser.middlewares as MW
    if full is not None:
        base = [(i if core_d(d)[0] == "shipped" else None, build_mw(d, "ref")) for i, d in enumerate(full)]
    else:
        base = [(ident, getattr(MW, name)(**kw)) for ident, name, kw in defaults]
    extra = [] if add is None else [(100 + i if core_d(d)[0] == "shipped" else None, build_mw(d, "ref")) for i, d in enumerate(add)]
    return extra + base if prepend else base + extra


DEFAULT_PARSE = [(1000, "ResolveStringReferencesMiddleware", {"allow_inplace_modification": True}),
                 (1001, "RemoveEnclosingMiddleware", {"allow_inplace_modification": True})]
DEFAULT_UNPARSE = [(1002, "AddEnclosingMiddleware", {"allow_inplace_modification": False, "default_enclosing": "{",
                                                      "reuse_previous_enclosing": False, "enclose_integers": True})]


def source_lib(inp):
    import bibtexparser
    if inp.get("parsed") == "raw":
        return bibtexparser.parse_string(inp["text"], parse_stack=[])
    return bibtexparser.parse_string(inp["text"])


def decode_ref(data, encoding):
    """The runtime's text layer on the bytes of the file (codec + BOM handling + universal newlines): the decode oracle."""
    import io
    return io.TextIOWrapper(io.BytesIO(data), encoding=encoding or "utf-8").read()


def outcome(r, f):
    import implutil
    return implutil.r_ok(f(r[1])) if r[0] == "ok" else implutil.r_exc(r[1])


def impl(case):
    import enc
    import implutil
    import os
    import shutil
    import tempfile
    inp = case["input"]
    op = inp["op"]
    rec = {"key": json.dumps(inp, sort_keys=True), "tags": [op]}
    if op in ("transform", "library"):
        return impl_transform(inp, rec)
    if op == "stateful":
        return impl_stateful(inp, rec)
    import bibtexparser
    from bibtexparser.splitter import Splitter
    from bibtexparser import writer as W
    import props.c06 as c06
    ps, am, cont = inp.get("ps"), inp.get("am"), inp.get("cont", "list")
    ref = Ref()
    tmp = None
    del _BUILT["impl"][:], _BUILT["ref"][:]
    try:
        if op in ("parse", "parse_file"):
            dres = None
            if op == "parse_file":
                tmp = tempfile.mkdtemp(prefix="verif_c20_")
                path = os.path.join(tmp, "in.bib")
                data = inp["text"].encode(inp["file_enc"])
                with open(path, "wb") as fh:
                    fh.write(data)
                dres = implutil.guarded(lambda: decode_ref(data, inp["read_enc"]))

            def reference():
                if dres is not None:
                    if dres[0] == "exc":
                        raise UnicodeDecodeError("x", b"", 0, 1, "reference")
                    text = dres[1]
                else:
                    text = inp["text"]
                lib = Splitter(text).split()
                ref.stable.append([enc.enc_str(text), implutil.r_ok(enc_lib(lib))])
                return ref.run(lib, ref_stack(ps, am, DEFAULT_PARSE, prepend=False))
            exp = dres if (dres is not None and dres[0] == "exc") else implutil.guarded(reference)
            kw = {}
            if ps is not None:
                kw["parse_stack"] = build_stack(ps, cont)
            if am is not None:
                kw["append_middleware"] = build_stack(am, cont)
            if op == "parse":
                got = implutil.guarded(lambda: bibtexparser.parse_string(inp["text"], **kw))
                sx_in = [70, enc.enc_str(inp["text"]), ref.stable, enc_ostack(ps, 0), enc_ostack(am, 100), ref.table]
            else:
                if inp["read_enc"] is not None:
                    kw["encoding"] = inp["read_enc"]
                got = implutil.guarded(lambda: bibtexparser.parse_file(path, **kw))
                sx_in = [72, outcome(dres, enc.enc_str), ref.stable, enc_ostack(ps, 0), enc_ostack(am, 100), ref.table]
            rec["sx_out"] = outcome(got, enc_lib)
            e_out = outcome(exp, enc_lib)
            same = rec["sx_out"] == e_out
            summary = ("raised %s" % got[2]) if got[0] == "exc" else repr([type(b).__name__ + ":" + str(b.parser_metadata.get("trace"))
                                                                          for b in got[1].blocks])[:200]
        else:
            f = inp.get("fmt")
            fo_ref, fo = c06.make_fmt(f), c06.make_fmt(f)
            lib0 = source_lib(inp)
            in_enc = enc_lib(lib0)

            def reference():
                st = ref_stack(ps, am, DEFAULT_UNPARSE, prepend=True)
                lib = ref.run(source_lib(inp), st)
                return W.write(lib, fo_ref)
            exp = implutil.guarded(reference)
            if op == "write":
                kw = {}
                if ps is not None:
                    kw["unparse_stack"] = build_stack(ps, cont)
                if am is not None:
                    kw["prepend_middleware"] = build_stack(am, cont)
                if f is not None:
                    kw["bibtex_format"] = fo
                got = implutil.guarded(lambda: bibtexparser.write_string(lib0, **kw))
                sx_in = [71, in_enc, enc_ostack(ps, 0), enc_ostack(am, 100), enc_ofmt(f, fo), ref.table]
                rec["sx_out"] = outcome(got, enc.enc_str)
                e_out = outcome(exp, enc.enc_str)
                same = rec["sx_out"] == e_out
                summary = ("raised %s" % got[2]) if got[0] == "exc" else repr(got[1])[:200]
            else:
                kw = {}
                if ps is not None:
                    kw["parse_stack"] = build_stack(ps, cont)
                if am is not None:
                    kw["append_middleware"] = build_stack(am, cont)
                if f is not None:
                    kw["bibtex_format"] = fo
                tmp = tempfile.mkdtemp(prefix="verif_c20_")
                path = os.path.join(tmp, "out.bib")
                target, pre, fenc = inp["target"], inp["pre"], inp["enc"]
                import io
                import locale
                kind, old = 1, pre
                if target in ("path", "path_existing"):
                    kind = 0
                    if target == "path_existing":
                        with open(path, "w") as fh:
                            fh.write("OLD CONTENT " * 50)
                    old = "OLD" if target == "path_existing" else ""

                    def call():
                        r = bibtexparser.write_file(path, lib0, **kw)
                        with open(path, "rb") as fh:
                            return r, fh.read().decode(locale.getpreferredencoding(False))
                elif target == "stringio":
                    def call():
                        s = io.StringIO()
                        s.write(pre)
                        r = bibtexparser.write_file(s, lib0, **kw)
                        return r, s.getvalue()
                else:
                    def call():
                        with open(path, "w", encoding=fenc, newline="") as fh:
                            fh.write(pre)
                            r = bibtexparser.write_file(fh, lib0, **kw)
                        with open(path, "rb") as fh:
                            return r, fh.read().decode(fenc)
                got = implutil.guarded(call)
                sx_in = [73, kind, enc.enc_str(old), in_enc, enc_ostack(ps, 0), enc_ostack(am, 100), enc_ofmt(f, fo), ref.table]
                if target == "fileobj" and exp[0] == "ok":
                    # the sink is the runtime's: a text the file object's codec cannot encode is refused by it
                    try:
                        (pre + exp[1]).encode(fenc)
                    except UnicodeEncodeError:
                        exp = ("exc", implutil.EXC_CODES.get("UnicodeEncodeError", implutil.EXC_OTHER), "UnicodeEncodeError")
                        sx_in = [99, 0]          # outside the executable sink instance: oracle only
                        rec["tags"].append("sink_refuses_text")
                rec["sx_out"] = outcome(got, lambda v: enc.enc_str(v[1]))
                e_out = outcome(exp, lambda t: enc.enc_str((pre if kind == 1 else "") + t))
                same = rec["sx_out"] == e_out and (got[0] == "exc" or got[1][0] is None)
                summary = ("raised %s" % got[2]) if got[0] == "exc" else repr(got[1][1])[:200]
    finally:
        if tmp:
            shutil.rmtree(tmp, ignore_errors=True)
    rec["summary"] = summary
    if cont in ("gen", "iter"):
        rec["tags"].append("one_shot_iterable")
    # decorated items: transform() of each is called exactly as often as the manual composition calls it - once, or not at
    # all when nothing is applied (ValueError for both arguments, undecodable file) or an earlier item raised
    xi, xr = _BUILT["impl"], _BUILT["ref"]
    n_impl = [m.__dict__.get("_x_n", 0) for m in xi]
    n_ref = [m.__dict__.get("_x_n", 0) for m in xr] if len(xr) == len(xi) else [0] * len(xi)
    used = sorted({w for m in xi for w in m.__dict__.get("_x_log", [])})
    if xi:
        protos = sorted({p for d in (ps or []) + (am or []) if d[0] == "x" for p in d[1]})
        rec["tags"] += ["proto_" + p for p in protos] + ["xbase_" + b for b in sorted({d[2][0] for d in (ps or []) + (am or []) if d[0] == "x"})]
        rec["tags"].append("decorated_items_%d" % min(len(xi), 4))
        if used:
            rec["tags"].append("extra_protocol_used_by_library")
    if same and n_impl != n_ref:
        rec["oracle"] = {"ok": False, "detail": "%s(...): transform() of the decorated stack items was called %s time(s), the composition "
                                                "(each item of the requested stack exactly once, in order) calls them %s time(s); protocols the "
                                                "library used on them: %s" % (op, n_impl, n_ref, used)}
    elif same:
        rec["oracle"] = {"ok": True, "detail": ""}
    else:
        what = ("%s(...) differs from the manual composition (split / given-or-default stack in order / writer): got %s, "
                "composition gives %s" % (op, summary, ("raised code %s" % exp[1]) if exp[0] == "exc" else
                                          (repr(exp[1])[:200] if isinstance(exp[1], str) else
                                           repr([type(b).__name__ + ":" + str(b.parser_metadata.get("trace")) for b in exp[1].blocks])[:200])))
        if xi:
            what += ("; the stack holds middleware objects that also define %s: transform() calls on them %s (composition: %s), protocols "
                     "the library used on them: %s" % (protos, n_impl, n_ref, used))
        rec["oracle"] = {"ok": False, "detail": what}
    rec["sx_in"] = None if (has99(sx_in) or has99(rec["sx_out"])) else sx_in
    n_mw = len(ps or []) + len(am or [])
    rec["nontrivial"] = n_mw > 0 or op in ("parse_file", "write_file")
    rec["tags"] += ["stack_%d" % min(n_mw, 4), "both_args" if (ps is not None and am is not None) else
                    ("full_stack" if ps is not None else ("addition" if am is not None else "defaults"))]
    if op == "parse_file":
        rec["tags"].append("enc_%s_as_%s" % (inp["file_enc"], inp["read_enc"]))
    if op == "write_file":
        rec["tags"].append("target_" + inp["target"])
    if got[0] == "exc":
        rec["tags"].append("raises_" + got[2])
    return rec


def expected_transform(mwd, blocks):
    """The per-block protocol of the property text, on fresh blocks."""
    from bibtexparser.library import Library
    from bibtexparser import model as M
    import props.c06 as c06
    P = probes()
    mwd = core_d(mwd)
    k = mwd[1]
    out = []
    names = {M.Entry: "entry", M.String: "string", M.Preamble: "preamble", M.ExplicitComment: "expl", M.ImplicitComment: "impl"}
    for b in blocks:
        if mwd[0] in ("lib", "mid"):
            P["tag"](b, k)
            out.append(b)
            continue
        cls = names.get(type(b))
        if cls is None:
            out.append(b)
            continue
        P["tag"](b, k)
        spec = mwd[3][cls]
        if spec[0] == "none":
            continue
        if spec[0] == "self":
            out.append(b)
        elif spec[0] == "coll":
            for it in spec[2]:
                if it == "non":
                    raise TypeError("non-block")
                out.append(b if it == "self" else c06.build_block(it[1]))
        else:
            raise TypeError("illegal")
    return Library(out)


def impl_transform(inp, rec):
    import implutil
    from bibtexparser.library import Library
    import props.c06 as c06

    def mk():
        return Library([c06.build_block(d) for d in inp["blocks"]])
    if inp["op"] == "library":
        lib = mk()
        raw_blocks = [c06.build_block(d) for d in inp["blocks"]]
        sx_in = [75, [enc_b(b) for b in raw_blocks]]
        rec["sx_out"] = implutil.r_ok(enc_lib(lib))
        # oracle: nothing dropped or reordered; k-th block is the k-th input or its duplicate-key wrapper
        ok = len(lib.blocks) == len(raw_blocks)
        seen = {"Entry": set(), "String": set()}
        for a, b in zip(raw_blocks, lib.blocks):
            tn = type(a).__name__
            if tn in seen and a.key in seen[tn]:
                ok = ok and (type(b).__name__ == "DuplicateBlockKeyBlock" and enc_b(b.ignore_error_block) == enc_b(a)
                             and b.key == a.key and b.raw == a.raw and b.start_line == a.start_line)
            else:
                ok = ok and enc_b(b) == enc_b(a) and type(b) is type(a)
                if tn in seen:
                    seen[tn].add(a.key)
        rec["oracle"] = {"ok": ok, "detail": "Library(blocks) dropped, reordered or mis-wrapped a block"}
        rec["sx_in"] = None if has99(sx_in) else sx_in
        rec["nontrivial"] = any(type(b).__name__ == "DuplicateBlockKeyBlock" for b in lib.blocks)
        rec["summary"] = repr([type(b).__name__ for b in lib.blocks])[:200]
        return rec
    mwd = inp["mw"]
    lib = mk()
    sx_in = [74, enc_mw(mwd, 0), enc_lib(lib)]
    got = implutil.guarded(lambda: build_mw(mwd).transform(lib))
    if mwd[0] == "x":
        rec["tags"] += ["proto_" + p for p in mwd[1]] + ["xbase_" + mwd[2][0], "decorated_transform"]
        mwd = mwd[2]
    if mwd[0] == "shipped":
        exp = got
        sx_in = None
    else:
        exp = implutil.guarded(lambda: expected_transform(mwd, list(mk().blocks)))
    rec["sx_out"] = outcome(got, enc_lib)
    same = rec["sx_out"] == outcome(exp, enc_lib)
    rec["summary"] = ("raised %s" % got[2]) if got[0] == "exc" else repr([type(b).__name__ for b in got[1].blocks])[:200]
    rec["oracle"] = {"ok": same, "detail": "transform differs from the splice protocol (None / block / collection of blocks in place; "
                                           "TypeError otherwise): got %s" % rec["summary"]}
    rec["sx_in"] = None if (sx_in is None or has99(sx_in) or has99(rec["sx_out"])) else sx_in
    rec["nontrivial"] = mwd[0] == "blk"
    if mwd[0] == "blk":
        kinds = sorted({(s[0] + "_" + s[1]) if s[0] in ("coll", "other") else s[0] for s in mwd[3].values()})
        rec["tags"] += kinds
    if got[0] == "exc":
        rec["tags"].append("raises_" + got[2])
    return rec


# ------------------------------------------------------------------ stateful block probes (oracle only)
def same_blocks(out, exp):
    """out is exp, object by object (Library() may wrap a duplicate-key Entry/String: the wrapper must then hold that object)."""
    return len(out) == len(exp) and all(
        o is e or (type(o).__name__ == "DuplicateBlockKeyBlock" and type(e).__name__ != "DuplicateBlockKeyBlock" and o.ignore_error_block is e)
        for o, e in zip(out, exp))


def names(bs):
    return repr([type(b).__name__ + ":" + str(getattr(b, "key", "") or "") for b in bs])[:300]


def splice_recorded(p):
    """What the property prescribes for one pass of a recording probe over a library: each block of the library, at its position,
    replaced by what the probe answered FOR THAT BLOCK, as the answer was when it was given."""
    pool = list(p["calls"])
    out = []
    for n, b in enumerate(p["inputs"]):
        for i, (a, snap) in enumerate(pool):
            if a is b:
                out.extend(snap)
                del pool[i]
                break
        else:
            return None, "block %d of the library was never handed to transform_block" % n
    if pool:
        return None, "transform_block was called %d time(s) more than the library has blocks" % len(pool)
    return out, ""


def expect_stateful(probe, p0, repeat):
    """-> ("typeerror", None) when a TypeError is the prescribed outcome, ("fail", why) when the recorded calls already contradict the
    per-block protocol, else ("blocks", the blocks the last pass of the probe must have put into the library it returned)."""
    from bibtexparser import model as M
    passes = probe.passes[p0:]
    if any(not isinstance(x, M.Block) for p in passes for _, snap in p["calls"] for x in snap):
        return "typeerror", None
    if len(passes) > repeat:
        return "fail", "the probe object is %d time(s) in the stack but ran %d passes" % (repeat, len(passes))
    final = []
    for j, p in enumerate(passes):
        exp, why = splice_recorded(p)
        if exp is None:
            return "fail", "pass %d: %s" % (j + 1, why)
        if j + 1 < len(passes) and not same_blocks(passes[j + 1]["inputs"], exp):
            return "fail", ("pass %d of the same probe object did not receive the blocks its pass %d returned: expected %s, received %s"
                            % (j + 2, j + 1, names(exp), names(passes[j + 1]["inputs"])))
        final = exp
    if len(passes) < repeat and final:
        return "fail", "the probe object is %d time(s) in the stack but ran only %d pass(es) although blocks were left" % (repeat, len(passes))
    return "blocks", final


_LIVE_STATEFUL = []


def impl_stateful(inp, rec):
    import implutil
    import bibtexparser
    import bibtexparser.middlewares as MW
    from bibtexparser.library import Library
    from bibtexparser import writer as W
    import props.c06 as c06
    P = probes()
    pd, via, repeat, pos = inp["probe"], inp["via"], inp["repeat"], inp["pos"]
    for old in _LIVE_STATEFUL:              # also after a case that was cut short
        old.retired = True
    del _LIVE_STATEFUL[:]
    probe = P["StatefulProbe"](pd)
    _LIVE_STATEFUL.append(probe)
    problems = []
    summary = ""
    for call in range(inp["calls"]):
        probe.mark()
        p0 = len(probe.passes)
        stack = [build_mw(d) for d in inp["prefix"]] + [probe] * repeat
        if via == "transform":
            objs = [c06.build_block(d) for d in inp["blocks"]]
            if inp.get("alias") and objs:
                objs.append(objs[0])            # the same object held twice
            lib = Library(objs)

            def run():
                cur = lib
                for m in stack:
                    cur = m.transform(cur)
                return cur
        elif via == "parse":
            kw = {"parse_stack": stack} if pos == "ps" else {"append_middleware": stack}

            def run():
                return bibtexparser.parse_string(inp["text"], **kw)
        else:
            lib0 = bibtexparser.parse_string(inp["text"])
            kw = {"unparse_stack": stack} if pos == "ps" else {"prepend_middleware": stack}

            def run():
                return bibtexparser.write_string(lib0, **kw)
        got = implutil.guarded(run)
        kind, val = expect_stateful(probe, p0, repeat)
        summary = ("raised %s" % got[2]) if got[0] == "exc" else (repr(got[1])[:200] if via == "write" else names(got[1].blocks))
        here = "call %d: " % (call + 1)
        if kind == "typeerror":
            if not (got[0] == "exc" and got[2] == "TypeError"):
                problems.append(here + "a collection holding a non-block was returned, TypeError expected; got " + summary)
        elif kind == "fail":
            problems.append(here + val + " (outcome: %s)" % summary)
        elif via == "write":
            final = val

            def reference():
                cur = Library(final)
                if pos == "am":
                    for _, name, mkw in DEFAULT_UNPARSE:
                        cur = getattr(MW, name)(**mkw).transform(cur)
                return W.write(cur)
            exp = implutil.guarded(reference)       # the stages after the probe may refuse its blocks: then both must
            if exp[0] != got[0] or exp[1] != got[1]:
                problems.append(here + "the outcome is not that of writing the blocks the probe returned, each at the position of its "
                                       "block: got %s, expected %s" % (summary, repr(exp[1])[:300] if exp[0] == "ok" else "raised " + exp[2]))
        elif got[0] == "exc":
            problems.append(here + "raised %s although every per-block result was None, a block or a collection of blocks when it was "
                                   "returned" % got[2])
        else:
            final = val
            if not same_blocks(got[1].blocks, final):
                problems.append(here + "the library does not hold, at the position of each block, what the probe returned for it "
                                       "(as it was when returned): got %s, expected %s" % (names(got[1].blocks), names(final)))
            else:
                probe.scribble()            # the returned collections are the probe's: changing them now must not reach the library
                if not same_blocks(got[1].blocks, final):
                    problems.append(here + "changing a returned collection after the call changed the resulting library")
    probe.retired = True
    rec.update(sx_in=None, sx_out=None, summary=summary, nontrivial=True,
               oracle={"ok": not problems, "detail": "; ".join(problems)[:1500]})
    rec["tags"] += ["stateful_" + pd["mode"], "late_%s" % pd["late"], "via_" + via, "cont_" + pd["cont"], "repeat_%d" % repeat,
                    "calls_%d" % inp["calls"]]
    if got[0] == "exc":
        rec["tags"].append("raises_" + got[2])
    return rec
