"""C07, stream 'heap': correspondence of the Coq heap model of the middleware FRAMEWORK with the real framework.

The object graph reachable from the input library (and format) is snapshotted as a heap (ids 1..n in traversal
order), the REAL code is run (BlockMiddleware.transform with probe bodies in copy and in in-place mode,
LibraryMiddleware, ResolveStringReferencesMiddleware, SortBlocksByTypeAndKeyMiddleware, write_string, copy.deepcopy,
stacks of these), the graph is snapshotted again, and the model (Run/RunHeap.v, ops 160-166) is run on the same
initial heap.  Compared: the content of every input object afterwards and the output graph up to a renaming of new
objects that fixes the input ids - i.e. the exact sharing pattern, in both modes.
"""
from props import pubapi
import json

PROBES = 9
C_CONST, S_PROBE, S_DUP = 77, "probe", "dup"
BLOCK_ORDERS = [["String", "Preamble", "Entry", "ImplicitComment", "ExplicitComment"], ["Entry", "String"],
                ["ExplicitComment", "DuplicateBlockKeyBlock", "Entry"], []]


def generate(rng, tier, gen_text, parse_opts):
    quick = tier == "quick"
    cases = []

    def add(text, popt, op):
        cases.append({"stream": "heap", "input": {"kind": "heap", "text": text, "parse": popt, "op": op}})
    for _ in range(20 if quick else 600):
        text = gen_text(rng)
        popt = rng.choice(["default", "raw", "raw", "split", "sep", "month"])
        for p in range(PROBES):
            for inplace in (False, True):
                add(text, popt, ["block", inplace, p])
        for inplace in (False, True):
            add(text, popt, ["library", inplace])
            add(text, "raw" if rng.random() < 0.7 else popt, ["resolve", inplace])
        for o in rng.sample(range(len(BLOCK_ORDERS)), 2):
            add(text, popt, ["sort", o, rng.random() < 0.5])
        add(text, popt, ["write", rng.choice([None, "auto", 7])])
        add(text, popt, ["deepcopy", rng.choice(["lib", "blocks", "block"]), rng.randrange(8)])
    # the REAL shipped block middlewares against their body models (Model/HeapBodies.v), copy and in-place mode
    import props.c07_bodies as B
    for _ in range(4 if quick else 60):
        for spec in B.block_specs():
            text = gen_text(rng)
            popt = B.parse_opt_for(spec, rng)
            for inplace in (False, True):
                add(text, popt, ["shipped", inplace, spec])
    for _ in range(100 if quick else 4000):
        st = []
        for _ in range(rng.randint(2, 3)):
            r = rng.random()
            if r < 0.3:
                st.append(["shipped", rng.random() < 0.4, rng.choice(B.block_specs())])
            elif r < 0.55:
                st.append(["block", rng.random() < 0.4, rng.randrange(PROBES)])
            elif r < 0.65:
                st.append(["library", rng.random() < 0.4])
            elif r < 0.8:
                st.append(["resolve", rng.random() < 0.4])
            else:
                st.append(["sort", rng.randrange(len(BLOCK_ORDERS)), rng.random() < 0.5])
        add(gen_text(rng), rng.choice(["default", "raw", "raw", "split"]), ["stack", st])
    return cases


def shrink(case):
    op = case["input"]["op"]
    if op[0] == "stack" and len(op[1]) > 1:
        for i in range(len(op[1])):
            c = json.loads(json.dumps(case))
            del c["input"]["op"][1][i]
            yield c


# ---------------------------------------------------------------------------------------------- the real side
def make_probe(n, inplace):
    from bibtexparser.middlewares.middleware import BlockMiddleware
    from bibtexparser.model import ExplicitComment, Field

    class Probe(BlockMiddleware):
        def __init__(self):
            super().__init__(allow_inplace_modification=inplace, allow_parallel_execution=True)

        def _any(self, block, library):
            if n == 3:
                pubapi.set_backing(block, "block.parser_metadata", {S_PROBE: C_CONST})
            return block

        transform_preamble = transform_explicit_comment = transform_implicit_comment = _any

        def transform_string(self, string, library):
            if n == 1:
                string.value = C_CONST
            elif n == 4:
                return None
            return self._any(string, library)

        def transform_entry(self, entry, library):
            if n == 1:
                for f in entry.fields:
                    f.value = C_CONST
            elif n == 2:
                entry.fields.append(Field(S_PROBE, C_CONST, None))
            elif n == 5:
                return [entry, ExplicitComment(S_PROBE)]
            elif n == 6:
                return [entry, entry]
            elif n == 7:
                entry.parser_metadata[S_PROBE] = library
            elif n == 8:
                entry.key = S_DUP
            return self._any(entry, library)
    return Probe()


def all_atoms(objs):
    """every atom (attribute / element / key) of the given objects"""
    import heapsnap as HS
    out = []
    for x in objs:
        for k, c in HS.children(x):
            if HS.is_atom(k):
                out.append(k)
            if HS.is_atom(c):
                out.append(c)
    return out


def bare_atoms(lib):
    """atom codes of the strings that ResolveStringReferences treats as possible references
    (independent restatement of `not _value_is_nonstring_or_enclosed`)"""
    import heapsnap as HS
    objs = list(HS.reachable([lib]).values())
    out = set()
    for a in all_atoms(objs) + [S_PROBE, S_DUP]:
        if isinstance(a, str) and not (a.startswith('"') and a.endswith('"')) and not (a.startswith("{") and a.endswith("}")):
            out.add(HS.atom_code(a))
    return sorted(out)


def ref_perm(blocks, order, preserve):
    """the permutation SortBlocksByTypeAndKey applies: independent reference (stable sort by (type rank, key))"""
    def rank(cls_name):
        return order.index(cls_name) if cls_name in order else len(order)
    if not preserve:
        keys = [(rank(type(b).__name__), getattr(b, "key", "")) for b in blocks]
        return sorted(range(len(blocks)), key=lambda i: keys[i])
    junks, cur, key = [], [], ""
    for i, b in enumerate(blocks):
        cur.append(i)
        if hasattr(b, "key"):
            key = b.key
        if type(b).__name__ not in ("ExplicitComment", "ImplicitComment"):
            junks.append((cur, key))
            cur, key = [], ""
    if cur:
        junks.append((cur, key))
    junks.sort(key=lambda j: (rank(type(blocks[j[0][-1]]).__name__), j[1]))
    return [i for j in junks for i in j[0]]


def consts():
    import heapsnap as HS
    return [HS.atom_code(C_CONST), HS.atom_code(S_PROBE), HS.atom_code(S_DUP)]


SKIP = []     # set by a stage whose arguments cannot be tabulated (the case is then checked by the oracle streams only)


def run_stage(st, lib):
    """run one real stage on lib; returns (result library, model stage sx)"""
    import heapsnap as HS
    import bibtexparser.middlewares as M
    import bibtexparser.model as model
    from bibtexparser.middlewares.middleware import LibraryMiddleware
    k = st[0]
    if k == "block":
        return make_probe(st[2], st[1]).transform(lib), [0, int(st[1]), st[2], consts()]
    if k == "library":
        return LibraryMiddleware(allow_inplace_modification=st[1]).transform(lib), [1, int(st[1])]
    if k == "resolve":
        sx = [2, int(st[1]), bare_atoms(lib), HS.atom_code("ResolveStringReferences")]
        return M.ResolveStringReferencesMiddleware(allow_inplace_modification=st[1]).transform(lib), sx
    if k == "shipped":
        import props.c07 as P
        import props.c07_bodies as B
        mw = B.make_mw(st[2], st[1])
        sx, skip = B.shipped_sx(st[2], mw, lib)
        if skip:
            SKIP.append(True)
        return mw.transform(lib), [4, int(st[1]), sx]
    if k == "sort":
        order = BLOCK_ORDERS[st[1]]
        sx = [3, ref_perm(lib.blocks, order, st[2])]
        mw = M.SortBlocksByTypeAndKeyMiddleware(block_type_order=tuple(getattr(model, c) for c in order), preserve_comments_on_top=st[2])
        return mw.transform(lib), sx
    raise ValueError(st)


def impl(case, parse):
    import copy
    import implutil
    import heapsnap as HS
    import bibtexparser
    inp = case["input"]
    op = inp["op"]
    rec = {"key": json.dumps([inp["text"], inp["parse"], op]), "tags": []}
    del SKIP[:]
    try:
        lib = parse(inp["text"], inp["parse"])
    except Exception as e:  # noqa: BLE001
        rec.update(sx_in=None, sx_out=None, oracle=None, nontrivial=False, tags=["parse_raised"], summary=type(e).__name__)
        return rec
    roots = [lib]
    fmt = None
    if op[0] == "write":
        fmt = bibtexparser.BibtexFormat()
        if op[1] is not None:
            fmt.value_column = op[1]
        roots.append(fmt)
    nb, heap = HS.snapshot(roots)
    n_in = len(heap)
    lib_id = nb.num[id(lib)]
    if op[0] == "block":
        sx_in = [160, int(op[1]), op[2], consts(), heap, lib_id]
        r = implutil.guarded(lambda: [make_probe(op[2], op[1]).transform(lib)])
    elif op[0] == "library":
        sx_in = [161, int(op[1]), heap, lib_id]
        r = implutil.guarded(lambda: [run_stage(op, lib)[0]])
    elif op[0] == "resolve":
        sx_in = [162, int(op[1]), bare_atoms(lib), HS.atom_code("ResolveStringReferences"), heap, lib_id]
        r = implutil.guarded(lambda: [run_stage(op, lib)[0]])
    elif op[0] == "shipped":
        import props.c07 as P
        import props.c07_bodies as B
        mw = B.make_mw(op[2], op[1])
        spec_sx, skip = B.shipped_sx(op[2], mw, lib)
        if skip:
            SKIP.append(True)
        sx_in = [167, int(op[1]), spec_sx, heap, lib_id]
        r = implutil.guarded(lambda: [mw.transform(lib)])
    elif op[0] == "sort":
        sx_in = [163, ref_perm(lib.blocks, BLOCK_ORDERS[op[1]], op[2]), heap, lib_id]
        r = implutil.guarded(lambda: [run_stage(op, lib)[0]])
    elif op[0] == "write":
        sx_in = [164, 1, consts(), HS.atom_code("auto"), 0, heap, lib_id, nb.num[id(fmt)]]

        def w():
            try:
                bibtexparser.write_string(lib, bibtex_format=fmt)
            except implutil.CaseTimeout:
                raise
            except Exception:  # noqa: BLE001  (not C07's subject; the footprint on the input is compared all the same)
                rec["tags"].append("write_raised")
            return []
        r = implutil.guarded(w)
    elif op[0] == "deepcopy":
        tgt = lib if op[1] == "lib" else lib.blocks if op[1] == "blocks" or not lib.blocks else lib.blocks[op[2] % len(lib.blocks)]
        sx_in = [165, heap, nb.num[id(tgt)]]
        r = implutil.guarded(lambda: [copy.deepcopy(tgt)])
    else:
        stages = []

        def s():
            cur = lib
            for st in op[1]:
                cur, sx = run_stage(st, cur)
                stages.append(sx)
            return [cur]
        r = implutil.guarded(s)
        sx_in = [166, stages, heap, lib_id]
    rec["sx_in"] = sx_in
    rec["oracle"] = None
    rec["nontrivial"] = n_in > 4
    uses_shipped = op[0] == "shipped" or (op[0] == "stack" and any(s[0] == "shipped" for s in op[1]))
    if SKIP:
        rec["skip"] = True
        rec["tags"].append("heap_skip_untabulated")
    if r[0] == "exc":
        rec["sx_out"] = implutil.r_exc(r[1])
        rec["summary"] = "raised " + r[2]
        rec["tags"].append("heap_raised_" + r[2])
        if uses_shipped:
            # a shipped body raising on values of the wrong type (e.g. RemoveEnclosing on a list) is not C07's subject and
            # the model cannot name the exception class: not compared (the oracle streams check the input is intact)
            rec["skip"] = True
        return rec
    final, out_roots = HS.final_view(nb, n_in, r[1])
    rec["sx_out"] = implutil.r_ok([final, out_roots])
    # how much of the input does the output graph share (measured on the real graph)
    shared = 0
    if r[1]:
        shared = sum(1 for i in HS.reachable(r[1]) if i in nb.num and nb.num[i] <= n_in)
    mode = {"block": lambda: "inplace" if op[1] else "copy", "library": lambda: "inplace" if op[1] else "copy",
            "resolve": lambda: "inplace" if op[1] else "copy", "sort": lambda: "copy", "write": lambda: "copy",
            "deepcopy": lambda: "copy", "shipped": lambda: "inplace" if op[1] else "copy",
            "stack": lambda: "inplace" if all(s[0] != "sort" and s[1] for s in op[1]) else
            ("copy" if any(s[0] == "sort" or not s[1] for s in op[1][-1:]) and all(not (s[0] == "block" and s[2] == 7) for s in op[1]) else "mixed")}[op[0]]()
    rec["tags"].append("heap_%s_%s_%s" % (op[0], mode, "shares" if shared else "noshare"))
    if op[0] == "shipped":
        rec["tags"].append("shipped_%s_%s" % (op[2][0], mode))
        n_err_in = sum(1 for x in nb.objs[:n_in] if type(x).__name__ == "MiddlewareErrorBlock")
        n_err = sum(1 for x in nb.objs if type(x).__name__ == "MiddlewareErrorBlock")
        if n_err > n_err_in and op[1]:          # in-place mode: no copies, so a new one was made by the body
            rec["tags"].append("shipped_%s_new_error_block" % op[2][0])
        if op[2][0].startswith("Latex") and any(type(getattr(x, "_value", None)).__name__ == "NameParts" for x in nb.objs[:n_in]):
            rec["tags"].append("shipped_latex_on_nameparts_value")
        if final[:n_in] != heap:
            rec["tags"].append("shipped_%s_input_changed" % mode)
    rec["summary"] = "n_in=%d n_out=%d shared=%d" % (n_in, len(final), shared)
    return rec
