"""C03 on THE LIBRARY'S OWN ARTEFACTS AS INPUT (imported by c03.py only).

Seeding round 10 (C03-j): the splitter dropped the writer's warning comment (`% WARNING Parsing failed for the following N
lines.`) when it stood directly above a block that aborts in the splitter and N was that block's line count.  No grammar /
token / mutation stream ever writes that sentence.  The streams below cover the class, not the sentence:

  W       one target block (every kind of VALID block, every way to fail in the splitter, duplicate key, duplicate field) with the
          warning comment for ITS line count (and the near misses of selfref.warning_lines) directly above / one blank line
          above / other whitespace above / on the same line / after a user remark / doubled / below / far from it / above the
          FIRST block of a duplicate pair; default template of the tree under test and custom templates
  W-ctx   the same text inside an explicit comment, a braced / quoted value, an @string, a @preamble, inside the target itself,
          inside the raw of a block that fails
  W-self  what else the library writes or reserves, as text: default block separator / indent / VAL_SEP, selfref.magic_for_tree()
          as free text, value, key, type, comment body, macro name
  W-doc   documents of several blocks of random kinds, each with or without a warning comment of a random variant above it
  L       LIBRARIES built through the public constructors that hold such text (implicit / explicit comment, field value, macro
          value, preamble, ParsingFailedBlock with a raw) - written by the library, then treated like R
  R       what arises by itself: (parse -> write) x 2, 3, 4 and a final parse, on documents with failed blocks of every kind,
          under the default and custom formats (templates, separators, indents, columns, trailing comma); with the empty and with
          the default parse / unparse stack.  EVERY parse of every cycle is judged on the text that was actually parsed.

The documents are laid out here by the check's PRNG (parent process).  What only the tree under test knows - the default
template, the line count N of the target block as the writer would count it (len(raw.splitlines()) of the block the tree
returns for the document) - is filled in by `resolve` in the implementation child; placeholders are small dicts in the segment
list.  The verdict never comes from here: c03.py's oracle (SC.tiles / SC.true_lines / field lines) judges every parse, and the
model is compared on the text of the (last) parse with the empty stack.
"""
import types

import enc
import gens_split as G
import implutil
import splitcommon as SC
from props import selfref

DEFAULT_TPL_GUESS = "% WARNING Parsing failed for the following {n} lines."
CUSTOM_TEMPLATES = [
    "% FAILED: {n} line(s) follow",
    "{n}",
    "%% {n} of {n}",
    "no count at all",
    "",
    "% first line\n% second line, {n} lines",
    "@comment{{parsing failed for the following {n} lines}}",
    "% WARNING Parsing failed for the following {n} lines",
    "% warning parsing failed for the following {n} lines.",
    "% {n:>4} lines",
    "% ⚠ {n} Zeilen nicht lesbar",
    "WARNING Parsing failed for the following {n} lines.",
    "%WARNING Parsing failed for the following {n} lines.",
    "@failed{{{n}}}",
]
PRIMARY = ["exact", "n-1", "n+1"]
# labels of selfref.warning_lines (kept here so that the parent never needs the tree under test)
LABELS = ["exact", "n-1", "n+1", "zero", "one", "huge", "negative", "padded", "plus", "superscript", "arabic-indic", "fullwidth",
          "circled", "word", "empty-count", "float", "upper", "lower", "no-percent", "trailing-blank", "leading-blank", "twice",
          "no-period", "template-itself"]
KEYS = ["cutoff", "k", "Knuth:1984", "a.b", "x-1", "dup", "K", "smith2020"]
FOLLOWERS = ["@misc{after, x = 1}\n", "@comment{after}\n", "@string{after = {s}}\n", "@misc{after}", "@preamble{\"after\"}\n\n",
             "@article{after,\n\ttitle = {T}\n}\n"]
VALID_BLOCKS = ["@misc{v1, a = {b}}", "@comment{kept}", "@string{jan = {January}}", "@preamble{\"p\"}", "free text", "% a remark",
                "@article{v2,\n\ttitle = {A title},\n\tyear = {1999}\n}"]
PLACES = ["above", "blank-above", "ws-above", "same-line", "remark-above", "twice-above", "below", "far-before", "far-after"]
PLAIN = ("Entry", "String", "Preamble", "ExplicitComment", "ImplicitComment")
CONTEXTS = ["in-comment", "in-comment-lines", "in-value", "in-quoted-value", "in-string", "in-preamble", "in-target", "in-failed-raw"]


# ------------------------------------------------------------------------------------------------------- target blocks (parent)
def _lines(rng, k, indent="  ", last_comma=True):
    out = []
    for i in range(k):
        v = rng.choice(["{v%d}" % i, '"q%d"' % i, "%d" % (1990 + i), "{two\n    lines}", "{a {nested} b}", "jan"])
        out.append("%sf%d = %s%s\n" % (indent, i, v, "," if (last_comma or i < k - 1) else ""))
    return "".join(out)


def targets(rng):
    """[(kind, pre, block, tailmode, guess_n, slot)] - one freshly drawn instance of every kind.
    tailmode: 'eof' the block only fails when nothing closes it (it must end the document), 'follow' it is ended by the next block
    start, 'any'.  `slot`: offset in block where extra text may be inserted inside a value of the block (None: no such place)."""
    key = rng.choice(KEYS)
    ind = rng.choice(["  ", "\t", " ", ""])
    out = []

    def body():                                            # extra lines, drawn per block: counts of one and of two digits
        return _lines(rng, rng.choice([0, 0, 1, 1, 2, 3, 3, 5, 9, 12]), ind)

    def add(kind, block, tail="any", pre="", slot_at=None):
        slot = block.index(slot_at) + len(slot_at) if slot_at else None
        out.append((kind, pre, block, tail, len(block.splitlines()), slot))

    # valid blocks of every kind
    add("v-entry", "@article{%s,\n%s%stitle = {A title},\n%syear = 1999\n}" % (key, body(), ind, ind), slot_at="{A title")
    add("v-entry-writer-style", "@article{%s,\n\ttitle = {A title},\n\tyear = {1999}\n}" % key, slot_at="{A title")
    add("v-entry-one-line", "@misc{%s, note = \"x\"}" % key, slot_at="\"x")
    add("v-entry-no-fields", "@misc{%s}" % key)
    add("v-entry-trailing-comma", "@misc{%s,\n%s}" % (key, body()))
    add("v-string", "@string{%s = {January}}" % rng.choice(["jan", "s1", "K"]), slot_at="{January")
    add("v-string-lines", "@String{ m =\n  {a\n  b}\n}", slot_at="{a")
    add("v-preamble", "@preamble{\"\\newcommand{\\x}{y}\"}", slot_at="{y")
    add("v-comment", "@comment{kept}", slot_at="{kept")
    add("v-comment-lines", "@Comment{a\n%sb\n}" % body(), slot_at="{a")
    add("v-freetext", rng.choice(["user remark", "% comment line\n% second", "}", "x = y", "some text, with = marks \"", "%"]))
    # blocks that abort in the splitter
    add("f-entry-eof-in-braces", "@book{%s,\n%s%stitle = {An unfinished" % (key, body(), ind), "eof", slot_at="{An unfinished")
    add("f-entry-eof-in-quotes", "@book{%s, %stitle = \"open" % (key, body()), "eof", slot_at="\"open")
    add("f-entry-eof-after-key", "@book{%s" % key, "eof")
    add("f-entry-eof-after-field", "@book{%s,\n%s%stitle = {x},\n" % (key, body(), ind), "eof", slot_at="{x")
    add("f-entry-eof-nested", "@book{%s,\n%stitle = {{{x}" % (key, body()), "eof", slot_at="{x")
    add("f-entry-next-in-braces", "@book{%s,\n%s%stitle = {unclosed" % (key, body(), ind), "follow", slot_at="{unclosed")
    add("f-entry-next-in-quotes", "@book{%s,\n%s%stitle = \"unclosed" % (key, body(), ind), "follow", slot_at="\"unclosed")
    add("f-entry-next-after-comma", "@book{%s,\n%s" % (key, body()), "follow")
    add("f-entry-no-comma", "@book{%s title = {x}}" % key)
    add("f-entry-no-equals", "@book{%s,\n%s%stitle {x}\n}" % (key, body(), ind))
    add("f-entry-brace-for-key", "@book{{%s}, a = 1}" % key)
    add("f-entry-second-field-no-equals", "@book{%s,\n%sa = {1},\n%sb, c = 2\n}" % (key, ind, ind), slot_at="{1")
    add("f-string-no-equals", "@string{broken}")
    add("f-string-eof", "@string{broken", "eof")
    add("f-string-eof-in-value", "@string{a = {x\n%s" % body(), "eof", slot_at="{x")
    add("f-string-next", "@string{a = {x", "follow", slot_at="{x")
    add("f-string-comma", "@string{a, b = {x}}")
    add("f-comment-eof", "@comment{never closed\n%sline" % body(), "eof", slot_at="{never")
    add("f-comment-next", "@comment{never closed", "follow", slot_at="{never")
    add("f-preamble-eof", "@preamble{\"x", "eof", slot_at="\"x")
    add("f-preamble-next", "@preamble{{x}", "follow", slot_at="{x")
    # blocks that fail in the library / by their fields
    sep = rng.choice(["\n\n", "\n", "\n\n\n"])
    add("d-entry-key", "@article{%s,\n%s%sb = {2}\n}" % (key, body(), ind), pre="@article{%s, a = {1}}%s" % (key, sep), slot_at="{2")
    add("d-entry-key-one-line", "@misc{%s}" % key, pre="@article{%s, a = {1}}%s" % (key, sep))
    add("d-string-key", "@string{%s = {b}}" % key, pre="@string{%s = {a}}%s" % (key, sep), slot_at="{b")
    add("d-field", "@article{%s,\n%sa = {1},\n%s%sa = {2}\n}" % (key, ind, body(), ind), slot_at="{2")
    add("d-field-and-key", "@article{%s,\n  a = {1},\n  A = {x},\n  a = {2}\n}" % key, pre="@book{%s, z = 0}%s" % (key, sep), slot_at="{2")
    return out


def _notice(label, tpl=None, guess=1):
    d = {"w": label, "n": guess}
    if tpl is not None:
        d["tpl"] = tpl
    return d


class _Target(str):
    """marks the segment whose block the notices of this document count"""


def _finish(parts):
    """parts: literals, notice dicts (with 'of' still missing), one _Target literal -> JSON segment list"""
    t = [i for i, p in enumerate(parts) if isinstance(p, _Target)]
    segs = []
    for p in parts:
        if isinstance(p, dict):
            p = dict(p)
            if t and "of" not in p:
                p["of"] = t[0]
            segs.append(p)
        else:
            segs.append(str(p))
    return segs


def _tail(rng, tailmode):
    f = rng.choice(FOLLOWERS)
    if tailmode == "eof":
        return rng.choice(["", "", "\n", "\n\n", "  ", "\n\t"])
    if tailmode == "follow":
        return rng.choice(["\n", "\n", "\n\n", "\n\n\n", " ", "\n  "]) + f
    return rng.choice(["", "\n", "\n\n" + f, "\n" + f, " " + f, "\n\n" + f])


def place(rng, tgt, where, label, tpl=None):
    """segment list of one document: the target block with a notice of the given variant at the given place"""
    kind, pre, block, tailmode, guess, _slot = tgt
    N = _notice(label, tpl, guess)
    X = rng.choice(["", "", "", "@misc{first, a = {b}}\n\n", "some text\n\n", "% a remark\n\n", "\n", "@string{s1 = {x}}\n", "\n\n  "])
    B = _Target(block)
    Z = _tail(rng, tailmode)
    V = rng.choice(VALID_BLOCKS)
    if where == "above":
        parts = [X, pre, N, "\n", B, Z]
    elif where == "blank-above":
        parts = [X, pre, N, "\n\n", B, Z]
    elif where == "ws-above":
        parts = [X, pre, N, rng.choice(["\n \n", "\n\t\n\n", "\r\n", "\n\n\n", "\n\x0c\n", "\n  ", " \n", "\n\r\n", "\n\x85"]), B, Z]
    elif where == "same-line":
        parts = [X, pre, N, rng.choice([" ", "\t", "", "  "]), B, Z]
    elif where == "remark-above":
        parts = [X, pre, rng.choice(["user remark\n", "% note\n", "x = y\n", "}\n", "user remark\n\n", "a\nb\n", "remark "]), N, "\n", B, Z]
    elif where == "twice-above":
        parts = [X, pre, N, rng.choice(["\n", "\n\n", " "]), N, "\n", B, Z]
    elif where == "above-first":            # only meaningful with a duplicate pair: the count of the second above the first
        parts = [X, N, "\n", pre, B, Z]
    elif where == "below":
        if tailmode == "any":
            parts = [X, pre, B, rng.choice(["\n", "\n\n", " "]), N, rng.choice(["", "\n", "\n\n" + rng.choice(FOLLOWERS)])]
        else:                               # the notice ends up inside the raw of the failed block
            parts = [X, pre, B, "\n", N, Z]
    elif where == "far-before":
        parts = [N, "\n\n", V, "\n\n", X, pre, B, Z]
    elif where == "far-after":
        if tailmode == "eof":
            parts = [N, "\n", X, V, "\n", "text between\n\n", pre, B, Z]
        else:
            Z = _tail(rng, "follow") if tailmode == "follow" else "\n\n"
            parts = [X, pre, B, Z, "\n", V, "\n\n", N, rng.choice(["", "\n"])]
    else:
        raise ValueError(where)
    return _finish(parts)


def in_context(rng, tgt, ctx, label, tpl=None):
    kind, pre, block, tailmode, guess, slot = tgt
    N = _notice(label, tpl, guess)
    B = _Target(block)
    Z = _tail(rng, tailmode)
    gap = rng.choice(["\n", "\n\n", "\n"])
    if ctx == "in-comment":
        parts = [pre, "@comment{", N, "}", gap, B, Z]
    elif ctx == "in-comment-lines":
        parts = [pre, "@comment{\n", N, "\n}", gap, B, Z]
    elif ctx == "in-value":
        parts = [pre, "@misc{holder, note = {", N, "}}", gap, B, Z]
    elif ctx == "in-quoted-value":
        parts = [pre, "@misc{holder,\n\tnote = \"", N, "\"\n}", gap, B, Z]
    elif ctx == "in-string":
        parts = [pre, "@string{w = {", N, "}}", gap, B, Z]
    elif ctx == "in-preamble":
        parts = [pre, "@preamble{", N, "}", gap, B, Z]
    elif ctx == "in-target":
        if slot is None:                    # no value inside: put it on the block's own line(s) instead
            parts = [pre, B, " ", N, Z] if tailmode != "any" else [pre, N, " ", B, Z]
        else:
            nl = rng.choice(["\n", "\n", " ", ""])
            parts = [pre, _Target(block[:slot]), nl, N, nl, block[slot:], Z]
    elif ctx == "in-failed-raw":
        opener = rng.choice(["@book{opener,\n  title = {unclosed\n", "@comment{open\n", "@string{o = {\n", "@book{opener, t = \"q\n"])
        parts = [pre, _Target(opener), N, "\n", block, Z] if rng.random() < 0.5 else [pre, opener, N, "\n", B, Z]
    else:
        raise ValueError(ctx)
    return _finish(parts)


def self_text(rng):
    """segment list: something the library writes / reserves, as text somewhere in a small document"""
    w = rng.choice([{"m": rng.randrange(10 ** 6)}, {"m": rng.randrange(10 ** 6)}, {"f": "sep"}, {"f": "indent"}, {"f": "valsep"}])
    tgt = rng.choice(targets(rng))
    kind, pre, block, tailmode, _g, _s = tgt
    Z = _tail(rng, tailmode)
    how = rng.choice(["free-above", "free-line", "value", "bare-value", "quoted-value", "key", "type", "comment", "macro", "field-name",
                      "between-fields", "free-below"])
    if how == "free-above":
        parts = [pre, w, "\n", block, Z]
    elif how == "free-line":
        parts = [pre, "text ", w, " text\n", w, "\n\n", block, Z]
    elif how == "value":
        parts = [pre, "@misc{h, note = {", w, "}}\n", block, Z]
    elif how == "bare-value":
        parts = [pre, "@misc{h, note = ", w, "}\n", block, Z]
    elif how == "quoted-value":
        parts = [pre, "@misc{h, note = \"", w, "\"}\n", block, Z]
    elif how == "key":
        parts = [pre, "@misc{", w, ", a = {b}}\n", block, Z]
    elif how == "type":
        parts = [pre, "@", w, "{k1, a = {b}}\n", block, Z]
    elif how == "comment":
        parts = [pre, "@comment{", w, "}\n", block, Z]
    elif how == "macro":
        parts = [pre, "@string{", w, " = {x}}\n", block, Z]
    elif how == "field-name":
        parts = [pre, "@misc{h, ", w, " = {x}}\n", block, Z]
    elif how == "between-fields":
        parts = [pre, "@misc{h,", w, "a", w, "=", w, "{x},", w, "b = 1", w, "}", w, block, Z]
    else:
        parts = [pre, block, "\n", w, Z if tailmode != "any" else ""]
    return _finish(parts), how, kind


def document(rng, p_notice=0.6, primary=0.7):
    """segment list of a document of 2..6 blocks of random kinds, notices of random variants above some of them"""
    n = rng.randint(2, 6)
    parts = []
    kinds = []
    sep = rng.choice(["\n\n", "\n\n", "\n", "\n\n\n", "\n \n"])
    for i in range(n):
        pool = targets(rng)
        last = i == n - 1
        tgt = rng.choice([t for t in pool if last or t[3] != "eof"])
        kind, pre, block, tailmode, guess, _s = tgt
        kinds.append(kind)
        parts.append(pre)
        if rng.random() < p_notice:
            lab = rng.choice(PRIMARY) if rng.random() < primary else rng.choice(LABELS)
            tpl = rng.choice(CUSTOM_TEMPLATES) if rng.random() < 0.15 else None
            N = _notice(lab, tpl, guess)
            gap = rng.choice(["\n", "\n", "\n", "\n\n", " "])
            parts += [N, gap]
            N["of"] = len(parts)
        parts.append(block)
        if last:
            parts.append(_tail(rng, tailmode) if tailmode == "eof" else rng.choice(["", "\n"]))
        else:
            parts.append(sep if tailmode != "follow" else rng.choice(["\n", sep]))
    return [p if isinstance(p, dict) else str(p) for p in parts], kinds


# ------------------------------------------------------------------------------------------------------- formats (parent)
SEPARATORS = ["\n", "", "\n\n\n", " ", "\n% ---\n", "\r\n\r\n", "\n" + DEFAULT_TPL_GUESS.format(n=1) + "\n", "\n\n\n\n", "\t"]
INDENTS = ["", " ", "    ", "\t\t", "  \t"]


def formats(rng, k):
    """k format descriptions: the default, every custom template alone, every separator / indent alone, then random mixtures"""
    fixed = [{}] + [{"tpl": t} for t in CUSTOM_TEMPLATES] + [{"sep": s} for s in SEPARATORS] + [{"indent": i} for i in INDENTS] + \
            [{"col": "auto"}, {"col": 14}, {"comma": True}]
    out = []
    for i in range(k):
        r = rng.random()
        if r < 0.3:
            out.append({})
        elif r < 0.65:
            out.append(dict(fixed[rng.randrange(len(fixed))]))
        else:
            f = {}
            if rng.random() < 0.6:
                f["tpl"] = rng.choice(CUSTOM_TEMPLATES)
            if rng.random() < 0.5:
                f["sep"] = rng.choice(SEPARATORS)
            if rng.random() < 0.4:
                f["indent"] = rng.choice(INDENTS)
            if rng.random() < 0.3:
                f["col"] = rng.choice(["auto", 0, 8, 20])
            if rng.random() < 0.3:
                f["comma"] = True
            out.append(f)
    return out


def fmt_label(f):
    if not f:
        return "default"
    return "+".join(sorted({"tpl": "template", "sep": "separator", "indent": "indent", "col": "column", "comma": "trailing-comma"}[k] for k in f))


# ------------------------------------------------------------------------------------------------------- libraries (parent)
def library_spec(rng):
    """block specs for a library built through the public constructors; text fields are segment lists"""
    raws = ["@book{cut,\n  title = {An unfinished", "@string{broken", "@comment{open\nline 2\nline 3", "@book{k, t = \"q",
            "@article{dup,\n\ta = {1}\n}", "@book{cut,\n  title = {An unfinished\n", "@book{k\n\n", "@preamble{\"x"]
    raw = rng.choice(raws)
    n = len(raw.splitlines())
    lab = rng.choice(PRIMARY + PRIMARY + LABELS)
    tpl = rng.choice(CUSTOM_TEMPLATES) if rng.random() < 0.2 else None
    N = dict(_notice(lab, tpl, n), fixed=True)
    specs = []
    how = rng.choice(["implicit", "implicit-lines", "explicit", "field", "string", "preamble", "two-failed", "failed-raw"])
    if rng.random() < 0.5:
        specs.append({"k": "entry", "type": "article", "key": "first", "fields": [["title", ["{T}"]], ["year", ["1999"]]]})
    if how == "implicit":
        specs.append({"k": "implicit", "text": [N]})
    elif how == "implicit-lines":
        specs.append({"k": "implicit", "text": ["user remark\n", N]})
    elif how == "explicit":
        specs.append({"k": "explicit", "text": [N]})
    elif how == "field":
        specs.append({"k": "entry", "type": "misc", "key": "holder", "fields": [["note", ["{", N, "}"]]]})
    elif how == "string":
        specs.append({"k": "string", "key": "w", "value": ["{", N, "}"]})
    elif how == "preamble":
        specs.append({"k": "preamble", "value": ["{", N, "}"]})
    elif how == "two-failed":
        specs.append({"k": "failed", "raw": [rng.choice(raws[4:7])]})
    elif how == "failed-raw":
        specs.append({"k": "failed", "raw": ["@comment{open\n", N, "\n"]})
    specs.append({"k": "failed", "raw": [raw]})
    if rng.random() < 0.4:
        specs.append({"k": "entry", "type": "misc", "key": "after", "fields": []})
    return specs, how, lab


# ------------------------------------------------------------------------------------------------------- generation (parent)
def generate(rng, tier):
    cases = []
    rep = 1 if tier == "quick" else 6

    def W(stream, segs, **tags):
        cases.append({"stream": stream, "input": {"segs": segs, "tags": ["%s:%s=%s" % (stream, k, v) for k, v in sorted(tags.items())]}})

    for _ in range(rep):
        # W: every kind x every place with the exact count; n-1 / n+1 at the places next to the block; custom templates; near misses
        for _j in range(2):
            for tgt in targets(rng):
                for where in PLACES + (["above-first"] if tgt[1] else []):
                    W("W", place(rng, tgt, where, "exact"), variant="exact", place=where, target=tgt[0], template="default")
        for lab in ("n-1", "n+1"):
            for tgt in targets(rng):
                for where in ("above", "blank-above", "remark-above", "ws-above", "same-line", "twice-above"):
                    W("W", place(rng, tgt, where, lab), variant=lab, place=where, target=tgt[0], template="default")
        for tpl in CUSTOM_TEMPLATES:
            pool = targets(rng)
            for tgt in rng.sample(pool, 6):
                where = rng.choice(["above", "above", "blank-above", "remark-above", "same-line"])
                W("W", place(rng, tgt, where, rng.choice(["exact", "exact", "n+1", "n-1"]), tpl), variant="exact|n+-1", place=where,
                  target=tgt[0], template="custom")
        for lab in LABELS[3:]:
            pool = targets(rng)
            picks = rng.sample([t for t in pool if t[0][0] == "f"], 3) + rng.sample([t for t in pool if t[0][0] == "d"], 1) + \
                rng.sample([t for t in pool if t[0][0] == "v"], 2)
            for tgt in picks:
                where = rng.choice(["above", "above", "blank-above", "remark-above", "same-line", "below"])
                W("W", place(rng, tgt, where, lab), variant=lab, place=where, target=tgt[0], template="default")
        # W-ctx
        for ctx in CONTEXTS:
            for tgt in targets(rng):
                W("W-ctx", in_context(rng, tgt, ctx, "exact"), variant="exact", context=ctx, target=tgt[0])
            for tgt in rng.sample(targets(rng), 6):
                lab = rng.choice(LABELS[1:])
                W("W-ctx", in_context(rng, tgt, ctx, lab, rng.choice([None, None, rng.choice(CUSTOM_TEMPLATES)])), variant=lab, context=ctx, target=tgt[0])
        # W-self
        for _i in range(140):
            segs, how, kind = self_text(rng)
            W("W-self", segs, how=how)
        # W-doc
        for _i in range(300):
            segs, kinds = document(rng)
            W("W-doc", segs, blocks=len(kinds))
        # L
        fm = formats(rng, 80)
        for i in range(80):
            specs, how, lab = library_spec(rng)
            cases.append({"stream": "L", "input": {"lib": specs, "fmt": fm[i], "cycles": rng.choice([1, 2, 3]), "stack": rng.choice(["none", "default"]),
                                                   "tags": ["L:holder=" + how, "L:variant=" + lab, "L:format=" + fmt_label(fm[i])]}})
        # R: every failing kind twice (default format / another one), documents, mutated grammar documents, W documents
        r_docs = []
        for tgt in targets(rng):
            if tgt[0][0] == "v":
                continue
            for _j in range(2):
                X = rng.choice(["", "% my references\n", "@article{good,\n  title = {A title}\n}\n\n", "@string{s = {x}}\n"])
                r_docs.append(({"text": X + tgt[1] + tgt[2] + _tail(rng, tgt[3])}, tgt[0]))
        for _i in range(90):
            segs, kinds = document(rng, p_notice=rng.choice([0.0, 0.0, 0.5]))
            r_docs.append(({"segs": segs}, "document"))
        for _i in range(90):
            t = G.mutate(rng, G.gen_doc(rng)[0])
            if rng.random() < 0.3:
                t = G.mutate(rng, t)
            r_docs.append(({"text": t}, "mutated-grammar-document"))
        for tgt in targets(rng):
            if tgt[0][0] != "v":
                r_docs.append(({"segs": place(rng, tgt, rng.choice(["above", "above", "blank-above", "remark-above"]), rng.choice(PRIMARY))},
                               "with-notice:" + tgt[0]))
        fm = formats(rng, len(r_docs))
        for i, (d, what) in enumerate(r_docs):
            f = {} if (what[:2] in ("f-", "d-") and i % 2 == 0) else fm[i]
            inp = dict(d, fmt=f, cycles=2 + i % 3, stack=("none", "default")[(i // 3) % 2],
                       tags=["R:doc=" + what, "R:format=" + fmt_label(f)])
            cases.append({"stream": "R", "input": inp})
    return cases


# ------------------------------------------------------------------------------------------------------- resolution (child)
_TREE = {}


def tree_texts():
    """what the tree under test says about itself, through public names only (with the released values as fall-back)"""
    if _TREE:
        return _TREE
    tpl, sep, indent, valsep = DEFAULT_TPL_GUESS, "\n\n", "\t", " = "
    try:
        import bibtexparser
        f = bibtexparser.BibtexFormat()
        tpl, sep, indent = f.parsing_failed_comment, f.block_separator, f.indent
        import bibtexparser.writer as writer
        valsep = getattr(writer, "VAL_SEP", valsep)
    except Exception:  # noqa: BLE001
        pass
    _TREE.update(tpl=tpl, sep=sep, indent=indent, valsep=valsep, magic=[w for w in selfref.magic_for_tree() if isinstance(w, str)])
    return _TREE


def notice_text(label, n, tpl=None):
    fmt = types.SimpleNamespace(parsing_failed_comment=tpl if tpl is not None else tree_texts()["tpl"])
    got = dict(selfref.warning_lines(n, fmt))
    return got.get(label, got["exact"])


def _join(segs, counts):
    tt = tree_texts()
    out, offs = [], []
    pos = 0
    for i, s in enumerate(segs):
        if isinstance(s, dict):
            if "w" in s:
                s = notice_text(s["w"], counts.get(i, s.get("n", 1)), s.get("tpl"))
            elif "m" in s:
                s = tt["magic"][s["m"] % len(tt["magic"])]
            else:
                s = {"sep": tt["sep"], "indent": tt["indent"], "valsep": tt["valsep"]}[s["f"]]
        offs.append(pos)
        out.append(s)
        pos += len(s)
    return "".join(out), offs


def resolve(segs, want_parse=False):
    """segment list -> (text, number of notices whose count was taken from the tree's own parse[, that parse if it is of `text`])"""
    wanted = [i for i, s in enumerate(segs) if isinstance(s, dict) and "w" in s and "of" in s and not s.get("fixed")]
    text, offs = _join(segs, {})
    if not wanted:
        return (text, 0, None) if want_parse else (text, 0)
    r = _parse(text, False)
    if r[0] != "ok":
        return (text, 0, r) if want_parse else (text, 0)
    blocks = r[1].blocks
    _ok, _d, boffs = SC.tiles(text, blocks)
    start = {}
    for b, o in zip(blocks, boffs):
        start[o - 1] = b
    counts = {}
    for i in wanted:
        b = start.get(offs[segs[i]["of"]])
        if b is not None and isinstance(b.raw, str):
            counts[i] = len(b.raw.splitlines())
    if all(counts[i] == segs[i].get("n", 1) for i in counts):
        return (text, len(counts), r) if want_parse else (text, len(counts))
    text2, _ = _join(segs, counts)
    if text2 == text:
        return (text, len(counts), r) if want_parse else (text, len(counts))
    return (text2, len(counts), None) if want_parse else (text2, len(counts))


def build_format(f):
    import bibtexparser
    fmt = bibtexparser.BibtexFormat()
    if "tpl" in f:
        fmt.parsing_failed_comment = f["tpl"]
    if "sep" in f:
        fmt.block_separator = f["sep"]
    if "indent" in f:
        fmt.indent = f["indent"]
    if "col" in f:
        fmt.value_column = f["col"]
    if "comma" in f:
        fmt.trailing_comma = f["comma"]
    return fmt


def build_library(specs):
    import bibtexparser
    from bibtexparser import model
    blocks = []
    for s in specs:
        def t(x):
            return resolve(x)[0]
        k = s["k"]
        if k == "implicit":
            blocks.append(model.ImplicitComment(t(s["text"])))
        elif k == "explicit":
            blocks.append(model.ExplicitComment(t(s["text"])))
        elif k == "entry":
            blocks.append(model.Entry(s["type"], s["key"], [model.Field(a, t(v)) for a, v in s["fields"]]))
        elif k == "string":
            blocks.append(model.String(s["key"], t(s["value"])))
        elif k == "preamble":
            blocks.append(model.Preamble(t(s["value"])))
        else:
            blocks.append(model.ParsingFailedBlock(error=ValueError("constructed"), raw=t(s["raw"])))
    return bibtexparser.Library(blocks)


def matching_notices(text, lib, tpl):
    """how many failed blocks of this parse have, on the line directly above, the notice for exactly their line count"""
    try:
        from bibtexparser.model import ParsingFailedBlock
        _ok, _d, offs = SC.tiles(text, lib.blocks)
        s = "\n" + text
        k = 0
        for b, o in zip(lib.blocks, offs):
            if isinstance(b, ParsingFailedBlock) and s[o - 1] == "\n":
                above = s[:o - 1].rpartition("\n")[2]
                if above.strip() != "" and above.strip() == tpl.format(n=len(b.raw.splitlines())).strip():
                    k += 1
        return k
    except Exception:  # noqa: BLE001
        return 0


def _parse(text, default_stack):
    import bibtexparser
    if default_stack:
        return implutil.guarded(lambda: bibtexparser.parse_string(text))
    return implutil.guarded(lambda: bibtexparser.parse_string(text, parse_stack=[]))


def judge_both(text, judge, items=None, rA=None):
    """both parses of one text -> (ok, detail, result of the parse with the empty stack, result with the default stack or None)"""
    if rA is None:
        rA = _parse(text, False)
    rB = None
    for name in ("", "[default parse stack] "):
        r = rA
        if name:
            r = rB = _parse(text, True)
        if r[0] == "exc":
            return False, name + "parse raised " + r[2], rA, rB
        ok, detail = judge(text, r[1], items)
        if not ok:
            return False, name + detail, rA, rB
    return True, "", rA, rB


def impl_segs(case, judge):
    inp = case["input"]
    text, n_counted, r0 = resolve(inp["segs"], want_parse=True)
    ok, detail, rA, _rB = judge_both(text, judge, rA=r0)
    rec = {"sx_in": [132, enc.enc_str(text)], "sx_out": SC.enc_result(rA), "summary": SC.summary(rA)}
    if not SC.lower_ok(text):
        rec["skip"] = True
    tags = list(inp.get("tags", []))
    if not ok:
        detail += " :: input text %r" % text[:600]
    rec["oracle"] = {"ok": ok, "detail": detail}
    kinds = SC.block_kinds(rA[1]) if rA[0] == "ok" else []
    if rA[0] == "ok":
        tpls = set([tree_texts()["tpl"]] + [s["tpl"] for s in inp["segs"] if isinstance(s, dict) and "tpl" in s])
        if any(matching_notices(text, rA[1], t) for t in tpls):
            tags.append("selfref:notice-with-true-count-directly-above-failed-block")
    rec["nontrivial"] = len(kinds) >= 2 or any(k not in PLAIN for k in kinds)
    rec["key"] = text if len(text) < 200 else str(hash(text))
    rec["tags"] = sorted(set(kinds)) + tags
    return rec


def impl_cycles(case, judge):
    """(parse -> write) x cycles + final parse; every parse judged on the text it was given"""
    import bibtexparser
    inp = case["input"]
    tags = list(inp.get("tags", []))
    fmt = build_format(inp.get("fmt") or {})
    none = inp.get("stack") == "none"
    cycles = int(inp["cycles"])
    if "lib" in inp:
        lib0 = build_library(inp["lib"])
        w = implutil.guarded(lambda: bibtexparser.write_string(lib0, bibtex_format=fmt, unparse_stack=[]))
        if w[0] != "ok":
            return {"sx_in": None, "sx_out": None, "oracle": {"ok": True, "detail": ""}, "nontrivial": False, "tags": tags + ["L:write-raised"],
                    "summary": "writing the constructed library raised " + w[2]}
        text = w[1]
    elif "segs" in inp:
        text = resolve(inp["segs"])[0]
    else:
        text = inp["text"]
    tags.append("%s:cycles=%d" % (case.get("stream", "R"), cycles))
    tags.append("%s:stack=%s" % (case.get("stream", "R"), "empty" if none else "default"))
    ok, detail = True, ""
    rA = None
    kinds = set()
    matched = 0
    last_text = text
    tpl = fmt.parsing_failed_comment if isinstance(fmt.parsing_failed_comment, str) else tree_texts()["tpl"]
    for c in range(cycles + 1):
        ok, detail, rA_c, rB = judge_both(text, judge)
        rA, last_text = rA_c, text
        if rA_c[0] == "ok":
            kinds.update(SC.block_kinds(rA_c[1]))
            if c > 0:
                matched += matching_notices(text, rA_c[1], tpl)
        if not ok:
            detail = "parse no. %d of the round trip (text written by the library after %d parse/write cycles): %s :: text parsed %r" % (
                c + 1, c, detail, text[:600])
            break
        if c == cycles:
            break
        if none:
            lib = rA_c[1]
            w = implutil.guarded(lambda: bibtexparser.write_string(lib, bibtex_format=fmt, unparse_stack=[]))
        else:
            lib = rB[1]
            w = implutil.guarded(lambda: bibtexparser.write_string(lib, bibtex_format=fmt))
        if w[0] != "ok" or not isinstance(w[1], str):
            tags.append("%s:write-raised" % case.get("stream", "R"))       # not C03's business (C01 / C05 judge the writer)
            break
        text = w[1]
    rec = {"sx_in": [132, enc.enc_str(last_text)], "sx_out": SC.enc_result(rA), "summary": SC.summary(rA)}
    if not SC.lower_ok(last_text):
        rec["skip"] = True
    rec["oracle"] = {"ok": ok, "detail": detail}
    failed = sorted(k for k in kinds if k not in PLAIN)
    rec["nontrivial"] = bool(failed)
    rec["key"] = last_text if len(last_text) < 200 else str(hash(last_text))
    if matched:
        tags.append("selfref:notice-with-true-count-directly-above-failed-block")
    if failed:
        tags.append("%s:with-failed-blocks" % case.get("stream", "R"))
    rec["tags"] = sorted(kinds) + tags
    return rec


def shrink(case):
    inp = case["input"]
    if "segs" in inp:
        segs = inp["segs"]
        for i in range(len(segs)):
            if isinstance(segs[i], dict) and "of" in segs[i]:
                continue
            if any(isinstance(s, dict) and s.get("of") == i for s in segs):
                continue
            new = []
            for j, s in enumerate(segs):
                if j == i:
                    continue
                if isinstance(s, dict) and "of" in s and s["of"] > i:
                    s = dict(s, of=s["of"] - 1)
                new.append(s)
            cc = dict(case)
            cc["input"] = dict(inp, segs=new)
            yield cc
    elif "text" in inp:
        for cc in SC.shrink_text(case):
            yield cc
