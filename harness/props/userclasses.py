"""User-side subclasses and duck-typed variants of the library's public classes, shared by the per-property generators.

The properties quantify over "every library / entry / middleware": a caller may hand in instances of his own subclasses.
Code that takes a shortcut through ``type(x) is C``, a ``{type: ...}`` dispatch table, a private attribute or
``callable(x)`` behaves differently on them while every parsed object still works (seeding round 7: C08-g, C15-g, C17-g,
C20-g).  Everything here is built lazily from the modules of the tree under test, so the classes always derive from the
classes that tree defines.

    uc = userclasses.get()          # namespace with the classes below
    uc.SubEntry / SubString / SubPreamble / SubExplicitComment / SubImplicitComment / SubField / SubLibrary
                                     trivial subclasses (``class SubEntry(Entry): pass``)
    uc.CopyFieldsEntry               Entry whose ``fields`` getter returns a copy of the list it holds and whose setter
                                     stores a copy (a defensive view: mutating the returned list changes nothing)
    uc.IntSub, uc.MonthEnum          ``int`` subclass instance factory, ``enum.IntEnum`` with members 1..12
    uc.StrSub                        ``str`` subclass
    uc.as_sub(block)                 rebuild a plain Entry/String/Preamble/ExplicitComment/ImplicitComment as its trivial
                                     subclass (same content, metadata carried over); other blocks are returned unchanged
    uc.as_copyfields(entry)          rebuild a plain Entry as CopyFieldsEntry
    uc.with_call(mw_cls)             subclass of a middleware class that also defines ``__call__`` (returns its argument
                                     unchanged), i.e. an object that is BOTH a middleware and a callable
"""
import enum
import types

_NS = None


def get():
    global _NS
    if _NS is not None:
        return _NS
    from bibtexparser.library import Library
    from bibtexparser.model import Entry, ExplicitComment, Field, ImplicitComment, Preamble, String

    class SubEntry(Entry):
        pass

    class SubString(String):
        pass

    class SubPreamble(Preamble):
        pass

    class SubExplicitComment(ExplicitComment):
        pass

    class SubImplicitComment(ImplicitComment):
        pass

    class SubField(Field):
        pass

    class SubLibrary(Library):
        pass

    class CopyFieldsEntry(Entry):
        @property
        def fields(self):
            return list(self._held)

        @fields.setter
        def fields(self, value):
            self._held = list(value)

        def __init__(self, entry_type, key, fields, start_line=None, raw=None):
            self._held = list(fields)
            super().__init__(entry_type, key, self._held, start_line, raw)

        # base-class methods address ``self._fields``: it is always the held list itself
        def __setattr__(self, name, value):
            if name in ("_held", "_fields"):
                object.__setattr__(self, "_held", value)
                object.__setattr__(self, "_fields", value)
            else:
                object.__setattr__(self, name, value)

    class IntSub(int):
        pass

    class StrSub(str):
        pass

    MonthEnum = enum.IntEnum("MonthEnum", {"M%d" % i: i for i in range(1, 13)})

    def _carry(src, dst):
        try:
            dst.parser_metadata.clear()
            dst.parser_metadata.update(src.parser_metadata)
        except Exception:  # noqa: BLE001
            pass
        return dst

    def as_sub(b):
        t = type(b)
        if t is Entry:
            return _carry(b, SubEntry(b.entry_type, b.key, list(b.fields), b.start_line, b.raw))
        if t is String:
            return _carry(b, SubString(b.key, b.value, b.start_line, b.raw))
        if t is Preamble:
            return _carry(b, SubPreamble(b.value, b.start_line, b.raw))
        if t is ExplicitComment:
            return _carry(b, SubExplicitComment(b.comment, b.start_line, b.raw))
        if t is ImplicitComment:
            return _carry(b, SubImplicitComment(b.comment, b.start_line, b.raw))
        return b

    def as_copyfields(e):
        if type(e) is Entry:
            return _carry(e, CopyFieldsEntry(e.entry_type, e.key, list(e.fields), e.start_line, e.raw))
        return e

    _call_cache = {}

    def with_call(mw_cls):
        if mw_cls not in _call_cache:
            def __call__(self, x, *a, **k):
                return x
            _call_cache[mw_cls] = type("Callable" + mw_cls.__name__, (mw_cls,), {"__call__": __call__})
        return _call_cache[mw_cls]

    _NS = types.SimpleNamespace(**{k: v for k, v in locals().items() if not k.startswith("_")})
    return _NS
