"""C07, streams 'rep' / 'heaprep': VALUE-KEYED state and REPEATED configurations.

What the other streams of C07 do not reach: a result that is fresh with respect to the library it was computed from on
every document whose values are all different, and with every middleware class occurring once per stack, can still share
mutable objects with its input (or with a library handed out by an earlier call) as soon as

  (1) the SAME value text occurs in several fields of one entry and in several entries / libraries (the same person as
      author and editor / translator, the same co-author list twice, the same title, month, @string content), and
  (2) the stack holds the SAME middleware class two or three times with DIFFERENT option sets (name middlewares with
      different name_fields tuples, two sorters with different orders, two enclosing middlewares with different defaults,
      two LaTeX middlewares with different switches), in copy mode, so that the middleware under test receives a library
      that ALREADY holds structured values (lists, NameParts, metadata) produced by an earlier run of its own class,

i.e. whenever anything computed from a value is kept (per process, per class or per instance) and handed out again.

A case = 1 or 2 documents over ONE pool of persons / titles / months / string contents (the second is the same text
parsed again, or another arrangement of the pool), a `prep` part (middlewares run first, each in copy or in in-place
mode: "an earlier middleware run"), and a stack of 2-3 copy-mode middlewares (the calls that are judged).  The
documents are processed one after the other IN ONE PROCESS, with fresh middleware instances per document or with the
same instances for both.

Oracle (props.c07.check_stage, the property statement, per judged call):
  (a) the input library is structurally equal to its prior deep copy and consists of the same objects,
  (b) no mutable object reachable from the result (Library, blocks, Field, field lists, value lists, NameParts AND their
      first/von/last/jr lists, metadata dicts, what error objects hold) is an object of the input graph,
  (c) [this stream] nor an object reachable from ANY library handed out earlier in the case: the parsed libraries, the
      results of the prep part, the results of the earlier judged calls on this and on the other document,
  (d) [this stream] at the end every library handed out earlier (and not given to an in-place middleware since) is
      still structurally equal to the copy taken when it was handed out.

'heaprep': the single-document cases whose stack consists of shipped BLOCK middlewares also go through the Coq heap model
(props.c07_heap, op 166 with the body models of Model/HeapBodies.v; name_fields enter the model as atoms, so every
name_fields tuple is representable): exact sharing pattern of the output, copy and in-place mode.  Two documents in one
process have no counterpart in the model (it runs one call sequence on one initial heap): oracle only, sx_in = None, as
for the other oracle streams of this property.
"""
import json

import gens_split as G

# ---------------------------------------------------------------------------------------------- value pools
FIRST = ["Donald E.", "Leslie", "Ludwig", "Charles", "John", "Jean-Paul", "J.", "M{\\\"u}ller", "Jos\\'e", "A", "Ada B. C."]
VON = ["", "", "", "van", "de la", "von", "d'"]
LAST = ["Knuth", "Lamport", "Beethoven", "Vall{\\'e}e Poussin", "Smith", "Sartre", "{Barnes and Noble, Inc.}", "Garc\\'ia",
        "{\\O}stergaard", "B", "Brinch Hansen", "x"]
JR = ["Jr.", "III", "jr"]
ODD_PERSONS = ["A,, B", "first last,", "a, b, c, d", "others", "{et al.}", "AA bb CC dd", "x", "$x$ y"]
TITLES = ["Collected Papers", "The {TeX} book", "Caf\\'e $x^2$", "On A and B", "T", "10", "Knuth, Donald E.", "a_b \\& c",
          "http://a.b/c and more"]
MONTH_VALS = ["jan", "{March}", "3", "{3}", "\"2\"", "13", "{jan}", "mar", "{February}", "12", "{Dec}"]
STRING_KEYS = ["abbr", "jan", "who", "ttl", "k1"]
ENTRY_KEYS = ["k1", "k2", "K1", "volume", "b"]
NAME_KEYS = ["author", "editor", "translator"]

# name_fields tuples of the repeated name middlewares: indices into props.c07.NAME_FIELDS
#   0 (author, editor, translator)  1 (author, title, Author)  2 (author,)  3 (editor,)  4 (translator, author)
#   5 (editor, translator)  6 (translator,)  7 (title, author)  8 (editor, author)
NF_REP = [2, 3, 4, 5, 6, 7, 8, 0, 2, 3, 4]
TRACKED = ["author", "editor", "translator", "title", "Author"]
NAME_IO = {"SeparateCoAuthors": ("str", "list"), "SplitNameParts": ("list", "parts"),
           "MergeNameParts": ("parts", "list"), "MergeCoAuthors": ("list", "str")}
PARSE_STATE = {"default": "str", "raw": "str", "month": "str", "latexdec": "list", "sep": "list", "split": "parts",
               "split_norm": "parts", "sortcustom": "parts"}


def gen_person(rng):
    r = rng.random()
    if r < 0.08:
        return rng.choice(ODD_PERSONS)
    f, v, l = rng.choice(FIRST), rng.choice(VON), rng.choice(LAST)
    vl = (v + " " + l).strip()
    if r < 0.45:
        return "%s %s" % (f, vl)
    if r < 0.9:
        return "%s, %s" % (vl, f)
    return "%s, %s, %s" % (vl, rng.choice(JR), f)


def gen_pool(rng):
    """the values of one case: few of each, so that they repeat"""
    persons = [gen_person(rng) for _ in range(rng.randint(1, 4))]
    lists = []
    for _ in range(rng.randint(1, 3)):
        lists.append(" and ".join(rng.choice(persons) for _ in range(rng.choice([1, 1, 2, 2, 3]))))
    if rng.random() < 0.5:
        lists.append(rng.choice(persons))            # a single person who also occurs inside a longer list
    return {"persons": persons, "lists": lists, "titles": rng.sample(TITLES, rng.randint(1, 2)),
            "months": rng.sample(MONTH_VALS, rng.randint(1, 2)), "q": rng.random() < 0.2, "keys": rng.sample(ENTRY_KEYS, rng.randint(1, 3)),
            "skeys": rng.sample(STRING_KEYS, 2)}


def _enc(pool, rng, text):
    """the field text of a value: one enclosing style per case (so that equal values are equal TEXTS), seldom the other"""
    q = pool["q"] != (rng.random() < 0.1)
    if q and '"' not in text.replace('\\"', ""):
        return '"%s"' % text
    return "{%s}" % text


def gen_rep_doc(rng, pool):
    out = []
    sdefs = []
    if rng.random() < 0.5:                         # @string definitions holding pool values; two of them the same content
        content = rng.choice(pool["lists"] + pool["titles"] + ["January"])
        for k in pool["skeys"][:rng.randint(1, 2)]:
            c = content if rng.random() < 0.7 else rng.choice(pool["lists"] + pool["titles"])
            out.append("@string{%s = %s}\n" % (k, _enc(pool, rng, c)))
            sdefs.append(k)
    n = rng.choice([1, 2, 2, 3])
    same_entry_text = None
    for e in range(n):
        fields = []
        main = rng.choice(pool["lists"])
        nk = rng.sample(NAME_KEYS, rng.choice([1, 2, 2, 3]))
        if rng.random() < 0.15:
            nk.append("Author")
        for k in nk:
            r = rng.random()
            if r < 0.6:
                v = _enc(pool, rng, main)           # the same text in several name fields of this entry
            elif r < 0.85:
                v = _enc(pool, rng, rng.choice(pool["lists"]))
            elif sdefs and r < 0.93:
                v = rng.choice(sdefs) if rng.random() < 0.6 else "%s # %s" % (rng.choice(sdefs), _enc(pool, rng, " and " + rng.choice(pool["persons"])))
            else:
                v = _enc(pool, rng, rng.choice(pool["persons"]))
            fields.append((k, v))
        if rng.random() < 0.8:
            t = rng.choice(pool["titles"]) if rng.random() < 0.8 else main
            fields.append(("title", _enc(pool, rng, t)))
            if rng.random() < 0.3:
                fields.append((rng.choice(["booktitle", "note", "series"]), _enc(pool, rng, t)))
        if rng.random() < 0.7:
            fields.append(("month", rng.choice(pool["months"] + sdefs[:1])))
        if rng.random() < 0.5:
            fields.append(("year", rng.choice(["1984", "{1984}", "\"1984\""])))
        if rng.random() < 0.1:
            fields.append(rng.choice(fields))       # a duplicate field key (DuplicateFieldKeyBlock)
        if rng.random() < 0.6:
            rng.shuffle(fields)
        body = ",\n".join("  %s = %s" % kv for kv in fields)
        text = "@%s{%s,\n%s%s\n}\n" % (rng.choice(["book", "article", "Article", "misc"]), rng.choice(pool["keys"]), body,
                                     "," if rng.random() < 0.2 else "")
        if same_entry_text is not None and rng.random() < 0.15:
            text = same_entry_text                  # the whole entry again (DuplicateBlockKeyBlock holding equal values)
        same_entry_text = text
        out.append(text)
    extra = rng.random()
    if extra < 0.12:
        out.insert(rng.randrange(len(out) + 1), "%% free text\n@comment{%s}\n" % rng.choice(pool["titles"]))
    elif extra < 0.22:
        out.insert(rng.randrange(len(out) + 1), "@preamble{%s}\n" % _enc(pool, rng, rng.choice(pool["titles"])))
    elif extra < 0.32:
        out.append("@article{%s, author = %s\n\n" % (rng.choice(pool["keys"]), _enc(pool, rng, rng.choice(pool["lists"]))))  # failed block
    text = "".join(out)
    if rng.random() < 0.08:
        text = G.mutate(rng, text)
    return text


# ---------------------------------------------------------------------------------------------- stacks
def _name_spec(rng, cls, nfi):
    return [cls, rng.choice(["last", "first"]), nfi] if cls == "MergeNameParts" else [cls, nfi]


def _applicable(P, state):
    out = []
    for cls, (need, _) in NAME_IO.items():
        for nfi in sorted(set(NF_REP)):
            fs = [f for f in P.NAME_FIELDS[nfi] if f in state]
            if fs and all(state[f] == need for f in fs):
                out.append((cls, nfi))
    return out


def _advance(P, state, cls, nfi):
    for f in P.NAME_FIELDS[nfi]:
        if f in state:
            state[f] = NAME_IO[cls][1]


def _cls_nf(spec):
    return spec[0], spec[-1]


def repeated(stack):
    """number of stages whose class also occurs in the stack with ANOTHER option set"""
    n = 0
    for i, s in enumerate(stack):
        if any(j != i and t[0] == s[0] and t != s for j, t in enumerate(stack)):
            n += 1
    return n


def plan_names(rng, P):
    """(parse option, prep, stack) of name middlewares: every stage finds the value types it expects in its name_fields
    (planned over the fields author/editor/translator/title/Author), and some class occurs at least twice with different
    name_fields tuples"""
    popt = rng.choice(["default", "default", "default", "raw", "sep", "sep", "sep", "split", "split", "split_norm", "latexdec"])
    state = dict((f, "str") for f in TRACKED)
    for f in ("author", "editor", "translator"):
        state[f] = PARSE_STATE[popt]
    prep = []
    if PARSE_STATE[popt] == "str" and rng.random() < 0.45:
        prep.append([["SeparateCoAuthors", 0], rng.random() < 0.5])
        _advance(P, state, "SeparateCoAuthors", 0)
    if rng.random() < 0.45:
        c = _applicable(P, state)
        if c:
            cls, nfi = rng.choice(c)
            prep.append([_name_spec(rng, cls, nfi), rng.random() < 0.5])
            _advance(P, state, cls, nfi)
    if rng.random() < 0.1:                          # unplanned: stages may meet value types they reject (raise / error block)
        stack = [_name_spec(rng, rng.choice(sorted(NAME_IO)), rng.choice(NF_REP)) for _ in range(rng.choice([2, 3]))]
        return popt, prep, stack
    best = None
    for _ in range(40):
        st, stack = dict(state), []
        for _ in range(rng.choice([2, 3, 3])):
            c = _applicable(P, st)
            if not c:
                break
            again = [(cls, nfi) for cls, nfi in c if any(_cls_nf(s) != (cls, nfi) and s[0] == cls for s in stack)]
            cls, nfi = rng.choice(again if again and rng.random() < 0.7 else c)
            stack.append(_name_spec(rng, cls, nfi))
            _advance(P, st, cls, nfi)
        if len(stack) >= 2 and (best is None or repeated(stack) > repeated(best)):
            best = stack
        if best is not None and repeated(best) >= 2:
            break
    if best is None:
        best = [["SeparateCoAuthors", rng.choice(NF_REP)], ["SeparateCoAuthors", rng.choice(NF_REP)]]
    return popt, prep, best


def plan_sorters(rng, P):
    popt = rng.choice(P.PARSE_OPTS)
    if rng.random() < 0.6:
        a, b, c = rng.sample([(o, cs) for o in range(len(P.FIELD_ORDERS)) for cs in (False, True)], 3)
        stack = [["SortFieldsCustom", a[0], a[1]], ["SortFieldsCustom", b[0], b[1]]]
        third = [["SortFieldsCustom", c[0], c[1]], ["SortFieldsAlpha"], ["NormalizeFieldKeys"], ["SortBlocks", 0, True]]
    else:
        a, b, c = rng.sample([(o, pc) for o in range(len(P.BLOCK_ORDERS)) for pc in (False, True)], 3)
        stack = [["SortBlocks", a[0], a[1]], ["SortBlocks", b[0], b[1]]]
        third = [["SortBlocks", c[0], c[1]], ["SortFieldsAlpha"], ["SortFieldsCustom", 0, False], ["LibraryMiddleware"]]
    if rng.random() < 0.5:
        stack.insert(rng.randrange(3), rng.choice(third))
    prep = [[["SortFieldsCustom", rng.randrange(len(P.FIELD_ORDERS)), rng.random() < 0.5], rng.random() < 0.5]] if rng.random() < 0.3 else []
    return popt, prep, stack


def plan_enclosing(rng, P):
    popt = rng.choice(["raw", "raw", "default", "default", "month", "sep"])
    adds = rng.sample([s for s in P.SPECS if s[0] == "AddEnclosing"], 3)
    r = rng.random()
    if r < 0.35:
        stack = [adds[0], adds[1]] + ([adds[2]] if rng.random() < 0.4 else [])
    elif r < 0.7:
        stack = [["RemoveEnclosing"], adds[0], adds[1]]
    else:
        stack = [adds[0], ["RemoveEnclosing"], adds[1]]
    if r >= 0.35 and popt in ("month", "sep"):          # RemoveEnclosing rejects the ints / lists those parse stacks leave
        popt = rng.choice(["raw", "default"])
    prep = [[["RemoveEnclosing"], rng.random() < 0.5]] if popt == "raw" and rng.random() < 0.4 else []
    return popt, prep, stack


def plan_values(rng, P):
    """month / @string / LaTeX / key middlewares over repeated values; classes with options twice with different options"""
    popt = rng.choice(["default", "default", "raw", "month", "sep", "split_unwrap"])
    r = rng.random()
    if r < 0.3:
        stack = [rng.choice([["MonthInt"], ["MonthAbbrev"], ["MonthLong"]]) for _ in range(rng.choice([2, 3]))]
    elif r < 0.5:
        a, b = rng.sample([s for s in P.SPECS if s[0] == "LatexEncoding"], 2)
        stack = [a, b] + ([rng.choice([s for s in P.SPECS if s[0] == "LatexDecoding"])] if rng.random() < 0.5 else [])
    elif r < 0.7:
        a, b = rng.sample([s for s in P.SPECS if s[0] == "LatexDecoding"], 2)
        stack = [a, b] + ([rng.choice([s for s in P.SPECS if s[0] == "LatexEncoding"])] if rng.random() < 0.5 else [])
    else:
        stack = [["Resolve"], rng.choice([["Resolve"], ["RemoveEnclosing"], ["MonthInt"], ["NormalizeFieldKeys"]]),
                 rng.choice([["Resolve"], ["MonthLong"], ["NormalizeFieldKeys"], ["SeparateCoAuthors", 0]])]
        popt = rng.choice(["raw", "raw", "default"])
    prep = [[rng.choice([["Resolve"], ["MonthAbbrev"], ["NormalizeFieldKeys"]]), rng.random() < 0.5]] if rng.random() < 0.3 else []
    return popt, prep, stack


def plan(rng, P):
    r = rng.random()
    if r < 0.58:
        return ("names",) + plan_names(rng, P)
    if r < 0.70:
        return ("sorters",) + plan_sorters(rng, P)
    if r < 0.82:
        return ("enclosing",) + plan_enclosing(rng, P)
    if r < 0.92:
        return ("values",) + plan_values(rng, P)
    popt, prep, stack = plan_names(rng, P)           # a name plan with a library middleware / sorter in between
    other = rng.choice([["SortBlocks", rng.randrange(len(P.BLOCK_ORDERS)), rng.random() < 0.5], ["Resolve"], ["SortFieldsAlpha"],
                        ["LibraryMiddleware"], ["SortFieldsCustom", rng.randrange(len(P.FIELD_ORDERS)), False]])
    stack = stack[:2]
    stack.insert(rng.randrange(3), other)
    return "mixed", popt, prep, stack


def is_block_stack(stack):
    return all(s[0] not in ("Resolve", "SortBlocks", "LibraryMiddleware") for s in stack)


def generate(rng, tier, P):
    quick = tier == "quick"
    cases = []
    for _ in range(130 if quick else 4000):
        family, popt, prep, stack = plan(rng, P)
        pool = gen_pool(rng)
        docs = [gen_rep_doc(rng, pool)]
        r = rng.random()
        twin = "single"
        if r < 0.3:
            docs.append(docs[0])
            twin = "same_text"
        elif r < 0.65:
            docs.append(gen_rep_doc(rng, pool))
            twin = "same_pool"
        cases.append({"stream": "rep", "input": {"kind": "rep", "family": family, "twin": twin, "docs": docs, "parse": popt,
                                                  "prep": prep, "stack": stack, "share_instances": rng.random() < 0.5}})
    # the same class of stacks against the Coq heap model (single document, block middlewares; prep = leading stages)
    n, tries = 0, 0
    want = 40 if quick else 1200
    while n < want and tries < want * 20:
        tries += 1
        family, popt, prep, stack = plan(rng, P)
        if not is_block_stack(stack) or not is_block_stack([p[0] for p in prep]):
            continue
        text = gen_rep_doc(rng, gen_pool(rng))
        stages = [["shipped", bool(ip), s] for s, ip in prep] + [["shipped", False, s] for s in stack]
        cases.append({"stream": "heaprep", "input": {"kind": "heap", "text": text, "parse": popt, "op": ["stack", stages],
                                                      "rep_family": family}})
        n += 1
    return cases


# ---------------------------------------------------------------------------------------------- measurements (for the tags)
def _np_key(p):
    return tuple(tuple(x) if isinstance(x, list) else x for x in (p.first, p.von, p.last, p.jr))


def value_repeats(lib):
    """(same string value in two fields of one entry, same string value in two entries, same @string content twice / as a field)"""
    from bibtexparser.model import Entry, String
    in_entry = across = strings = False
    seen = {}
    for n, b in enumerate(lib.blocks):
        b = getattr(b, "ignore_error_block", None) or b
        if isinstance(b, Entry):
            vals = [f.value for f in b.fields if isinstance(f.value, str) and len(f.value) > 1]
            if len(set(vals)) < len(vals):
                in_entry = True
            for v in set(vals):
                if v in seen and seen[v] != n:
                    across = True
                seen.setdefault(v, n)
        elif isinstance(b, String) and isinstance(b.value, str):
            if ("@", b.value) in seen:
                strings = True
            seen[("@", b.value)] = n
    return in_entry, across, strings


def _fields(lib):
    """the Field objects of the entries of the library (those wrapped in error / duplicate blocks included)"""
    from bibtexparser.model import Entry
    for b in lib.blocks:
        b = getattr(b, "ignore_error_block", None) or b
        if isinstance(b, Entry):
            for f in b.fields:
                yield f


def structured(lib):
    return any(type(f.value) is list for f in _fields(lib))


def split_meets_presplit(inp, res):
    """a stage turned a list of strings into NameParts equal (by value) to NameParts its input already held elsewhere"""
    from bibtexparser.model import Entry
    pre = set(_np_key(x) for f in _fields(inp) if type(f.value) is list for x in f.value if type(x).__name__ == "NameParts")
    if not pre or len(inp.blocks) != len(res.blocks):
        return False
    for bi, bo in zip(inp.blocks, res.blocks):
        if isinstance(bi, Entry) and isinstance(bo, Entry) and len(bi.fields) == len(bo.fields):
            for fi, fo in zip(bi.fields, bo.fields):
                if type(fi.value) is list and all(isinstance(x, str) for x in fi.value) and type(fo.value) is list:
                    if any(type(p).__name__ == "NameParts" and _np_key(p) in pre for p in fo.value):
                        return True
    return False


def equal_structured_values(lib):
    """two structured values (lists / NameParts) of the library are equal by value: what a value-keyed store would hand out twice"""
    seen = set()
    for x in _fields(lib):
        if type(x.value) is list:
            for k in [repr(x.value)] + [repr(p) for p in x.value if type(p).__name__ == "NameParts"]:
                if k in seen:
                    return True
                seen.add(k)
    return False


# ---------------------------------------------------------------------------------------------- the real side
def impl(case, P):
    import heapsnap as HS
    inp = case["input"]
    rec = {"sx_in": None, "sx_out": None,
           "key": json.dumps(["rep", inp["docs"], inp["parse"], inp["prep"], inp["stack"], inp["share_instances"]])}
    tags = ["rep_" + inp["family"], "rep_twin_" + inp["twin"], "rep_sameclass_x%d" % repeated(inp["stack"])]
    if inp["prep"]:
        tags.append("rep_prep_" + "_".join("inplace" if ip else "copy" for _, ip in inp["prep"]))
    problems = []
    libs = []
    try:
        for text in inp["docs"]:
            libs.append(P.parse(text, inp["parse"]))
    except Exception as e:  # noqa: BLE001  (C01's business)
        rec.update(oracle={"ok": True, "detail": ""}, nontrivial=False, tags=["parse_raised"], summary="parse raised " + type(e).__name__)
        return rec
    rec["nontrivial"] = any(type(b).__name__ in ("Entry", "String") or
                            type(getattr(b, "ignore_error_block", None)).__name__ in ("Entry", "String") for l in libs for b in l.blocks)
    rep = [value_repeats(l) for l in libs]
    if any(r[0] for r in rep):
        tags.append("rep_same_value_in_one_entry")
    if any(r[1] for r in rep):
        tags.append("rep_same_value_in_two_entries")
    if any(r[2] for r in rep):
        tags.append("rep_same_string_content")
    registry = {}          # id -> object: every mutable object of every library handed out so far (kept alive: ids stay valid)
    handed = []            # (what, library, copy taken when it was handed out)

    def hand_out(what, lib):
        for k, (w, l, _) in enumerate(handed):
            if l is lib:                         # an in-place middleware returned its argument: the later state counts
                handed[k] = (what, lib, HS.clone(lib))
                break
        else:
            handed.append((what, lib, HS.clone(lib)))
        registry.update(HS.reachable([lib]))

    summary = []
    try:
        for d, lib in enumerate(libs):
            hand_out("document %d as parsed" % d, lib)
        shared_mws = None
        for d, lib in enumerate(libs):
            if shared_mws is None or not inp["share_instances"]:
                mws = [P.make_mw(s, bool(ip)) for s, ip in inp["prep"]] + [P.make_mw(s, False) for s in inp["stack"]]
                shared_mws = mws
            else:
                mws = shared_mws
            cur = lib
            raised = None
            for k, (spec, ip) in enumerate(inp["prep"]):
                ids_in = HS.reachable([cur]) if ip else {}
                try:
                    cur = mws[k].transform(cur)
                except HS.UnknownObject:
                    raise
                except Exception as e:  # noqa: BLE001  (a prep stage rejecting the value types it meets: nothing to judge)
                    raised = "prep_raised_" + type(e).__name__
                    break
                finally:
                    # an in-place stage may change whatever its argument reaches (it returns a NEW Library object around the
                    # same blocks): for every library that reaches into its argument the later state is the one that counts
                    for j, (w, l, _) in enumerate(handed):
                        if ids_in and any(i in ids_in for i in HS.reachable([l])):
                            handed[j] = (w, l, HS.clone(l))
                hand_out("document %d after prep stage %d %s" % (d, k, spec[0]), cur)
            if raised is None:
                for k, spec in enumerate(inp["stack"]):
                    what = "document %d stage %d %s%s" % (d, k, spec[0], "" if len(spec) < 2 else repr(spec[1:]))
                    pre_structured = structured(cur)
                    try:
                        res, pr, _ = P.check_stage(cur, mws[len(inp["prep"]) + k].transform, what, registry=registry)
                    except HS.UnknownObject:
                        raise
                    except Exception as e:  # noqa: BLE001  (not C07's subject, but the input must be intact)
                        raised = "raised_" + type(e).__name__
                        problems += getattr(e, "_c07_pre", [])
                        break
                    problems += pr
                    if pre_structured:
                        tags.append("rep_stage_input_already_structured")
                    if spec[0] == "SplitNameParts" and split_meets_presplit(cur, res):
                        tags.append("rep_split_of_a_name_the_input_holds_split")
                    if equal_structured_values(res):
                        tags.append("rep_result_holds_equal_structured_values")
                    hand_out(what, res)
                    cur = res
            tags.append("rep_" + (raised or "completed"))
            summary.append(raised or [type(b).__name__ for b in cur.blocks][:6])
        # (d) nothing handed out earlier was changed by a later call
        for what, l, snap in handed:
            dd = HS.struct_diff(l, snap)
            if dd is not None:
                problems.append("%s: changed by a LATER call at %s" % (what, dd))
        # in-place mode on a fresh parse of document 0: how often sharing occurs at all (non-vacuity of (b))
        try:
            lib2 = P.parse(inp["docs"][0], inp["parse"])
            cur2 = lib2
            for s, _ in inp["prep"]:
                cur2 = P.make_mw(s, True).transform(cur2)
            ids2 = HS.reachable([cur2])
            for s in inp["stack"]:
                cur2 = P.make_mw(s, True).transform(cur2)
            if any(i in ids2 for i in HS.reachable([cur2])):
                tags.append("rep_inplace_shares")
        except HS.UnknownObject:
            raise
        except Exception:  # noqa: BLE001
            tags.append("rep_inplace_raised")
    except HS.UnknownObject as e:
        problems.append("snapshotter met an unknown object (fail closed): %s" % e)
    rec["summary"] = "%s prep=%s stack=%s -> %s" % (inp["parse"], [[s[0], s[-1], ip] for s, ip in inp["prep"]],
                                                     [[s[0]] + s[1:] for s in inp["stack"]], summary)
    rec["oracle"] = {"ok": not problems, "detail": "; ".join(problems[:3])}
    rec["tags"] = sorted(set(tags))
    return rec
