"""C13 - name parts follow BibTeX's First/von/Last/Jr rules and keep every word once; invalid names become error blocks."""
import itertools
import json

from props import names_common as nc
from props import c13_entries as ce
from props import c13_bibtex as cb

ENGINE = "names"
RULE = ("the repository's BibTeX-derived corpus first (REGULAR_NAME_PARTS_PARSING_TEST_CASES and the strict-mode cases of "
        "tests/middleware_tests/test_names.py: the Python transcription of BibTeX's algorithm and the Coq spec are both validated on "
        "it at every run, tag corpus_validated); bounded-exhaustive token sequences over {Aa, bb, 11, {Cc}, {dd}, {\\'E}x, {\\'e}x, "
        "\\'E, backslash, comma, space, ~, {, }} (quick: every sequence of length <= 4 + seeded sample of length 5; thorough: every "
        "sequence of length <= 5 + samples of lengths 6, 7); names of 1-9 words with every upper/lower/caseless pattern in the three "
        "comma forms; non-ASCII letters; SplitNameParts / MergeNameParts on entries (valid, invalid, non-list values); ONE "
        "SplitNameParts object over 1-3 libraries of 1-4 blocks each (entries with valid names, entries with an invalid name, comments; "
        "with and without in-place modification): every block must get what a fresh middleware gives it (stream library, oracle only); "
        "WHITE SPACE (streams ws-*): every separator of the name tokeniser (space, tab, CR, LF, '~', CRLF, line end + indent) and every "
        "white-space-like character that is NOT a separator (FF, VT, FS..US, U+0085, U+00A0, U+1680, U+2009, U+200B, U+2028, U+2029, "
        "U+3000, U+FEFF) between and around words and commas: every sequence of length <= 4 over {Aa, bb, comma, W} for each W, names "
        "of 1-5 words in the three comma forms with every gap drawn from the separators, both in plain names (no brace, no backslash) "
        "and in names with braces/escapes, realistic names wrapped over two lines with LF / CRLF / CR line ends, the same names "
        "through SplitNameParts (streams ws-middleware, ws-library) and through parse_string on bib texts with LF / CRLF / CR line "
        "ends + SeparateCoAuthors + SplitNameParts (stream ws-text, oracle only). "
        "ENTRIES THE PARSER NEVER PRODUCES BUT THE MODEL ALLOWS (harness/props/c13_entries.py, level ent): the same name-field key "
        "twice or three times with different names (stream dup-keys), keys differing in case only, with and without the capitalised "
        "key in name_fields (dup-case), several name fields of which a LATER one holds an invalid name (later-invalid), lists of "
        "NameParts next to plain lists / strings with the stack restricted to its fields by name_fields or not (structured), the inner "
        "entry of the DuplicateFieldKeyBlock that parse_string hands out for a duplicated key (dup-parser), ONE stack of middleware "
        "objects over a library of 2-3 such entries (dup-library, oracle only); stacks of SeparateCoAuthors / MergeCoAuthors / "
        "SplitNameParts / MergeNameParts starting on strings, lists or NameParts, in-place and copy mode: every field must come out "
        "with what ITS OWN value gives; an invalid name gives a MiddlewareErrorBlock retaining the entry, the offending field and all "
        "non-name fields unchanged, every other name field unchanged or transformed from its own value. "
        "CONTROL SEQUENCES WITH AND WITHOUT BRACED ARGUMENTS AT EVERY BRACE LEVEL (harness/props/c13_bibtex.py, streams cs-*): accents "
        "with a braced / bare / empty argument (\\'{E} \\'E \\v{C} \\v C \\\"{o} \\c{c} ...), BibTeX's built-in control words (\\ss \\AA \\aa \\o "
        "\\O \\L \\l \\i \\j \\oe \\OE \\ae \\AE) bare, with {} and braced, other control words (\\relax X), backslash + non-letter - each "
        "(a) at brace level 0 where it is no special character, (b) as a special character {\\'{E}}douard {\\v{C}}apek {\\AA}, (c) inside a "
        "protecting group {Val\\'{e}ry}, (d) at level 2; upper- and lower-case argument / control word / following letters; every such "
        "word as the first / a middle / the last word of 2-5 word names in the three comma forms, always in the two smallest places "
        "where its case decides the split (U W U; W U, U); two such words in one name; the same names non-strict, through "
        "SplitNameParts and through parse_string + SeparateCoAuthors + SplitNameParts.  VERDICT (all streams but the entry-level "
        "reference of which it is a parameter, too): a literal transcription of bibtex.web's von_token_found (c13_bibtex.py) + the "
        "partition of the property text, validated on the repository's BibTeX-derived corpus at every run (tag "
        "corpus_validated_bibtex_transcription); a case is attributed to known finding K14 exactly when that verdict fails and the "
        "verdict by the in-house reference (names_common.word_case = the rule of the Coq spec = what the library does) holds; the "
        "distribution counts the cases on which the two references differ, per class D1..D5 (tags bibtex_*). "
        "distinct = distinct (text, strict flag) or (entry, middleware) or (libraries); non-trivial = at least two words, or a brace/backslash/"
        "comma, or an invalid name")
TRUSTED = ["independent Python transcription of BibTeX's name algorithm (harness/props/names_common.py: spec_parse), validated at "
           "every run against the repository's corpus produced by real BibTeX",
           "literal Python transcription of bibtex.web's von_token_found (harness/props/c13_bibtex.py), validated the same way; it gives "
           "the verdict, names_common only decides whether a failure belongs to known finding K14"]
ASSUMPTIONS = ["CPython's str.isalpha / str.isupper enter the model as per-character flags"]

REASONS = {"Unmatched closing brace": 1, "Too many commas": 2, "Unterminated opening brace": 3, "Trailing comma at end of name": 4}

UP = ["Aa", "{\\'E}x", "\\'Ex", "Éa", "B.", "{\\AA}b", "X{y}"]
LO = ["bb", "{\\'e}x", "von", "de", "\\'ex", "ßa", "{\\o}x", "d'"]
CL = ["11", "{Cc}", "{dd}", "{{\\'E}}", "{x\\Y}", "--", "{\\1a}", "2{b}"]


def pattern_names(rng, tier):
    nmax = 6 if tier == "quick" else 9
    for n in range(1, nmax + 1):
        pats = list(itertools.product("ULC", repeat=n))
        if tier == "quick" and len(pats) > 800:
            pats = rng.sample(pats, 800)
        elif len(pats) > 7000:
            pats = rng.sample(pats, 7000)
        for pat in pats:
            ws = [rng.choice({"U": UP, "L": LO, "C": CL}[p]) if rng.random() < 0.5 else {"U": "Aa", "L": "bb", "C": "11"}[p] for p in pat]
            yield " ".join(ws)
            if n >= 2:
                i = rng.randint(1, n - 1)
                yield " ".join(ws[:i]) + ", " + " ".join(ws[i:])
            if n >= 3:
                i = rng.randint(1, n - 2)
                j = rng.randint(i + 1, n - 1)
                yield " ".join(ws[:i]) + ", " + " ".join(ws[i:j]) + ", " + "~".join(ws[j:])


def generate(rng, tier):
    import core
    cases = []
    reg, strict, _ = nc.load_repo_corpus(core.REPO)
    for name, exp in reg:
        for st in (True, False):
            cases.append({"stream": "repo-corpus", "input": {"level": "fn", "s": name, "strict": st, "expected": exp}})
    for name, reason in strict:
        cases.append({"stream": "repo-corpus", "input": {"level": "fn", "s": name, "strict": True, "reason": reason}})
        cases.append({"stream": "repo-corpus", "input": {"level": "fn", "s": name, "strict": False}})
    if tier == "quick":
        seqs = list(nc.token_sequences(nc.C13_TOKENS, 4, [5], 60000, rng))
        n_ns, n_mw = 15000, 2500
    else:
        seqs = list(nc.token_sequences(nc.C13_TOKENS, 5, [6, 7], 300000, rng))
        n_ns, n_mw = 150000, 30000
    seen = set()
    uniq = []
    for s in seqs:
        if s not in seen:
            seen.add(s)
            uniq.append(s)
    for s in uniq:
        cases.append({"stream": "tokens", "input": {"level": "fn", "s": s, "strict": True}})
    for s in rng.sample(uniq, min(n_ns, len(uniq))):
        cases.append({"stream": "tokens-nonstrict", "input": {"level": "fn", "s": s, "strict": False}})
    pn = list(pattern_names(rng, tier))
    for s in pn:
        cases.append({"stream": "patterns", "input": {"level": "fn", "s": s, "strict": True}})
    # middleware level
    pool = uniq[:]
    for _ in range(n_mw):
        fields = []
        keys = ["author", "editor", "translator", "title", "year"]
        rng.shuffle(keys)
        for k in keys[:rng.randint(1, 4)]:
            r = rng.random()
            if r < 0.08:
                v = rng.choice(["Aa bb", {"int": 3}, {"none": 1}, {"list": ["Aa", {"int": 1}]}, ""])
            else:
                names = []
                for _ in range(rng.randint(0, 4)):
                    names.append(rng.choice(pn) if rng.random() < 0.7 else rng.choice(pool))
                v = {"list": names}
            fields.append([k, v])
        mws = rng.choice([[2], [2], [2], [2, [3, 0]], [2, [3, 1]], [2, [3, 0], 2], [[3, 0]], [[3, 2]], [2, [3, 2]], [2, 2]])
        cases.append({"stream": "middleware", "input": {"level": "mw", "fields": fields, "mws": mws}})
    cases.extend(library_cases(rng, 1500 if tier == "quick" else 15000, pn, pool))
    cases.extend(whitespace_cases(rng, tier, seen))
    # appended after every earlier stream, so that those keep their inputs
    cases.extend(ce.entry_class_cases(rng, tier, pn, pool))
    cases.extend(cs_cases(rng, tier, seen))
    cases.extend(vtf_cases(rng, tier))
    return cases


# ---------------------------------------------------------------- the two transcriptions of von_token_found against each other
# Known finding K14 is STATED in Coq against Spec/BibtexCase.von_token_found and JUDGED in this check by c13_bibtex.von_token_found.
# Stream `vtf` runs both on the same words (op 95): the class words of c13_bibtex, the named examples and short backslash-free
# words over letters, digits and braces (balanced or not).  Only ASCII words without an escaped brace: the Python transcription keeps
# the property's convention that an escaped brace is no brace and takes str.isalpha() letters, the Coq one is literal bibtex.web.
def vtf_cases(rng, tier):
    quick = tier == "quick"
    words = [w for _, w in cb.FIXED_WORDS] + [w for _, w in cb.class_words(rng, quick)]
    for _ in range(500 if quick else 8000):
        words.append("".join(rng.choice("aAzZ19{}{}{}-.'\\") for _ in range(rng.randint(0, 9))))
    out, seen = [], set()
    for w in words:
        if w in seen or not w.isascii():
            continue
        seen.add(w)
        if any(k == "e" and c in "{}" for c, k in cb.units(w)):
            continue
        out.append({"stream": "vtf", "input": {"level": "vtf", "w": w}})
    return out


# ---------------------------------------------------------------- control sequences at every brace level (c13_bibtex.py)
def cs_cases(rng, tier, seen):
    quick = tier == "quick"
    named = []
    for kind, s in [("csreal", n) for n in cb.REAL_NAMES] + cb.class_names(rng, tier):
        if s not in seen:
            seen.add(s)
            named.append((kind, s))
    cases = [{"stream": "cs-names", "input": {"level": "fn", "s": s, "strict": True, "cs": kind}} for kind, s in named]
    for kind, s in rng.sample(named, min(1500 if quick else 20000, len(named))):
        cases.append({"stream": "cs-nonstrict", "input": {"level": "fn", "s": s, "strict": False, "cs": kind}})
    valid = [s for _, s in named if nc.spec_parse(s) is not None]
    # the same names through SplitNameParts ...
    for _ in range(700 if quick else 7000):
        keys = ["author", "editor", "translator", "title"]
        rng.shuffle(keys)
        fields = [[k, {"list": [rng.choice(cb.REAL_NAMES) if rng.random() < 0.1 else rng.choice(valid) for _ in range(rng.randint(1, 3))]}]
                  for k in keys[:rng.randint(1, 2)]]
        cases.append({"stream": "cs-middleware", "input": {"level": "mw", "fields": fields, "mws": rng.choice([[2], [2], [2], [2, [3, 0]], [2, [3, 1]]])}})
    # ... and through parse_string + SeparateCoAuthors + SplitNameParts (names a bib text can hold as they are)
    intext = [s for s in valid if ce.text_ok(s) and not any(c in s for c in '%#"\n\r\t') and "\\\\" not in s
              and not any(nc.is_and(s[a:b]) for a, b in nc.top_words(s))]
    for _ in range(300 if quick else 3000):
        chunks = []
        for i in range(rng.randint(1, 2)):
            flds = []
            for k in rng.sample(["author", "editor", "title"], rng.randint(1, 2)):
                if k == "title":
                    flds.append("  title = {T}")
                else:
                    nm = [rng.choice(cb.REAL_NAMES) if rng.random() < 0.15 else rng.choice(intext) for _ in range(rng.randint(1, 3))]
                    flds.append("  %s = {%s}" % (k, " and ".join(nm)))
            chunks.append("@article{k%d,\n%s\n}\n" % (i, ",\n".join(flds)))
        cases.append({"stream": "cs-text", "input": {"level": "text", "text": "".join(chunks), "eol": "\n", "cs": 1}})
    return cases


# one of each reported kind of invalid name, with words in front of the point where the error is noticed
BAD_FIXED = ["Knuth, Donald,", "Aa Bb Cc}", "Aa, Bb, Cc, Dd", "Aa {Bb Cc", "Bb,", "von Aa, jr, Bb, Cc", "{Aa bb", "de la Aa} Bb", ","]


def library_cases(rng, n, pn, pool):
    """ONE SplitNameParts object over libraries of SEVERAL blocks, re-used for one to three transform() calls; some
    entries hold an invalid name.  Every block must get what it would get from a fresh middleware: nothing of a name
    (or of a failure) handled earlier may show in the blocks handled later."""
    sample = rng.sample(pool, min(3000, len(pool)))
    bad = [s for s in sample if nc.spec_parse(s) is None]
    good = [s for s in sample if nc.spec_parse(s) is not None] + [s for s in rng.sample(pn, min(3000, len(pn))) if nc.spec_parse(s) is not None]
    realistic = ["Ludwig van Beethoven", "Brinch Hansen, Per", "Leslie B. Lamport", "Charles Louis de la Vallee Poussin",
                 "von Neumann, John", "Beeblebrox, IV, Zaphod", "Donald E. Knuth", "de la Fontaine, Jean", "Aa", ""]
    cases = []
    # smallest shapes first, systematically: an entry with one invalid name, then an entry with one valid name, as the
    # next block of the same library or as the only block of the next transform() call
    for b in BAD_FIXED:
        for g in realistic[:8]:
            e1 = {"type": "book", "key": "bad", "fields": [["author", [b]], ["title", "T"]]}
            e2 = {"type": "book", "key": "good", "fields": [["author", [g]], ["title", "T"]]}
            cases.append({"stream": "library", "input": {"level": "lib", "libs": [[e1, e2]], "inplace": True}})
            cases.append({"stream": "library", "input": {"level": "lib", "libs": [[e1], [e2]], "inplace": True}})
    for _ in range(n):
        nlibs = rng.choice([1, 2, 2, 3])
        sizes = [rng.randint(1 if nlibs > 1 else 2, 4) for _ in range(nlibs)]
        total = sum(sizes)
        # which entries are invalid: usually an early one, so that valid ones follow it
        nbad = rng.choice([0, 1, 1, 1, 2, 3])
        bad_at = set()
        for _ in range(nbad):
            bad_at.add(rng.randrange(max(1, total - 1)) if rng.random() < 0.8 else rng.randrange(total))
        libs, pos = [], 0
        for li, size in enumerate(sizes):
            blocks = []
            for bi in range(size):
                if pos not in bad_at and rng.random() < 0.1:
                    blocks.append({"comment": rng.choice(["Aa, bb,", "a comment", "{Aa"]), "explicit": rng.random() < 0.5})
                    pos += 1
                    continue
                keys = ["author", "editor", "translator", "title", "year"]
                rng.shuffle(keys)
                keys = keys[:rng.randint(1, 3)]
                if not any(k in ("author", "editor", "translator") for k in keys):
                    keys[rng.randrange(len(keys))] = "author"
                namekeys = [k for k in keys if k in ("author", "editor", "translator")]
                badkey = rng.choice(namekeys) if pos in bad_at else None
                fields = []
                for k in keys:
                    if k not in namekeys:
                        fields.append([k, rng.choice(["T", "Aa, bb,", "{Aa bb", "1999", ""])])
                        continue
                    names = []
                    for _ in range(rng.randint(0, 3)):
                        r = rng.random()
                        names.append(rng.choice(realistic) if r < 0.25 else rng.choice(good))
                    if k == badkey:
                        r = rng.random()
                        names.insert(rng.randint(0, len(names)), rng.choice(BAD_FIXED) if r < 0.4 or not bad else rng.choice(bad))
                    fields.append([k, names])
                # keys are unique within one library; the same key may come back in the next library
                blocks.append({"type": rng.choice(["book", "article"]), "key": "k%d" % (bi if rng.random() < 0.5 else pos), "fields": fields})
                pos += 1
            seen = set()
            for j, b in enumerate(blocks):
                if "key" in b:
                    if b["key"] in seen:
                        b["key"] = "k%d_%d" % (li, j)
                    seen.add(b["key"])
            libs.append(blocks)
        if rng.random() < 0.15 and len(libs) > 1:
            libs[-1] = json.loads(json.dumps(libs[0]))  # the very same library text once more
        cases.append({"stream": "library", "input": {"level": "lib", "libs": libs, "inplace": rng.random() < 0.8}})
    return cases


# ---------------------------------------------------------------- white space
# what the name tokeniser separates words at (single characters first, then the runs a wrapped value contains) ...
WS_SEP1 = [" ", "\t", "\r", "\n", "~"]
WS_SEPS = WS_SEP1 + ["\r\n", "\n    ", "\r\n\t", "\r  ", " \r", "\t\t", "~ ", "\n\n", "\r\r", " \t\r\n~"]
# ... and what it does not, although str.split(), str.isspace(), str.splitlines() or the regex class \s do: such a
# character is an ordinary (caseless) character of its word
WS_NONSEP = ["\f", "\v", "\x1c", "\x1d", "\x1e", "\x1f", "\x85", "\xa0", "\u1680", "\u2009", "\u200b", "\u2028", "\u2029",
             "\u3000", "\ufeff"]
# words without any brace or backslash
UP_PLAIN = ["Aa", "Knuth", "Éa", "B.", "O'Neil", "1Ab"]
LO_PLAIN = ["bb", "von", "de", "ßa", "d'", "2b"]
CL_PLAIN = ["11", "--", "1.", "&"]
WS_REALISTIC = ["Donald E. Knuth", "Ludwig van Beethoven", "Charles Louis Xavier Joseph de la Vallee Poussin",
                "de la Fontaine, Jean~Paul", "Ford, Jr., Henry", "von Neumann, John", "Brinch Hansen, Per", "jean de la fontaine",
                "{Barnes and Noble, Inc.} Staff", "Jean-Paul {\\'E}mile de~la Tour"]


def ws_words(rng, pat, plain):
    tab = {"U": UP_PLAIN, "L": LO_PLAIN, "C": CL_PLAIN} if plain else {"U": UP, "L": LO, "C": CL}
    base = {"U": "Aa", "L": "bb", "C": "11"}
    ws = [rng.choice(tab[p]) if rng.random() < 0.5 else base[p] for p in pat]
    if not plain and not any(c in w for w in ws for c in "{}\\"):
        i = rng.randrange(len(ws))
        ws[i] = rng.choice({"U": UP[1:3] + UP[5:], "L": LO[1:2] + LO[4:5] + LO[6:7], "C": CL[1:6] + CL[7:]}[pat[i]])
    return ws


def ws_join(rng, words, ncommas, gap, edge=0.25):
    """the words with `ncommas` commas; gap() gives the separator run of one place; white space may also stand in front
    of a comma, be missing behind it, and surround the whole name"""
    n = len(words)
    cuts = sorted(rng.sample(range(1, n), ncommas)) if ncommas else []
    out = [gap() if rng.random() < edge else ""]
    for i, w in enumerate(words):
        if i:
            if i in cuts:
                out.append((gap() if rng.random() < 0.3 else "") + "," + (gap() if rng.random() < 0.8 else ""))
            else:
                out.append(gap())
        out.append(w)
    out.append(gap() if rng.random() < edge else "")
    return "".join(out)


def ws_wrapped(name, eols=("\n", "\r\n", "\r")):
    """a value wrapped over two lines at each of its blanks, with the continuation indent a bib file has"""
    for i, c in enumerate(name):
        if c == " ":
            for eol in eols:
                for indent in ("", "    ", "\t"):
                    yield name[:i] + eol + indent + name[i + 1:]


def whitespace_cases(rng, tier, seen):
    quick = tier == "quick"
    names = []
    # (1) bounded-exhaustive: one white-space character W at a time, alone between / around words and commas
    for w in WS_SEP1 + WS_NONSEP:
        names.extend(nc.token_sequences(["Aa", "bb", ",", w], 4 if quick else 5, [], 0, rng))
    for w in WS_SEP1[1:4] + WS_NONSEP[:2] + WS_NONSEP[6:8]:
        # ... and next to a brace, a backslash, a blank
        names.extend(nc.token_sequences(["Aa", "{bb}", "\\", ",", " ", w], 3 if quick else 4, [], 0, rng))
    # (2) every upper/lower/caseless pattern in the three comma forms, all gaps filled with the same separator
    nmax = 4 if quick else 5
    for n in range(1, nmax + 1):
        for pat in itertools.product("ULC", repeat=n):
            for sep in WS_SEP1 + ["\r\n"]:
                for plain in (True, False):
                    if not plain and (n > 3 and rng.random() < 0.5):
                        continue
                    words = ws_words(rng, pat, plain)
                    for nco in range(0, min(3, n)):
                        names.append(ws_join(rng, words, nco, lambda: sep, edge=0.15))
    # (3) realistic names wrapped over two lines
    for base in WS_REALISTIC:
        names.extend(ws_wrapped(base))
    # (4) random mixtures: several kinds of separator in one name, non-separators glued to words or standing alone
    for _ in range(3000 if quick else 40000):
        n = rng.choice([1, 2, 2, 3, 3, 3, 4, 4, 5])
        pat = [rng.choice("ULC") for _ in range(n)]
        plain = rng.random() < 0.5
        words = ws_words(rng, pat, plain)
        r = rng.random()
        if r < 0.4:
            for _ in range(rng.randint(1, 2)):
                i = rng.randrange(len(words))
                x = rng.choice(WS_NONSEP)
                k = rng.randrange(4)
                if k == 0:
                    words[i] = x + words[i]
                elif k == 1:
                    words[i] = words[i] + x
                elif k == 2:
                    words.insert(i, x)  # a word of its own
                elif i + 1 < len(words):
                    words[i:i + 2] = [words[i] + x + words[i + 1]]  # no separator at all: one word
        elif r < 0.5 and not plain:
            i = rng.randrange(len(words))
            words[i] = words[i] + "\\"  # a backslash in front of the separator: not an escape
        pool = WS_SEPS if rng.random() < 0.7 else [rng.choice(WS_SEPS), rng.choice(WS_SEPS)]
        nco = rng.choice([0, 0, 1, 1, 2, 3]) if len(words) > 3 else rng.randrange(0, len(words))
        names.append(ws_join(rng, words, min(nco, len(words) - 1), lambda: rng.choice(pool)))
    uniq = []
    for s in names:
        if s not in seen:
            seen.add(s)
            uniq.append(s)
    cases = [{"stream": "ws-names", "input": {"level": "fn", "s": s, "strict": True}} for s in uniq]
    for s in rng.sample(uniq, min(3000 if quick else 30000, len(uniq))):
        cases.append({"stream": "ws-nonstrict", "input": {"level": "fn", "s": s, "strict": False}})
    # (5) the same names through SplitNameParts
    ws_only = [s for s in uniq if any(c in s for c in "\t\r\n\f\v\xa0\x85\u2028")]
    for _ in range(600 if quick else 6000):
        keys = ["author", "editor", "translator", "title"]
        rng.shuffle(keys)
        fields = [[k, {"list": [rng.choice(ws_only) for _ in range(rng.randint(1, 3))]}] for k in keys[:rng.randint(1, 3)]]
        cases.append({"stream": "ws-middleware", "input": {"level": "mw", "fields": fields, "mws": rng.choice([[2], [2], [2, [3, 0]], [2, [3, 1]]])}})
    good = [s for s in rng.sample(ws_only, min(4000, len(ws_only))) if nc.spec_parse(s) is not None]
    for c in library_cases(rng, 250 if quick else 2500, good, ws_only):
        c["stream"] = "ws-library"
        cases.append(c)
    # (6) ... and through parse_string: bib texts with LF / CRLF / CR line ends, values wrapped over several lines
    simple = [s for s in good if not any(c in s for c in "{}\\\"@#=") and not any(c in s for c in WS_NONSEP)]
    braced = [s for s in good if any(c in s for c in "{}") and "\\" not in s and '"' not in s and not any(c in s for c in WS_NONSEP)]
    for _ in range(250 if quick else 2500):
        eol = rng.choice(["\n", "\r\n", "\r\n", "\r"])
        chunks = []
        for i in range(rng.randint(1, 3)):
            flds = []
            for k in rng.sample(["author", "editor", "title", "year"], rng.randint(1, 3)):
                if k in ("author", "editor"):
                    nm = []
                    for _ in range(rng.randint(1, 3)):
                        r = rng.random()
                        nm.append(rng.choice(WS_REALISTIC[:8]) if r < 0.4 else rng.choice(simple) if r < 0.8 else
                                  rng.choice(braced) if r < 0.95 else rng.choice(["Bb,", "Aa, Bb, Cc, Dd"]))
                    v = (" and" + rng.choice([" ", eol + "    ", eol + "\t", " " + eol])).join(nm)
                    # wrap at blanks, the way an editor with this line end would
                    v = "".join((eol + rng.choice(["", "  ", "      ", "\t"])) if c == " " and rng.random() < 0.3 else c for c in v)
                    v = v.replace("\n", eol) if eol != "\n" else v
                    v = v.replace("\r\r\n", "\r\n")
                else:
                    v = rng.choice(["T", "1999", "A title" + eol + "   wrapped"])
                flds.append("  %s = {%s}" % (k, v))
            chunks.append("@article{k%d,%s%s%s}%s" % (i, eol, ("," + eol).join(flds), eol, eol + rng.choice(["", eol])))
        cases.append({"stream": "ws-text", "input": {"level": "text", "text": "".join(chunks), "eol": eol}})
    return cases


def shrink(case):
    inp = case["input"]
    if inp["level"] == "ent":
        yield from ce.shrink(case)
    elif inp["level"] == "fn":
        s = inp["s"]
        for i in range(len(s)):
            yield {"stream": case.get("stream", "?"), "input": {"level": "fn", "s": s[:i] + s[i + 1:], "strict": inp["strict"]}}
    elif inp["level"] == "mw":
        fs = inp["fields"]
        for i in range(len(fs)):
            yield {"stream": "middleware", "input": dict(inp, fields=fs[:i] + fs[i + 1:])}
        for i, (k, v) in enumerate(fs):
            if isinstance(v, dict) and "list" in v:
                for j in range(len(v["list"])):
                    yield {"stream": "middleware", "input": dict(inp, fields=fs[:i] + [[k, {"list": v["list"][:j] + v["list"][j + 1:]}]] + fs[i + 1:])}
        if len(inp["mws"]) > 1:
            yield {"stream": "middleware", "input": dict(inp, mws=inp["mws"][:-1])}


def unj(v):
    if isinstance(v, dict):
        if "list" in v:
            return [unj(x) for x in v["list"]]
        if "int" in v:
            return v["int"]
        return None
    return v


def enc_parts_dict(enc, d):
    return [[enc.enc_str(w) for w in d[k]] for k in ("first", "von", "last", "jr")]


# The reference that gives the verdict: c13_bibtex.parse (BibTeX's own von test).  impl() evaluates a failing case once more
# with the in-house reference to decide whether the failure is the known finding K14.
_REF = [cb.parse]


def ref_parse(name):
    return _REF[0](name)


def check_valid(name, got):
    """direct statement of the property for a valid name (got: dict)"""
    secs = nc.top_words5(name)
    if secs and not secs[-1] and len(secs) == 1:
        secs = []
    exp = ref_parse(name)
    if exp is None:
        return False, "invalid name %r was split into %r instead of being reported" % (name, got)
    # every word once, in order, within its section
    if len(secs) <= 1:
        sec = secs[0] if secs else []
        if got["first"] + got["von"] + got["last"] != sec or got["jr"]:
            return False, "words of %r are not kept once in order: %r" % (name, got)
    else:
        if got["von"] + got["last"] != secs[0] or got["first"] != secs[-1] or got["jr"] != (secs[1] if len(secs) == 3 else []):
            return False, "words of %r are not kept once in order within their sections: %r" % (name, got)
    if any(secs) and (secs[0] if secs else []) and (not got["last"] or got["last"][-1] != secs[0][-1]):
        return False, "Last does not keep the final word: %r -> %r" % (name, got)
    if got != exp:
        return False, "BibTeX's rules give %r for %r, got %r" % (exp, name, got)
    return True, ""


def impl(case):
    """the verdict by BibTeX's own von test; a failure that is none by the in-house reference (the implementation does what
    that reference says, and BibTeX says otherwise) is the known finding K14"""
    _REF[0] = ce.PARSE = cb.parse
    rec = _impl(case)
    o = rec.get("oracle")
    if o is not None and not o.get("ok") and not o.get("known") and "ORACLE INVALID" not in (o.get("detail") or ""):
        _REF[0] = ce.PARSE = nc.spec_parse
        try:
            o2 = _impl(case).get("oracle")
        finally:
            _REF[0] = ce.PARSE = cb.parse
        if o2 is not None and o2.get("ok"):
            o["known"] = "K14"
            o["detail"] = "[K14: the in-house rule (= the library) differs from BibTeX here] " + (o.get("detail") or "")
            rec["tags"] = list(rec.get("tags") or []) + ["k14_attributed"]
    return rec


def ref_tags(names):
    """distribution: on which of these (valid) names do BibTeX's von test and the in-house rule differ, and by which class"""
    tags = set()
    for n in names:
        if not isinstance(n, str):
            continue
        try:
            b = cb.parse(n)
        except Exception:  # noqa: BLE001
            continue
        if b is None:
            continue
        classes = cb.deviation_classes(n)
        for k in classes:
            tags.add("bibtex_word_case_differs:" + k)
        if classes and b != nc.spec_parse(n):
            tags.add("bibtex_partition_differs")
            for k in classes:
                tags.add("bibtex_partition_differs:" + k)
    return sorted(tags)


def _impl(case):
    import enc
    import implutil
    from bibtexparser.middlewares.names import InvalidNameError, parse_single_name_into_parts as pn
    inp = case["input"]
    if inp["level"] == "vtf":
        w = inp["w"]
        von, _, ctx = cb.von_token_found(cb.units(w))
        return {"key": json.dumps(["vtf", w]), "tags": ["vtf", "vtf_ctx:" + ctx, "vtf_von" if von else "vtf_not_von"],
                "sx_in": [95, enc.enc_str(w)], "sx_out": implutil.r_ok(int(bool(von))), "oracle": {"ok": True, "detail": ""},
                "summary": "%r -> %s (%s)" % (w, "von" if von else "not von", ctx), "nontrivial": "{" in w or "\\" in w}
    if inp["level"] == "fn":
        s, strict = inp["s"], inp["strict"]
        rec = {"key": json.dumps([s, strict]), "tags": []}
        try:
            p = pn(s, strict=strict)
            got = nc.parts_dict(p)
            res = [0, enc_parts_dict(enc, got)]
            exc = None
        except InvalidNameError as e:
            msg = str(e)
            code = 0
            for k, v in REASONS.items():
                if msg.endswith(": " + k):
                    code = v
            got, res, exc = None, [1, code], "InvalidNameError"
            if s not in msg:
                exc = "InvalidNameError without the name in its message"
        except Exception as e:  # noqa: BLE001
            got, res, exc = None, None, type(e).__name__
        alias = None
        if got is not None:
            # results of separate calls are independent: edit the returned word lists in place, parse again
            for lst in (p.first, p.von, p.last, p.jr):
                lst.append("edited")
                lst[:1] = ["edited"]
            try:
                again = nc.parts_dict(pn(s, strict=strict))
            except Exception as e:  # noqa: BLE001
                again = type(e).__name__
            if again != got:
                alias = "a second call on %r returned %r after the first result (%r) was edited in place" % (s, again, got)
        spec = ref_parse(s)
        spec_b, spec_h = cb.parse(s), nc.spec_parse(s)
        rec["tags"].extend(ref_tags([s]))
        if "cs" in inp:
            rec["tags"].append("cs_kind:%s" % inp["cs"])
            if spec_b is not None:
                rec["tags"].append("cs_form%d_%dwords" % (len(cb.sections_text(s)), min(5, sum(len(x) for x in cb.sections_text(s)))))
        nwords = sum(len(x) for x in nc.top_words5(s))
        rec["nontrivial"] = nwords >= 2 or any(c in s for c in "{}\\,") or spec is None
        wskinds = [t for t, cs in (("ws_tab", "\t"), ("ws_cr", "\r"), ("ws_lf", "\n"), ("ws_nonsep", WS_NONSEP)) if any(c in s for c in cs)]
        if wskinds:
            rec["tags"].extend(wskinds)
            rec["tags"].append("ws_in_braced_name" if any(c in s for c in "{}\\") else "ws_in_plain_name")
        if res is None:
            rec["sx_in"] = [81 if strict else 82, enc.enc_str(s)]
            rec["sx_out"] = implutil.r_exc(implutil.EXC_CODES.get(exc, implutil.EXC_OTHER))
            rec["oracle"] = {"ok": False, "detail": "parse_single_name_into_parts(%r, strict=%r) raised %s" % (s, strict, exc)}
            rec["summary"] = "raised " + exc
            return rec
        if strict:
            rec["sx_in"] = [81, enc.enc_str(s)]
            rec["sx_out"] = implutil.r_ok([res, [] if got is None else [enc_parts_dict(enc, got)]])
        else:
            rec["sx_in"] = [82, enc.enc_str(s)]
            rec["sx_out"] = implutil.r_ok(res)
        ok, detail = True, ""
        if strict:
            if got is None:
                if spec is not None:
                    ok, detail = False, "valid name %r reported as invalid (BibTeX's rules give %r)" % (s, spec)
                elif exc != "InvalidNameError":
                    ok, detail = False, exc
                rec["tags"].append("invalid")
            else:
                ok, detail = check_valid(s, got)
                rec["tags"].append("valid_form%d" % (1 if len([x for x in nc.top_words5(s)]) <= 1 else 2))
                if len(nc.top_words5(s)) == 1 and len(got["first"] + got["von"] + got["last"]) >= 3:
                    rec["tags"].append("form1_3plus_words")
        else:
            if got is None:
                ok, detail = False, "non-strict mode raised InvalidNameError on %r" % s
            elif spec is not None and got != spec:
                ok, detail = False, "non-strict result differs on the valid name %r: %r vs %r" % (s, got, spec)
            rec["tags"].append("nonstrict")
        # the repository's corpus validates both transcriptions themselves
        if "expected" in inp:
            rec["tags"].append("corpus_validated")
            if spec_h != inp["expected"]:
                ok, detail = False, "ORACLE INVALID: transcription gives %r on corpus name %r, BibTeX gave %r" % (spec_h, s, inp["expected"])
            elif spec_b != inp["expected"]:
                ok, detail = False, "ORACLE INVALID: the von_token_found transcription gives %r on corpus name %r, BibTeX gave %r" % (spec_b, s, inp["expected"])
            elif got != inp["expected"]:
                ok, detail = False, "corpus name %r: got %r, BibTeX gave %r" % (s, got, inp["expected"])
            else:
                rec["tags"].append("corpus_validated_bibtex_transcription")
        if "reason" in inp:
            rec["tags"].append("corpus_validated")
            if spec_h is not None or spec_b is not None:
                ok, detail = False, "ORACLE INVALID: transcription accepts corpus name %r (%s)" % (s, inp["reason"])
            elif res != [1, REASONS[inp["reason"]]]:
                ok, detail = False, "corpus name %r: expected InvalidNameError %r" % (s, inp["reason"])
            else:
                rec["tags"].append("corpus_validated_bibtex_transcription")
        # the two references cut every name into the same words and agree on what a valid name is
        if (spec_b is None) != (spec_h is None) or (spec_b is not None and cb.sections_text(s) != nc.top_words5(s)):
            ok, detail = False, "ORACLE INVALID: the two tokenisers disagree on %r: %r vs %r" % (s, cb.sections_text(s), nc.top_words5(s))
        if ok and alias:
            ok, detail = False, alias
        rec["oracle"] = {"ok": ok, "detail": detail}
        rec["summary"] = repr(got if got is not None else exc)[:200]
        return rec
    if inp["level"] == "lib":
        return impl_lib(inp, implutil)
    if inp["level"] == "text":
        return impl_text(inp, implutil)
    if inp["level"] == "ent":
        return ce.impl(inp, implutil, enc)
    # ---- middleware level
    from bibtexparser.library import Library
    from bibtexparser.model import Entry, Field
    from bibtexparser.middlewares.names import SplitNameParts, MergeNameParts, NameParts

    def mk(m):
        if m == 2:
            return SplitNameParts()
        return MergeNameParts(style={0: "last", 1: "first", 2: "other"}[m[1]])
    def mk_entry():
        return Entry("book", "key1", [Field(k, unj(v), i + 1) for i, (k, v) in enumerate(inp["fields"])], start_line=7,
                     raw="@book{key1,...}")
    entry = mk_entry()
    sx_in = [90, [m if isinstance(m, int) else [3, m[1]] for m in inp["mws"]], [], enc.enc_block(entry)]
    orig = [(k, unj(v)) for k, v in inp["fields"]]
    NF = ("author", "editor", "translator")

    def run():
        lib = Library([entry])
        for m in inp["mws"]:
            lib = mk(m).transform(lib)
        return lib
    r = implutil.guarded(run)
    rec = {"sx_in": sx_in, "key": json.dumps([inp["fields"], inp["mws"]]), "nontrivial": True, "tags": ["mw"]}
    rec["tags"].extend(ref_tags([n for k, v in orig if k in NF and isinstance(v, list) for n in v]))
    well_typed = all(isinstance(v, list) and all(isinstance(x, str) for x in v) for k, v in orig if k in NF)
    simple = inp["mws"] == [2]
    if r[0] == "exc":
        rec["sx_out"] = implutil.r_exc(r[1])
        # an exception is acceptable only for ill-typed usage (a name field that is not a list of strings for
        # SplitNameParts, a bad style / non-NameParts input for MergeNameParts); InvalidNameError must never escape
        bad = r[2] == "InvalidNameError" or (simple and well_typed)
        rec["oracle"] = {"ok": not bad, "detail": "middleware raised %s on %r" % (r[2], orig)}
        rec["summary"] = "raised " + r[2]
        rec["tags"].append("raised")
        return rec
    blk = r[1].blocks[0]
    rec["sx_out"] = implutil.r_ok(enc.enc_block(blk))
    ok, detail = True, ""
    cn = type(blk).__name__
    if simple and well_typed:
        invalid = [(k, n) for k, v in orig if k in NF for n in v if ref_parse(n) is None]
        if invalid:
            rec["tags"].append("error_block")
            if cn != "MiddlewareErrorBlock":
                ok, detail = False, "invalid name %r did not give a MiddlewareErrorBlock but %s" % (invalid[0][1], cn)
            elif type(blk.error).__name__ != "InvalidNameError":
                ok, detail = False, "error is %s" % type(blk.error).__name__
            else:
                inner = blk.ignore_error_block
                if type(inner).__name__ != "Entry" or inner.key != "key1" or inner.entry_type != "book" or \
                        [f.key for f in inner.fields] != [k for k, _ in orig]:
                    ok, detail = False, "the error block does not retain the entry (key, type, field names)"
                else:
                    # the field holding the first invalid name keeps its value; non-name fields are untouched
                    first_bad = next(k for k, v in orig if k in NF and any(ref_parse(n) is None for n in v))
                    for (k, v0), f in zip(orig, inner.fields):
                        if (k not in NF or k == first_bad) and f.value != v0:
                            ok, detail = False, "field %s of the retained entry was altered: %r -> %r" % (k, v0, f.value)
                    if blk.start_line != 7 or blk.raw != "@book{key1,...}":
                        ok, detail = False, "start_line/raw of the error block differ from the entry's"
        else:
            rec["tags"].append("split_ok")
            if cn != "Entry":
                ok, detail = False, "valid names gave %s" % cn
            else:
                for (k, v0), f in zip(orig, blk.fields):
                    if k in NF:
                        exp = [ref_parse(n) for n in v0]
                        gotv = [nc.parts_dict(p) if isinstance(p, NameParts) else p for p in f.value] if isinstance(f.value, list) else f.value
                        if gotv != exp:
                            ok, detail = False, "field %s: %r -> %r, BibTeX's rules give %r" % (k, v0, gotv, exp)
                    elif f.value != v0:
                        ok, detail = False, "non-name field %s changed" % k
    summary = (repr([(f.key, f.value) for f in blk.fields])[:200] if cn == "Entry" else cn)
    if ok and cn == "Entry":
        # results of separate runs are independent: edit every NameParts of this result in place, run again on a fresh entry
        for f in blk.fields:
            if isinstance(f.value, list):
                for p in f.value:
                    if isinstance(p, NameParts):
                        for lst in (p.first, p.von, p.last, p.jr):
                            lst.append("edited")
                            lst[:1] = ["edited"]
        entry = mk_entry()
        r2 = implutil.guarded(run)
        out2 = implutil.r_ok(enc.enc_block(r2[1].blocks[0])) if r2[0] == "ok" else implutil.r_exc(r2[1])
        if out2 != rec["sx_out"]:
            ok, detail = False, "a second run on %r gives a different result after the NameParts of the first result were edited in place" % (orig,)
    rec["oracle"] = {"ok": ok, "detail": detail}
    rec["summary"] = summary
    return rec


NAME_FIELDS = ("author", "editor", "translator")


def check_lib_block(desc, blk, line, raw):
    """direct statement of the property for ONE block of a library handled by SplitNameParts: (ok, detail)"""
    from bibtexparser.middlewares.names import NameParts
    cn = type(blk).__name__
    if "comment" in desc:
        want = "ExplicitComment" if desc["explicit"] else "ImplicitComment"
        if cn != want or blk.comment != desc["comment"]:
            return False, "comment block %r became %s %r" % (desc["comment"], cn, getattr(blk, "comment", None))
        return True, ""
    orig = desc["fields"]
    invalid = [n for k, v in orig if k in NAME_FIELDS for n in v if ref_parse(n) is None]
    if invalid:
        if cn != "MiddlewareErrorBlock":
            return False, "invalid name %r did not give a MiddlewareErrorBlock but %s" % (invalid[0], cn)
        if type(blk.error).__name__ != "InvalidNameError":
            return False, "error is %s" % type(blk.error).__name__
        if not any(n in str(blk.error) for n in invalid):
            return False, "the reported error %r names none of the entry's invalid names %r" % (str(blk.error), invalid)
        inner = blk.ignore_error_block
        if type(inner).__name__ != "Entry" or inner.key != desc["key"] or inner.entry_type != desc["type"] or \
                [f.key for f in inner.fields] != [k for k, _ in orig]:
            return False, "the error block does not retain the entry (key, type, field names)"
        first_bad = next(k for k, v in orig if k in NAME_FIELDS and any(ref_parse(n) is None for n in v))
        for (k, v0), f in zip(orig, inner.fields):
            if (k not in NAME_FIELDS or k == first_bad) and f.value != v0:
                return False, "field %s of the retained entry was altered: %r -> %r" % (k, v0, f.value)
        if blk.start_line != line or blk.raw != raw:
            return False, "start_line/raw of the error block differ from the entry's"
        return True, ""
    if cn != "Entry":
        return False, "valid names %r gave %s (%s)" % ([v for k, v in orig if k in NAME_FIELDS], cn, getattr(blk, "error", ""))
    if blk.key != desc["key"] or blk.entry_type != desc["type"] or [f.key for f in blk.fields] != [k for k, _ in orig]:
        return False, "key, type or field names changed"
    for (k, v0), f in zip(orig, blk.fields):
        if k in NAME_FIELDS:
            exp = [ref_parse(n) for n in v0]
            gotv = [nc.parts_dict(p) if isinstance(p, NameParts) else p for p in f.value] if isinstance(f.value, list) else f.value
            if gotv != exp:
                return False, "field %s: %r -> %r, BibTeX's rules give %r" % (k, v0, gotv, exp)
        elif f.value != v0:
            return False, "non-name field %s changed: %r -> %r" % (k, v0, f.value)
    return True, ""


def impl_lib(inp, implutil):
    """ONE SplitNameParts instance, several blocks per library, several transform() calls (oracle only: the Coq model
    has no middleware object whose state could be carried from one block or call to the next)."""
    from bibtexparser.library import Library
    from bibtexparser.model import Entry, ExplicitComment, Field, ImplicitComment
    from bibtexparser.middlewares.names import SplitNameParts

    def build(desc, line):
        if "comment" in desc:
            return (ExplicitComment if desc["explicit"] else ImplicitComment)(desc["comment"], line, "raw%d" % line)
        return Entry(desc["type"], desc["key"], [Field(k, list(v) if isinstance(v, list) else v, line + i + 1)
                                                 for i, (k, v) in enumerate(desc["fields"])], start_line=line, raw="raw%d" % line)
    libs = inp["libs"]
    mw = SplitNameParts(allow_inplace_modification=inp["inplace"])

    def run():
        outs = []
        for li, blocks in enumerate(libs):
            outs.append(mw.transform(Library([build(d, 100 * li + 10 * bi + 1) for bi, d in enumerate(blocks)])))
        return outs
    r = implutil.guarded(run)
    rec = {"sx_in": None, "sx_out": None, "key": json.dumps(["lib", libs, inp["inplace"]]), "tags": ["lib"]}
    flat = [d for blocks in libs for d in blocks]

    def is_bad(d):
        return "fields" in d and any(ref_parse(n) is None for k, v in d["fields"] if k in NAME_FIELDS for n in v)

    def has_names(d):
        return "fields" in d and not is_bad(d) and any(v for k, v in d["fields"] if k in NAME_FIELDS)
    first_bad = next((i for i, d in enumerate(flat) if is_bad(d)), None)
    after = first_bad is not None and any(has_names(d) for d in flat[first_bad + 1:])
    rec["nontrivial"] = after or len(flat) >= 2
    if after:
        rec["tags"].append("lib_valid_after_invalid")
        if any(has_names(d) for d in [d for blocks in libs[1:] for d in blocks]) and any(is_bad(d) for d in libs[0]):
            rec["tags"].append("lib_later_call_after_invalid")
    if r[0] == "exc":
        rec["oracle"] = {"ok": False, "detail": "one SplitNameParts over %d libraries raised %s (libraries: %r)" % (len(libs), r[2], libs)}
        rec["summary"] = "raised " + r[2]
        return rec
    ok, detail, kinds = True, "", []
    earlier_bad = None
    for li, (blocks, out) in enumerate(zip(libs, r[1])):
        if len(out.blocks) != len(blocks):
            ok, detail = False, "library #%d: %d blocks in, %d blocks out" % (li, len(blocks), len(out.blocks))
            break
        for bi, (d, blk) in enumerate(zip(blocks, out.blocks)):
            line = 100 * li + 10 * bi + 1
            ok, detail = check_lib_block(d, blk, line, "raw%d" % line)
            kinds.append(type(blk).__name__[0])
            if not ok:
                detail = "call #%d of one SplitNameParts instance, block #%d (%s): %s%s" % (
                    li + 1, bi, d.get("key", "comment"), detail,
                    "" if earlier_bad is None else "; an earlier block of this instance held the invalid name %r" % earlier_bad)
                break
            if is_bad(d) and earlier_bad is None:
                earlier_bad = next(n for k, v in d["fields"] if k in NAME_FIELDS for n in v if ref_parse(n) is None)
        if not ok:
            break
        if len(out.failed_blocks) != sum(1 for d in blocks if is_bad(d)) or len(out.entries) != sum(1 for d in blocks if "fields" in d and not is_bad(d)):
            ok, detail = False, "library #%d: failed_blocks / entries do not partition the entries by validity of their names" % li
            break
    rec["oracle"] = {"ok": ok, "detail": detail}
    rec["summary"] = "".join(kinds)
    return rec


def impl_text(inp, implutil):
    """parse_string on a bib text whose values are wrapped over lines (LF / CRLF / CR), then SeparateCoAuthors +
    SplitNameParts: every name the co-author split hands over must come out as BibTeX's rules say, whatever white space
    the file had between its words (oracle only: the Coq model of this property starts at the name)."""
    import warnings
    import bibtexparser
    from bibtexparser.middlewares import SeparateCoAuthors, SplitNameParts
    from bibtexparser.middlewares.names import NameParts
    text = inp["text"]
    rec = {"sx_in": None, "sx_out": None, "key": json.dumps(["text", text]),
           "tags": ["cs_text"] if inp.get("cs") else ["ws_text", "ws_text_eol_%s" % {"\n": "lf", "\r\n": "crlf", "\r": "cr"}[inp["eol"]]]}

    def run():
        with warnings.catch_warnings():
            warnings.simplefilter("ignore")
            a = bibtexparser.parse_string(text, append_middleware=[SeparateCoAuthors()])
            b = bibtexparser.parse_string(text, append_middleware=[SeparateCoAuthors(), SplitNameParts()])
        return a, b
    r = implutil.guarded(run)
    if r[0] == "exc":
        rec["nontrivial"] = True
        rec["oracle"] = {"ok": False, "detail": "parse_string + SeparateCoAuthors + SplitNameParts raised %s on %r" % (r[2], text)}
        rec["summary"] = "raised " + r[2]
        return rec
    a, b = r[1]
    ok, detail, kinds, nnames = True, "", [], 0
    if len(a.blocks) != len(b.blocks):
        ok, detail = False, "%d blocks without SplitNameParts, %d with it (text %r)" % (len(a.blocks), len(b.blocks), text)
    for ba, bb in zip(a.blocks, b.blocks) if ok else []:
        kinds.append(type(bb).__name__[0])
        if type(ba).__name__ != "Entry":
            if type(bb) is not type(ba):
                ok, detail = False, "a %s became a %s" % (type(ba).__name__, type(bb).__name__)
            continue
        desc = {"type": ba.entry_type, "key": ba.key, "fields": [[f.key, f.value] for f in ba.fields]}
        if not all(isinstance(v, list) and all(isinstance(n, str) for n in v) for k, v in desc["fields"] if k in NAME_FIELDS):
            continue  # not what SplitNameParts is specified on
        nnames += sum(len(v) for k, v in desc["fields"] if k in NAME_FIELDS)
        if inp.get("cs"):
            rec["tags"] = sorted(set(rec["tags"] + ref_tags([n for k, v in desc["fields"] if k in NAME_FIELDS for n in v])))
        ok, detail = check_lib_block(desc, bb, ba.start_line, ba.raw)
        if not ok:
            detail = "text %r, entry %s: %s" % (text, ba.key, detail)
            break
    rec["nontrivial"] = nnames >= 1
    rec["oracle"] = {"ok": ok, "detail": detail}
    rec["summary"] = "".join(kinds)
    return rec
