"""C13 - name parts follow BibTeX's First/von/Last/Jr rules and keep every word once; invalid names become error blocks."""
import itertools
import json

from props import names_common as nc

ENGINE = "names"
RULE = ("the repository's BibTeX-derived corpus first (REGULAR_NAME_PARTS_PARSING_TEST_CASES and the strict-mode cases of "
        "tests/middleware_tests/test_names.py: the Python transcription of BibTeX's algorithm and the Coq spec are both validated on "
        "it at every run, tag corpus_validated); bounded-exhaustive token sequences over {Aa, bb, 11, {Cc}, {dd}, {\\'E}x, {\\'e}x, "
        "\\'E, backslash, comma, space, ~, {, }} (quick: every sequence of length <= 4 + seeded sample of length 5; thorough: every "
        "sequence of length <= 5 + samples of lengths 6, 7); names of 1-9 words with every upper/lower/caseless pattern in the three "
        "comma forms; non-ASCII letters; SplitNameParts / MergeNameParts on entries (valid, invalid, non-list values). "
        "distinct = distinct (text, strict flag) or (entry, middleware); non-trivial = at least two words, or a brace/backslash/"
        "comma, or an invalid name")
TRUSTED = ["independent Python transcription of BibTeX's name algorithm (harness/props/names_common.py: spec_parse), validated at "
           "every run against the repository's corpus produced by real BibTeX"]
ASSUMPTIONS = ["CPython's str.isalpha / str.isupper enter the model as per-character flags"]

REASONS = {"Unmatched closing brace": 1, "Too many commas": 2, "Unterminated opening brace": 3, "Trailing comma at end of name": 4}

UP = ["Aa", "{\\'E}x", "\\'Ex", "Éa", "B.", "{\\AA}b", "X{y}"]
LO = ["bb", "{\\'e}x", "von", "de", "\\'ex", "ßa", "{\\o}x", "d'"]
CL = ["11", "{Cc}", "{dd}", "{{\\'E}}", "{x\\Y}", "--", "{\\1a}", "2{b}"]


def pattern_names(rng, tier):
    nmax = 6 if tier == "quick" else 9
    for n in range(1, nmax + 1):
        pats = list(itertools.product("ULC", repeat=n))
        if tier == "quick" and len(pats) > 800:
            pats = rng.sample(pats, 800)
        elif len(pats) > 7000:
            pats = rng.sample(pats, 7000)
        for pat in pats:
            ws = [rng.choice({"U": UP, "L": LO, "C": CL}[p]) if rng.random() < 0.5 else {"U": "Aa", "L": "bb", "C": "11"}[p] for p in pat]
            yield " ".join(ws)
            if n >= 2:
                i = rng.randint(1, n - 1)
                yield " ".join(ws[:i]) + ", " + " ".join(ws[i:])
            if n >= 3:
                i = rng.randint(1, n - 2)
                j = rng.randint(i + 1, n - 1)
                yield " ".join(ws[:i]) + ", " + " ".join(ws[i:j]) + ", " + "~".join(ws[j:])


def generate(rng, tier):
    import core
    cases = []
    reg, strict, _ = nc.load_repo_corpus(core.REPO)
    for name, exp in reg:
        for st in (True, False):
            cases.append({"stream": "repo-corpus", "input": {"level": "fn", "s": name, "strict": st, "expected": exp}})
    for name, reason in strict:
        cases.append({"stream": "repo-corpus", "input": {"level": "fn", "s": name, "strict": True, "reason": reason}})
        cases.append({"stream": "repo-corpus", "input": {"level": "fn", "s": name, "strict": False}})
    if tier == "quick":
        seqs = list(nc.token_sequences(nc.C13_TOKENS, 4, [5], 60000, rng))
        n_ns, n_mw = 15000, 2500
    else:
        seqs = list(nc.token_sequences(nc.C13_TOKENS, 5, [6, 7], 300000, rng))
        n_ns, n_mw = 150000, 30000
    seen = set()
    uniq = []
    for s in seqs:
        if s not in seen:
            seen.add(s)
            uniq.append(s)
    for s in uniq:
        cases.append({"stream": "tokens", "input": {"level": "fn", "s": s, "strict": True}})
    for s in rng.sample(uniq, min(n_ns, len(uniq))):
        cases.append({"stream": "tokens-nonstrict", "input": {"level": "fn", "s": s, "strict": False}})
    pn = list(pattern_names(rng, tier))
    for s in pn:
        cases.append({"stream": "patterns", "input": {"level": "fn", "s": s, "strict": True}})
    # middleware level
    pool = uniq[:]
    for _ in range(n_mw):
        fields = []
        keys = ["author", "editor", "translator", "title", "year"]
        rng.shuffle(keys)
        for k in keys[:rng.randint(1, 4)]:
            r = rng.random()
            if r < 0.08:
                v = rng.choice(["Aa bb", {"int": 3}, {"none": 1}, {"list": ["Aa", {"int": 1}]}, ""])
            else:
                names = []
                for _ in range(rng.randint(0, 4)):
                    names.append(rng.choice(pn) if rng.random() < 0.7 else rng.choice(pool))
                v = {"list": names}
            fields.append([k, v])
        mws = rng.choice([[2], [2], [2], [2, [3, 0]], [2, [3, 1]], [2, [3, 0], 2], [[3, 0]], [[3, 2]], [2, [3, 2]], [2, 2]])
        cases.append({"stream": "middleware", "input": {"level": "mw", "fields": fields, "mws": mws}})
    return cases


def shrink(case):
    inp = case["input"]
    if inp["level"] == "fn":
        s = inp["s"]
        for i in range(len(s)):
            yield {"stream": case.get("stream", "?"), "input": {"level": "fn", "s": s[:i] + s[i + 1:], "strict": inp["strict"]}}
    else:
        fs = inp["fields"]
        for i in range(len(fs)):
            yield {"stream": "middleware", "input": dict(inp, fields=fs[:i] + fs[i + 1:])}
        for i, (k, v) in enumerate(fs):
            if isinstance(v, dict) and "list" in v:
                for j in range(len(v["list"])):
                    yield {"stream": "middleware", "input": dict(inp, fields=fs[:i] + [[k, {"list": v["list"][:j] + v["list"][j + 1:]}]] + fs[i + 1:])}
        if len(inp["mws"]) > 1:
            yield {"stream": "middleware", "input": dict(inp, mws=inp["mws"][:-1])}


def unj(v):
    if isinstance(v, dict):
        if "list" in v:
            return [unj(x) for x in v["list"]]
        if "int" in v:
            return v["int"]
        return None
    return v


def enc_parts_dict(enc, d):
    return [[enc.enc_str(w) for w in d[k]] for k in ("first", "von", "last", "jr")]


def check_valid(name, got):
    """direct statement of the property for a valid name (got: dict)"""
    secs = nc.top_words5(name)
    if secs and not secs[-1] and len(secs) == 1:
        secs = []
    exp = nc.spec_parse(name)
    if exp is None:
        return False, "invalid name %r was split into %r instead of being reported" % (name, got)
    # every word once, in order, within its section
    if len(secs) <= 1:
        sec = secs[0] if secs else []
        if got["first"] + got["von"] + got["last"] != sec or got["jr"]:
            return False, "words of %r are not kept once in order: %r" % (name, got)
    else:
        if got["von"] + got["last"] != secs[0] or got["first"] != secs[-1] or got["jr"] != (secs[1] if len(secs) == 3 else []):
            return False, "words of %r are not kept once in order within their sections: %r" % (name, got)
    if any(secs) and (secs[0] if secs else []) and (not got["last"] or got["last"][-1] != secs[0][-1]):
        return False, "Last does not keep the final word: %r -> %r" % (name, got)
    if got != exp:
        return False, "BibTeX's rules give %r for %r, got %r" % (exp, name, got)
    return True, ""


def impl(case):
    import enc
    import implutil
    from bibtexparser.middlewares.names import InvalidNameError, parse_single_name_into_parts as pn
    inp = case["input"]
    if inp["level"] == "fn":
        s, strict = inp["s"], inp["strict"]
        rec = {"key": json.dumps([s, strict]), "tags": []}
        try:
            p = pn(s, strict=strict)
            got = nc.parts_dict(p)
            res = [0, enc_parts_dict(enc, got)]
            exc = None
        except InvalidNameError as e:
            msg = str(e)
            code = 0
            for k, v in REASONS.items():
                if msg.endswith(": " + k):
                    code = v
            got, res, exc = None, [1, code], "InvalidNameError"
            if s not in msg:
                exc = "InvalidNameError without the name in its message"
        except Exception as e:  # noqa: BLE001
            got, res, exc = None, None, type(e).__name__
        alias = None
        if got is not None:
            # results of separate calls are independent: edit the returned word lists in place, parse again
            for lst in (p.first, p.von, p.last, p.jr):
                lst.append("edited")
                lst[:1] = ["edited"]
            try:
                again = nc.parts_dict(pn(s, strict=strict))
            except Exception as e:  # noqa: BLE001
                again = type(e).__name__
            if again != got:
                alias = "a second call on %r returned %r after the first result (%r) was edited in place" % (s, again, got)
        spec = nc.spec_parse(s)
        nwords = sum(len(x) for x in nc.top_words5(s))
        rec["nontrivial"] = nwords >= 2 or any(c in s for c in "{}\\,") or spec is None
        if res is None:
            rec["sx_in"] = [81 if strict else 82, enc.enc_str(s)]
            rec["sx_out"] = implutil.r_exc(implutil.EXC_CODES.get(exc, implutil.EXC_OTHER))
            rec["oracle"] = {"ok": False, "detail": "parse_single_name_into_parts(%r, strict=%r) raised %s" % (s, strict, exc)}
            rec["summary"] = "raised " + exc
            return rec
        if strict:
            rec["sx_in"] = [81, enc.enc_str(s)]
            rec["sx_out"] = implutil.r_ok([res, [] if got is None else [enc_parts_dict(enc, got)]])
        else:
            rec["sx_in"] = [82, enc.enc_str(s)]
            rec["sx_out"] = implutil.r_ok(res)
        ok, detail = True, ""
        if strict:
            if got is None:
                if spec is not None:
                    ok, detail = False, "valid name %r reported as invalid (BibTeX's rules give %r)" % (s, spec)
                elif exc != "InvalidNameError":
                    ok, detail = False, exc
                rec["tags"].append("invalid")
            else:
                ok, detail = check_valid(s, got)
                rec["tags"].append("valid_form%d" % (1 if len([x for x in nc.top_words5(s)]) <= 1 else 2))
                if len(nc.top_words5(s)) == 1 and len(got["first"] + got["von"] + got["last"]) >= 3:
                    rec["tags"].append("form1_3plus_words")
        else:
            if got is None:
                ok, detail = False, "non-strict mode raised InvalidNameError on %r" % s
            elif spec is not None and got != spec:
                ok, detail = False, "non-strict result differs on the valid name %r: %r vs %r" % (s, got, spec)
            rec["tags"].append("nonstrict")
        # the repository's corpus validates the transcription itself
        if "expected" in inp:
            rec["tags"].append("corpus_validated")
            if spec != inp["expected"]:
                ok, detail = False, "ORACLE INVALID: transcription gives %r on corpus name %r, BibTeX gave %r" % (spec, s, inp["expected"])
            elif got != inp["expected"]:
                ok, detail = False, "corpus name %r: got %r, BibTeX gave %r" % (s, got, inp["expected"])
        if "reason" in inp:
            rec["tags"].append("corpus_validated")
            if spec is not None:
                ok, detail = False, "ORACLE INVALID: transcription accepts corpus name %r (%s)" % (s, inp["reason"])
            elif res != [1, REASONS[inp["reason"]]]:
                ok, detail = False, "corpus name %r: expected InvalidNameError %r" % (s, inp["reason"])
        if ok and alias:
            ok, detail = False, alias
        rec["oracle"] = {"ok": ok, "detail": detail}
        rec["summary"] = repr(got if got is not None else exc)[:200]
        return rec
    # ---- middleware level
    from bibtexparser.library import Library
    from bibtexparser.model import Entry, Field
    from bibtexparser.middlewares.names import SplitNameParts, MergeNameParts, NameParts

    def mk(m):
        if m == 2:
            return SplitNameParts()
        return MergeNameParts(style={0: "last", 1: "first", 2: "other"}[m[1]])
    def mk_entry():
        return Entry("book", "key1", [Field(k, unj(v), i + 1) for i, (k, v) in enumerate(inp["fields"])], start_line=7,
                     raw="@book{key1,...}")
    entry = mk_entry()
    sx_in = [90, [m if isinstance(m, int) else [3, m[1]] for m in inp["mws"]], [], enc.enc_block(entry)]
    orig = [(k, unj(v)) for k, v in inp["fields"]]
    NF = ("author", "editor", "translator")

    def run():
        lib = Library([entry])
        for m in inp["mws"]:
            lib = mk(m).transform(lib)
        return lib
    r = implutil.guarded(run)
    rec = {"sx_in": sx_in, "key": json.dumps([inp["fields"], inp["mws"]]), "nontrivial": True, "tags": ["mw"]}
    well_typed = all(isinstance(v, list) and all(isinstance(x, str) for x in v) for k, v in orig if k in NF)
    simple = inp["mws"] == [2]
    if r[0] == "exc":
        rec["sx_out"] = implutil.r_exc(r[1])
        # an exception is acceptable only for ill-typed usage (a name field that is not a list of strings for
        # SplitNameParts, a bad style / non-NameParts input for MergeNameParts); InvalidNameError must never escape
        bad = r[2] == "InvalidNameError" or (simple and well_typed)
        rec["oracle"] = {"ok": not bad, "detail": "middleware raised %s on %r" % (r[2], orig)}
        rec["summary"] = "raised " + r[2]
        rec["tags"].append("raised")
        return rec
    blk = r[1].blocks[0]
    rec["sx_out"] = implutil.r_ok(enc.enc_block(blk))
    ok, detail = True, ""
    cn = type(blk).__name__
    if simple and well_typed:
        invalid = [(k, n) for k, v in orig if k in NF for n in v if nc.spec_parse(n) is None]
        if invalid:
            rec["tags"].append("error_block")
            if cn != "MiddlewareErrorBlock":
                ok, detail = False, "invalid name %r did not give a MiddlewareErrorBlock but %s" % (invalid[0][1], cn)
            elif type(blk.error).__name__ != "InvalidNameError":
                ok, detail = False, "error is %s" % type(blk.error).__name__
            else:
                inner = blk.ignore_error_block
                if type(inner).__name__ != "Entry" or inner.key != "key1" or inner.entry_type != "book" or \
                        [f.key for f in inner.fields] != [k for k, _ in orig]:
                    ok, detail = False, "the error block does not retain the entry (key, type, field names)"
                else:
                    # the field holding the first invalid name keeps its value; non-name fields are untouched
                    first_bad = next(k for k, v in orig if k in NF and any(nc.spec_parse(n) is None for n in v))
                    for (k, v0), f in zip(orig, inner.fields):
                        if (k not in NF or k == first_bad) and f.value != v0:
                            ok, detail = False, "field %s of the retained entry was altered: %r -> %r" % (k, v0, f.value)
                    if blk.start_line != 7 or blk.raw != "@book{key1,...}":
                        ok, detail = False, "start_line/raw of the error block differ from the entry's"
        else:
            rec["tags"].append("split_ok")
            if cn != "Entry":
                ok, detail = False, "valid names gave %s" % cn
            else:
                for (k, v0), f in zip(orig, blk.fields):
                    if k in NF:
                        exp = [nc.spec_parse(n) for n in v0]
                        gotv = [nc.parts_dict(p) if isinstance(p, NameParts) else p for p in f.value] if isinstance(f.value, list) else f.value
                        if gotv != exp:
                            ok, detail = False, "field %s: %r -> %r, BibTeX's rules give %r" % (k, v0, gotv, exp)
                    elif f.value != v0:
                        ok, detail = False, "non-name field %s changed" % k
    summary = (repr([(f.key, f.value) for f in blk.fields])[:200] if cn == "Entry" else cn)
    if ok and cn == "Entry":
        # results of separate runs are independent: edit every NameParts of this result in place, run again on a fresh entry
        for f in blk.fields:
            if isinstance(f.value, list):
                for p in f.value:
                    if isinstance(p, NameParts):
                        for lst in (p.first, p.von, p.last, p.jr):
                            lst.append("edited")
                            lst[:1] = ["edited"]
        entry = mk_entry()
        r2 = implutil.guarded(run)
        out2 = implutil.r_ok(enc.enc_block(r2[1].blocks[0])) if r2[0] == "ok" else implutil.r_exc(r2[1])
        if out2 != rec["sx_out"]:
            ok, detail = False, "a second run on %r gives a different result after the NameParts of the first result were edited in place" % (orig,)
    rec["oracle"] = {"ok": ok, "detail": detail}
    rec["summary"] = summary
    return rec
