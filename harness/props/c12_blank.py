"""C12, the blank-like character classes (imported by c12.py only).

Only space, tab, CR and LF are the blanks of co-author splitting: they delimit the word 'and' and are stripped at the two ends of
the list.  Every other blank-looking character - str.isspace() characters outside those four (vertical tab, form feed, \\x1c-\\x1f,
NEL, NBSP, the Unicode spaces and line / paragraph separators), the two extra members of string.whitespace, and the invisible
characters for which isspace() is false (zero-width space / joiners, BOM, soft hyphen, ...) - is an ordinary name character:
next to or instead of the blanks around 'and', at the start / end of the list, as a whole name, between names it never delimits
a separator and is never dropped, and split(merge(split(x))) == split(x).

Generators (all seeded from the check's PRNG, appended after the existing streams):
  blank-tokens     for EVERY character x of the class, every token sequence of length <= 5 over {Ab, and, space, x} that contains
                   x (thorough: over {Ab, and, aNd, space, newline, x}); then a seeded sample of sequences of length 4-7 over the
                   full C12 alphabet + the whole class
  blank-templates  for EVERY x: side gap and gap side (thorough: and / AND), exhaustive over a small set in which a gap is x, blank+x,
                   x+blank or a blank, a side is a word, a braced word, a backslash, x itself or nothing; then a seeded sample of a much wider
                   template space (all C12 tokens as sides, mixed gaps, near misses of 'and', a third name)
  blank-lists      random author lists in which names carry x at their edges / inside / are x, the glue around 'and' has x
                   next to / instead of its blanks, and the list starts / ends with x and blanks
  blank-middleware SeparateCoAuthors / MergeCoAuthors on entries whose name fields hold such texts
The verdict comes from the oracle of c12.py (names_common.conserved / ref_split: the property text with the four blanks) and from the
model comparison (function level and middleware level are both representable: characters travel as code points with CPython's flags).
"""
import itertools
import re

from props import charclasses as cc
from props import names_common as nc

KINDS = [("other_isspace", cc.OTHER_ISSPACE), ("string_whitespace_only", cc.STRING_WHITESPACE_ONLY),
         ("invisible_not_space", cc.INVISIBLE_NOT_SPACE)]
CHARS = []
for _k, _pool in KINDS:
    for _c in _pool:
        if _c not in CHARS and _c not in nc.WS4:
            CHARS.append(_c)
KIND_OF = {}
for _k, _pool in KINDS:
    for _c in _pool:
        KIND_OF.setdefault(_c, []).append(_k)

_CLS = "[" + "".join(re.escape(c) for c in CHARS) + "]"
_B = "[ \t\r\n]"
RE_ANY = re.compile(_CLS)
RE_TOUCH_AND = re.compile("(?:%s[aA][nN][dD])|(?:[aA][nN][dD]%s)" % (_CLS, _CLS))
RE_TOUCH_BLANK_OF_AND = re.compile("(?:%s%s+[aA][nN][dD]%s)|(?:%s[aA][nN][dD]%s+%s)" % (_CLS, _B, _B, _B, _B, _CLS))
RE_WHOLE_NAME = re.compile("(?:^|%s)%s+(?:$|%s)" % (_B, _CLS, _B))


def tags(s):
    """where the class occurs in one input text (goes to the distribution in the evidence file)"""
    if not RE_ANY.search(s):
        return []
    out = set()
    for c in set(RE_ANY.findall(s)):
        for k in KIND_OF[c]:
            out.add("blank-like:" + k)
    t = s.strip(nc.WS4)
    if t and (t[0] in KIND_OF or t[-1] in KIND_OF):
        out.add("blank-like@list-edge")
    if s and (s[0] in KIND_OF or s[-1] in KIND_OF):
        out.add("blank-like@text-edge")
    if RE_TOUCH_AND.search(t):
        out.add("blank-like@touching-and")
    if RE_TOUCH_BLANK_OF_AND.search(t):
        out.add("blank-like@beside-blank-of-and")
    if RE_WHOLE_NAME.search(t):
        out.add("blank-like=whole-word")
    return sorted(out)


def accounted(s, pieces):
    """The first sentence of the property, on characters (independent of names_common.conserved): with the blanks (space, tab, CR, LF)
    removed, the text is exactly the pieces' non-blank characters in order with one word 'and' (any case) between two consecutive
    pieces.  isspace() characters outside the four blanks and invisible characters are characters like any other here.
    -> (ok, what is lost or invented)"""
    src = [c for c in s if c not in nc.WS4]
    i = 0
    for k, p in enumerate(pieces):
        if k:
            if not nc.is_and("".join(src[i:i + 3])):
                return False, "between piece %d and %d the text has %r, not the word 'and'" % (k, k + 1, "".join(src[i:i + 3]))
            i += 3
        q = [c for c in p if c not in nc.WS4]
        if src[i:i + len(q)] != q:
            j = 0
            while i + j < len(src) and j < len(q) and src[i + j] == q[j]:
                j += 1
            return False, "piece %d (%r) departs from the text at its non-blank character %d: text has %r" % (
                k + 1, p, j, "".join(src[i + j:i + j + 4]))
        i += len(q)
    if i != len(src):
        return False, "characters %r after the last piece are lost" % "".join(src[i:])
    return True, ""


# ---------------------------------------------------------------------------------------------------------------- generators
def gen_tokens(rng, tier, seen):
    base = ["Ab", "and", " "] if tier == "quick" else ["Ab", "and", "aNd", " ", "\n"]
    for x in CHARS:
        alpha = base + [x]
        for L in range(1, 6):
            for seq in itertools.product(alpha, repeat=L):
                if x not in seq:
                    continue
                s = "".join(seq)
                if s not in seen:
                    seen.add(s)
                    yield s
    full = nc.C12_TOKENS + ["\r"]
    n = 8000 if tier == "quick" else 120000
    for _ in range(n):
        L = rng.randint(4, 7)
        s = "".join(rng.choice(CHARS) if rng.random() < 0.3 else rng.choice(full) for _ in range(L))
        if s not in seen and RE_ANY.search(s):
            seen.add(s)
            yield s


SMALL_W = ["and", "AND"]
WIDE_W = ["and", "AND", "aNd", "And", "an", "nd", "a nd", "andy", "{and}", "and}", "{and", "\\and", "a\\nd", "an\\d", "and\\"]


def gen_templates(rng, tier, seen):
    for x in CHARS:
        sides = ["Ab", "{Ab}", "\\", x, ""]
        gaps = [x, " " + x, x + " ", " "]
        if tier != "quick":
            sides += ["\\'", "}", "and"]
            gaps += ["\n" + x + "\t", x + x]
        for a in sides:
            for g1 in gaps:
                for g2 in gaps:
                    if x not in a + g1 + g2:
                        continue
                    for w in (SMALL_W[:1] if tier == "quick" else SMALL_W):
                        for b in sides:
                            s = a + g1 + w + g2 + b
                            if s not in seen:
                                seen.add(s)
                                yield s
    n = 260 if tier == "quick" else 4000
    for x in CHARS:
        sides = nc.C12_TOKENS + [x, "", "{" + x + "}", "Ab" + x, x + "Ab", x + x, "\\" + x]
        y = rng.choice(CHARS)
        gaps = [x, " " + x, x + " ", x + x, "\t" + x, x + "\n", "\r" + x + " ", " " + x + " ", x + y, y + " ", " ", "\n", "\r", "~" + x,
                x + "~", ""]
        for _ in range(n):
            a, b = rng.choice(sides), rng.choice(sides)
            g1, g2 = rng.choice(gaps), rng.choice(gaps)
            w = rng.choice(WIDE_W) if rng.random() < 0.4 else rng.choice(["and", "AND", "aNd"])
            s = a + g1 + w + g2 + b
            r = rng.random()
            if r < 0.25:
                s = rng.choice(["X ", "X" + x, x + " ", " " + x, "\n" + x + "\n"]) + s
            if r > 0.6:
                s = s + rng.choice(gaps) + rng.choice(["and", "AND"]) + rng.choice(gaps) + rng.choice(sides)
            if s not in seen and RE_ANY.search(s):
                seen.add(s)
                yield s


def _dress(rng, word, x):
    r = rng.random()
    if r < 0.2:
        return x + word
    if r < 0.4:
        return word + x
    if r < 0.5:
        return x + word + x
    if r < 0.6:
        m = rng.randint(0, len(word))
        return word[:m] + x + word[m:]
    if r < 0.72:
        return x
    if r < 0.76:
        return x + x
    if r < 0.8:
        return "{" + x + "}"
    return word


def _glue(rng, x, glue):
    r = rng.random()
    if r < 0.3:
        return " and "
    if r < 0.45:
        return rng.choice(glue)
    b1, b2 = rng.choice([" ", "\t", "\n", "\r", "  ", " \r\n"]), rng.choice([" ", "\t", "\n", "\r", "  ", "\n "])
    w = rng.choice(["and", "and", "AND", "aNd", "And"])
    k = rng.randrange(8)
    if k == 0:
        return x + w + b2              # x instead of the blank before 'and'
    if k == 1:
        return b1 + w + x              # ... after 'and'
    if k == 2:
        return x + w + x               # ... on both sides
    if k == 3:
        return b1 + x + w + b2         # x between the blank and 'and'
    if k == 4:
        return b1 + w + x + b2
    if k == 5:
        return x + b1 + w + b2         # x outside the blank: last character of the name before
    if k == 6:
        return b1 + w + b2 + x         # ... first character of the name after
    return b1 + x + b2 + w + b1 + x + b2   # x is a whole word on both sides of a legal separator


def random_list(rng, first, glue):
    """an author list in which the class shows up at name edges, as names, around 'and' and at the ends of the list"""
    xs = [rng.choice(CHARS)]
    if rng.random() < 0.3:
        xs.append(rng.choice(CHARS))
    n = rng.choice([1, 2, 3, 5, 8, 20, 60]) if rng.random() < 0.25 else rng.randint(1, 7)
    out = []
    for i in range(n):
        out.append(_dress(rng, rng.choice(first), rng.choice(xs)))
        if rng.random() < 0.6:
            out.append(rng.choice([" ", " ", "\t", rng.choice(xs), " " + rng.choice(xs) + " "]))
            out.append(_dress(rng, rng.choice(first), rng.choice(xs)))
        if i + 1 < n:
            out.append(_glue(rng, rng.choice(xs), glue))
    s = "".join(out)
    r = rng.random()
    if r < 0.5:
        x = rng.choice(xs)
        s = rng.choice([x, x + " ", " " + x, "\n" + x + "\t", x + " and ", " " + x + " and ", "", ""]) + s \
            + rng.choice([x, " " + x, x + " ", "\r" + x + "\n", " and " + x, " and " + x + " ", " and" + x, "", ""])
    if not RE_ANY.search(s):
        s = s + rng.choice(xs)
    return s


def short_text(rng):
    x = rng.choice(CHARS)
    toks = nc.C12_TOKENS + [x, x, x, x, "and", " "]
    return "".join(rng.choice(toks) for _ in range(rng.randint(1, 7)))
