"""C12 - co-author splitting loses nothing and splits only at top-level ' and '; idempotent under merge+split."""
import json

from props import names_common as nc
from props import c12_blank as bl
from props import c12_magic as mg

ENGINE = "names"
RULE = ("bounded-exhaustive token sequences over {Ab, and, AND, aNd, an, d, space, tab, newline, ~, {, }, backslash, \\', comma} "
        "(quick: every sequence of length <= 4 plus a seeded sample of length 5, and every separator template token-gap-andvariant-gap-token; thorough: every sequence of length <= 5 plus "
        "seeded samples of lengths 6 and 7), random author lists of 1-200 names (incl. non-ASCII letters and Unicode spaces, CR), "
        "the repository's co-author corpus, and SeparateCoAuthors/MergeCoAuthors on entries with author/editor/translator fields "
        "(incl. non-string values). distinct = distinct input text (and middleware sequence); non-trivial = the text contains a "
        "whitespace-delimited and-candidate, a brace or a backslash (i.e. the machine leaves its start step). "
        "Blank-like classes (harness/props/c12_blank.py; charclasses OTHER_ISSPACE, STRING_WHITESPACE_ONLY, INVISIBLE_NOT_SPACE: "
        "only space, tab, CR, LF are blanks): for every character x of the class every token sequence of length <= 5 over "
        "{Ab, and, space, x} (thorough: {Ab, and, aNd, space, newline, x}) plus a seeded sample of lengths 4-7 over the full alphabet "
        "and the whole class; side-gap-and-gap-side templates with x next to / instead of the blanks, as a side, after a backslash "
        "(exhaustive small set per x, seeded sample of a wider one); random lists with x at name edges, as names, around 'and', at "
        "the list edges; the same texts through the middlewares. "
        "Magic words as names (harness/props/c12_magic.py; selfref.MAGIC_WORDS + others / et al. / and / Jr, von / month / number / "
        "None-like families in every case variant): EVERY word in every form (whole name, first / last / inner word, before / after "
        "the comma, tied) at EVERY position of lists of 1..4 names, at the function level and through SeparateCoAuthors then "
        "MergeCoAuthors; random lists of such names; random entries through every middleware sequence, incl. lists of magic pieces "
        "handed to MergeCoAuthors directly (merging a list of strings = joining it with ' and ')")
TRUSTED = ["independent Python oracle of the property text (harness/props/names_common.py: conserved, ref_split)"]
ASSUMPTIONS = ["characters are compared by code point; CPython's flags are not consulted by the splitter"]

FIRST = ["Ab", "Donald", "{von Neumann}", "J.", "\\'Etienne", "Émile", "{\\'E}mile", "and", "And", "de", "Anderson", "band", "an", "d",
         "Ǆ", "x\\", "{and}", "Strand~and", "o{r}", "}", "{", "{Simon and Schuster}", "{Barnes and Noble}, Inc.", "{a and b} c",
         "\\{x and y\\}"] + nc.UNI_EDGE
GLUE = [" and ", " AND ", " aNd ", "  and\t", "\nand\n", " and\r\n", ", ", " ", "~", " and~", "~and ", " and and ", " and ",
        " and ", " , ", " an d ", " a nd ", " \\and ", " and} ", " {and} "]


def random_list(rng):
    n = rng.choice([1, 2, 3, 5, 8, 20, 200]) if rng.random() < 0.3 else rng.randint(1, 12)
    out = []
    for i in range(n):
        out.append(rng.choice(FIRST))
        if rng.random() < 0.7:
            out.append(" ")
            out.append(rng.choice(FIRST))
        if i + 1 < n:
            out.append(rng.choice(GLUE) if rng.random() < 0.35 else " and ")
    s = "".join(out)
    if rng.random() < 0.2:
        s = rng.choice([" ", "\n", "\t ", "\r"]) + s + rng.choice([" ", "\n", " \t", "\\"])
    return s


VALUE_SHAPES = ["str", "str", "str", "list", "int", "none"]


def generate(rng, tier):
    cases = []
    if tier == "quick":
        seqs = nc.token_sequences(nc.C12_TOKENS, 4, [5], 40000, rng)
        n_rand, n_mw = 3000, 2500
    else:
        seqs = nc.token_sequences(nc.C12_TOKENS, 5, [6, 7], 350000, rng)
        n_rand, n_mw = 40000, 30000
    seen = set()
    for s in seqs:
        if s in seen:
            continue
        seen.add(s)
        cases.append({"stream": "tokens", "input": {"level": "fn", "s": s}})
    # separator templates: <token> <gap> <and-variant> <gap> <token> [<gap> and <gap> <token>], exhaustive
    gaps = [" ", "\t", "\n", "\r", "  ", " \n", "~", ""]
    ands = ["and", "AND", "aNd", "And", "an", "nd", "a nd", "andy", "{and}", "and}", "{and", "\\and", "a\\nd", "an\\d", "and\\"]
    for a in nc.C12_TOKENS:
        for g1 in gaps:
            for w in ands:
                for g2 in gaps:
                    for b in nc.C12_TOKENS:
                        s = a + g1 + w + g2 + b
                        if s not in seen:
                            seen.add(s)
                            cases.append({"stream": "templates", "input": {"level": "fn", "s": s}})
    tails = [" and C", " and {C}", "\tAND\t\\'C", " and }", " and ", " and and D", "} and C", " and~C"]
    for a in nc.C12_TOKENS:
        for g1 in gaps[:4]:
            for b in nc.C12_TOKENS:
                for t in tails:
                    s = "X " + a + g1 + "and " + b + t
                    if s not in seen:
                        seen.add(s)
                        cases.append({"stream": "templates", "input": {"level": "fn", "s": s}})
    for u in nc.UNI_EDGE:
        for g in (" and ", "\tAND\n", " and {x} and "):
            for t in ("Ab", u, "{" + u + "} C"):
                for s in (u + g + t, "Ab " + u + g + t, "{" + u + "}" + g + t, t + g + u):
                    if s not in seen:
                        seen.add(s)
                        cases.append({"stream": "templates", "input": {"level": "fn", "s": s}})
    for _ in range(n_rand):
        cases.append({"stream": "lists", "input": {"level": "fn", "s": random_list(rng)}})
    import core
    _, _, co = nc.load_repo_corpus(core.REPO)
    for v, exp in co:
        cases.append({"stream": "repo-corpus", "input": {"level": "fn", "s": v, "expected": exp}})
    # middleware level
    for _ in range(n_mw):
        fields = []
        keys = ["author", "editor", "translator", "title", "Author", "year"]
        rng.shuffle(keys)
        for k in keys[:rng.randint(1, 5)]:
            shape = rng.choice(VALUE_SHAPES) if rng.random() < 0.12 else "str"
            if shape == "str":
                v = random_list(rng) if rng.random() < 0.5 else "".join(rng.choice(nc.C12_TOKENS) for _ in range(rng.randint(0, 7)))
            elif shape == "list":
                v = {"list": [rng.choice(FIRST) for _ in range(rng.randint(0, 3))]}
            elif shape == "int":
                v = {"int": rng.randint(0, 3000)}
            else:
                v = {"none": 1}
            fields.append([k, v])
        mws = rng.choice([[0], [0, 1], [0, 1, 0], [1], [1, 0]])
        nf = None if rng.random() < 0.85 else rng.choice([["author"], ["title", "author"], []])
        cases.append({"stream": "middleware", "input": {"level": "mw", "fields": fields, "mws": mws, "nf": nf}})
    # ---- blank-like character classes (appended: the streams above keep their inputs)
    for s in bl.gen_tokens(rng, tier, seen):
        cases.append({"stream": "blank-tokens", "input": {"level": "fn", "s": s}})
    for s in bl.gen_templates(rng, tier, seen):
        cases.append({"stream": "blank-templates", "input": {"level": "fn", "s": s}})
    for _ in range(4000 if tier == "quick" else 40000):
        cases.append({"stream": "blank-lists", "input": {"level": "fn", "s": bl.random_list(rng, FIRST, GLUE)}})
    for _ in range(2000 if tier == "quick" else 20000):
        fields = []
        keys = ["author", "editor", "translator", "title", "Author"]
        rng.shuffle(keys)
        for k in keys[:rng.randint(1, 4)]:
            fields.append([k, bl.random_list(rng, FIRST, GLUE) if rng.random() < 0.5 else bl.short_text(rng)])
        mws = rng.choice([[0], [0, 1], [0, 1, 0], [1], [1, 0]])
        nf = None if rng.random() < 0.85 else rng.choice([["author"], ["title", "author"], []])
        cases.append({"stream": "blank-middleware", "input": {"level": "mw", "fields": fields, "mws": mws, "nf": nf}})
    # ---- magic words as names (appended: the streams above keep their inputs)
    texts = []
    for s, form in mg.gen_positions(rng, tier, seen):
        texts.append(s)
        cases.append({"stream": "magic-positions", "input": {"level": "fn", "s": s, "mg": form}})
    for _ in range(2500 if tier == "quick" else 30000):
        cases.append({"stream": "magic-lists", "input": {"level": "fn", "s": mg.random_list(rng, FIRST, GLUE), "mg": "random"}})
    for inp in mg.gen_middleware_positions(rng, texts):
        cases.append({"stream": "magic-middleware", "input": inp})
    for inp in mg.gen_middleware_random(rng, 1500 if tier == "quick" else 20000, FIRST, GLUE):
        cases.append({"stream": "magic-middleware", "input": inp})
    # ---- RUNS of backslashes (2, 3, 4, 5) before every significant character: the splitter pairs escapes from left to right
    # (the second backslash of `\\\\` IS the escaped character), a one-character look-behind does not (seeding round 11: a
    # `pairwise` rewrite treated whatever follows a run of backslashes as escaped).  Every sequence of length <= 4 over
    # {Ab, and, blank, { , }} with one run inserted at every position; appended last.
    import itertools
    base = ["Ab", "and", " ", "{", "}"]
    maxlen = 4 if tier == "quick" else 5
    for n in range(1, maxlen + 1):
        for seq in itertools.product(base, repeat=n):
            if "and" not in seq and n > 2:
                continue
            for i in range(n + 1):
                for run in (2, 3, 4, 5) if (tier != "quick" or n <= 3) else (2, 3):
                    t = "".join(seq[:i]) + "\\" * run + "".join(seq[i:])
                    if t not in seen:
                        seen.add(t)
                        cases.append({"stream": "backslash-runs", "input": {"level": "fn", "s": t}})
    for t in ["A. Miller\\\\ and B. Jones", "Jane Roe and \\\\{Royal Society and Friends}", "{Dept.\\ of Mathematics\\\\} and Jane Roe",
              "Ab\\\\\\ and Cd", "Ab \\\\and Cd", "Ab and\\\\ Cd"]:
        cases.append({"stream": "backslash-runs", "input": {"level": "fn", "s": t}})
        cases.append({"stream": "backslash-runs", "input": {"level": "mw", "fields": [["author", t]], "mws": [0, 1, 0], "nf": None}})
    return cases


def shrink(case):
    inp = case["input"]
    if inp["level"] == "fn":
        s = inp["s"]
        for i in range(len(s)):
            yield {"stream": case.get("stream", "?"), "input": {"level": "fn", "s": s[:i] + s[i + 1:]}}
        if len(s) > 8:
            yield {"stream": case.get("stream", "?"), "input": {"level": "fn", "s": s[:len(s) // 2]}}
            yield {"stream": case.get("stream", "?"), "input": {"level": "fn", "s": s[len(s) // 2:]}}
    else:
        fs = inp["fields"]
        for i in range(len(fs)):
            yield {"stream": "middleware", "input": dict(inp, fields=fs[:i] + fs[i + 1:])}
        for i, (k, v) in enumerate(fs):
            if isinstance(v, str) and v:
                for j in range(len(v)):
                    yield {"stream": "middleware", "input": dict(inp, fields=fs[:i] + [[k, v[:j] + v[j + 1:]]] + fs[i + 1:])}
        if len(inp["mws"]) > 1:
            yield {"stream": "middleware", "input": dict(inp, mws=inp["mws"][:-1])}


def unj(v):
    if isinstance(v, dict):
        if "list" in v:
            return list(v["list"])
        if "int" in v:
            return v["int"]
        return None
    return v


def check_function(s, got):
    """the property on one input text: conservation, idempotence, exact separator rule on balanced text"""
    from bibtexparser.middlewares.names import split_multiple_persons_names as sp
    if not isinstance(got, list) or not all(isinstance(p, str) for p in got):
        return False, "result is not a list of strings: %r" % (got,)
    if not nc.conserved(s, got):
        return False, "pieces and ' and ' separators do not account for the text: %r -> %r (%s)" % (s, got, bl.accounted(s, got)[1])
    if bl.RE_ANY.search(s):
        ok, lost = bl.accounted(s, got)
        if not ok:
            return False, "a non-blank character is not accounted for: %r -> %r (%s)" % (s, got, lost)
    again = sp(" and ".join(got))
    if again != got:
        return False, "merge+split is not idempotent: %r -> %r -> %r" % (s, got, again)
    if nc.balanced(s.strip(nc.WS4)):
        ref = nc.ref_split(s)
        if ref != got:
            return False, "separator rule: %r -> %r, reference splitter %r" % (s, got, ref)
    return True, ""


def impl(case):
    import enc
    import implutil
    from bibtexparser.middlewares.names import split_multiple_persons_names as sp
    inp = case["input"]
    if inp["level"] == "fn":
        s = inp["s"]
        r = implutil.guarded(lambda: sp(s))
        rec = {"sx_in": [80, enc.enc_str(s)], "key": json.dumps(s)}
        bal = nc.balanced(s.strip(nc.WS4))
        rec["nontrivial"] = any(c in s.strip(nc.WS4) for c in " \t\r\n{}\\")
        rec["tags"] = ["balanced" if bal else "unbalanced"] + bl.tags(s)
        if "mg" in inp:
            rec["tags"] += ["magic-kind:" + str(inp["mg"])] + mg.tags(s)
        if r[0] == "exc":
            rec["sx_out"] = implutil.r_exc(r[1])
            rec["oracle"] = {"ok": False, "detail": "split_multiple_persons_names raised %s on %r" % (r[2], s)}
            rec["summary"] = "raised " + r[2]
            return rec
        got = r[1]
        enc_got = [enc.enc_str(p) for p in got] if isinstance(got, list) else [[-7]]
        rec["sx_out"] = implutil.r_ok([enc_got, [enc_got] if bal else []])
        ok, detail = check_function(s, got)
        if ok and isinstance(got, list):
            # results of separate calls are independent objects: editing one must not change what a later call returns
            snapshot = list(got)
            got.append("edited")
            got[:1] = ["edited"]
            again = sp(s)
            if again != snapshot:
                ok, detail = False, "a second call on %r returned %r after the first result (%r) was edited in place" % (s, again, snapshot)
            got = snapshot
        if ok and "expected" in inp and got != inp["expected"]:
            ok, detail = False, "repository corpus: %r -> %r, BibTeX gives %r" % (s, got, inp["expected"])
        if "expected" in inp:
            rec["tags"].append("repo_corpus_case")
        rec["tags"].append("pieces=%d" % min(len(got), 4) if isinstance(got, list) else "pieces=?")
        rec["oracle"] = {"ok": ok, "detail": detail}
        rec["summary"] = repr(got)[:200]
        return rec
    # ---- middleware level
    from bibtexparser.library import Library
    from bibtexparser.model import Entry, Field
    from bibtexparser.middlewares.names import SeparateCoAuthors, MergeCoAuthors
    MW = [SeparateCoAuthors, MergeCoAuthors]
    fields = [Field(k, unj(v), i + 1) for i, (k, v) in enumerate(inp["fields"])]
    entry = Entry("article", "k", fields, start_line=3, raw="@article{k}")
    nf = inp.get("nf")
    sx_in = [90, list(inp["mws"]), [] if nf is None else [[enc.enc_str(k) for k in nf]], enc.enc_block(entry)]
    orig = [(k, unj(v)) for k, v in inp["fields"]]
    name_fields = ("author", "editor", "translator") if nf is None else tuple(nf)

    def run():
        lib = Library([entry])
        for m in inp["mws"]:
            lib = (MW[m]() if nf is None else MW[m](name_fields=tuple(nf))).transform(lib)
        return lib
    r = implutil.guarded(run)
    rec = {"sx_in": sx_in, "key": json.dumps([inp["fields"], inp["mws"], nf]), "nontrivial": True, "tags": ["mw"]}
    blank_tags = sorted(set(t for k, v in orig if k in name_fields and isinstance(v, str) for t in bl.tags(v)))
    rec["tags"] += ["mw:" + t for t in blank_tags]
    if "mg" in inp:
        magic_tags = set()
        for k, v in orig:
            if k in name_fields and isinstance(v, str):
                magic_tags.update(mg.tags(v))
            elif k in name_fields and isinstance(v, list) and all(isinstance(x, str) for x in v):
                magic_tags.update(mg.tags_of_pieces(v))
                magic_tags.add("magic:list-value-merged-directly")
        rec["tags"] += ["mw:magic-kind:" + str(inp["mg"]), "mw:magic-seq:" + "".join("SM"[m] for m in inp["mws"])]
        rec["tags"] += ["mw:" + t for t in sorted(magic_tags)]
    if r[0] == "exc":
        rec["sx_out"] = implutil.r_exc(r[1])
        # only a non-string value in a name field may make SeparateCoAuthors raise / a non-str list MergeCoAuthors
        expected_exc = any(k in name_fields and not isinstance(v, str) for k, v in orig)
        rec["oracle"] = {"ok": expected_exc, "detail": "middleware raised %s on %r" % (r[2], orig)}
        rec["summary"] = "raised " + r[2]
        rec["tags"].append("raised")
        return rec
    blk = r[1].blocks[0]
    rec["sx_out"] = implutil.r_ok(enc.enc_block(blk))
    ok, detail = True, ""
    if type(blk).__name__ != "Entry" or len(r[1].blocks) != 1:
        ok, detail = False, "result is not one entry"
    else:
        got = [(f.key, f.value) for f in blk.fields]
        if [k for k, _ in got] != [k for k, _ in orig]:
            ok, detail = False, "field keys changed"
        for (k, v0), (_, v1) in zip(orig, got):
            if not ok:
                break
            if k not in name_fields:
                if v1 != v0 or type(v1) is not type(v0):
                    ok, detail = False, "non-name field %s changed" % k
                continue
            seq = inp["mws"]
            if isinstance(v0, list) and all(isinstance(x, str) for x in v0) and seq and seq[0] == 1:
                # merging = joining the pieces with ' and ' (property text); from there on the field is that text
                v0 = " and ".join(v0)
            if not isinstance(v0, str):
                continue
            # strip leading merges (identity on strings)
            while seq and seq[0] == 1:
                seq = seq[1:]
            if not seq:
                exp_ok = v1 == v0
            elif seq[-1] == 0:
                exp_ok = isinstance(v1, list) and check_function(v0, v1)[0]
                if not exp_ok:
                    detail = check_function(v0, v1)[1] if isinstance(v1, list) else "not a list"
            else:
                # ... Separate then Merge: the merged text splits into the same pieces as the original
                from bibtexparser.middlewares.names import split_multiple_persons_names as sp
                pieces = sp(v0)
                exp_ok = isinstance(v1, str) and v1 == " and ".join(pieces) and sp(v1) == pieces and nc.conserved(v0, pieces)
            if not exp_ok:
                ok, detail = False, detail or "field %s: %r through %r gave %r" % (k, v0, inp["mws"], v1)
    rec["oracle"] = {"ok": ok, "detail": detail}
    rec["summary"] = repr([(f.key, f.value) for f in blk.fields])[:200] if type(blk).__name__ == "Entry" else type(blk).__name__
    return rec
