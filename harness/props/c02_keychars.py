"""C02, stream K: every character class of props/charclasses.py at the edges of and inside keys and names.

The dialect grammar (DESIGN.md section 3, Model/Grammar.v) says  key, name ::= kchar+  where a kchar is any character that is
not whitespace (str.isspace) and not an active delimiter, and  type ::= wordchar+ ;  ws* may be ANY whitespace.  So

  * INVISIBLE_NOT_SPACE characters (U+200B, U+2060, U+FEFF, ...), CASE_ODDITIES, LETTER_LIKE, COMBINING, DIGIT_ODDITIES and
    KEY_PUNCT are ordinary key characters: an entry key, field name, @string name or bare (macro) piece of a value that begins
    with, ends with, contains or consists of one of them comes back exactly as written; an entry type made of such word
    characters comes back str.lower()-ed;
  * two keys / names that differ only by such a character, by the case or by the Unicode normal form of such a character are
    two different keys: both blocks / fields are there, nothing is a duplicate, nothing fails;
  * OTHER_ISSPACE characters (\\x0b \\x0c \\x1c-\\x1f \\x85 U+00A0 U+2000... U+3000) are whitespace: around keys, names, '=',
    values, '#' and between blocks they are the legal surrounding whitespace and are stripped.

Documents are built side by side with their ground truth (items, as gens_split.gen_doc does) and with their derivation as an
AST of the Coq grammar (encoding of Run/RunGrammar.v), so each document is checked three ways by props/c02.py: the oracle
(implementation = ground truth, no failed block), op 132 (implementation = model) and op 133 (Coq's render = text, Coq's
expected = implementation's blocks, wf_doc_b = true).

Families (every choice from the rng passed in; the systematic families enumerate pool x position completely, so a change whose
trigger is ONE character of a class at ONE kind of position in ONE kind of slot meets it in every run):
  edge    for every character c of every pool and every position (start / end / mid / alone): ONE document in which every slot
          (entry key of an entry with fields, key of a RefTeX-style entry @t{k}, two field names, a bare macro piece, an @string
          name, the entry type when c is a word character) carries c at that position
  type    the same for entry types whose str.lower() is not the ASCII one (the model instance of lower() does not apply:
          oracle only, convention of this file: record carries skip)
  pair    for every character: sibling keys k, k with c, k with another character of the pool, and the case variants and
          Unicode normal forms of these - as keys of several entries, as field names of one entry and as @string names
  ws      for every whitespace character (ASCII blanks and OTHER_ISSPACE): a document with that character in every ws slot
          (alone and next to ASCII blanks), next to ordinary keys and next to keys with an invisible character at the edge
  mixed   random documents: every slot independently plain or with 1-2 characters of a random pool at a random position
          (also both / doubled / replacing its ASCII look-alike), every ws slot plain or exotic
"""
import re
import unicodedata

import gens_split as G
from props import charclasses as CC

POOLS = [("INVISIBLE_NOT_SPACE", CC.INVISIBLE_NOT_SPACE), ("CASE_ODDITIES", CC.CASE_ODDITIES), ("LETTER_LIKE", CC.LETTER_LIKE),
         ("COMBINING", CC.COMBINING), ("DIGIT_ODDITIES", CC.DIGIT_ODDITIES), ("KEY_PUNCT", CC.KEY_PUNCT)]
SYS_POSITIONS = ["start", "end", "mid", "alone"]
ALL_POSITIONS = SYS_POSITIONS + ["both", "double", "replace", "two"]
ALLWS = CC.all_whitespace()

E_KEYS = ["Knuth84", "smith2020", "k1", "a:b", "x.y-z", "Doe_et_al", "key/1", "K", "reftexStyle", "0"]
F_NAMES = ["title", "year", "note", "Author", "x_1", "a", "ID", "month"]
S_NAMES = ["jan", "acm", "S1", "pub_x", "k1"]
M_NAMES = ["jan", "acm", "abbr", "k2", "Foo"]
TYPES = ["article", "Book", "MISC", "inProceedings", "x_1", "a", "techreport"]
PLAIN_VALUES = ["{x}", '"y z"', "1984", "{The {TeX}book}", '"a, b"', "{x = y}", "{}", '""', "jan", '{a "b" c}']

_WORD = re.compile(r"\w+\Z")
_STRUCT = set('{}",=\n\\@#')


def _E(s):
    import enc
    return enc.enc_str(s)


def is_name(s):
    """key, name ::= kchar+ (and usable as a bare piece: no '#'; no '@' / backslash so that no side condition can bite)"""
    return s != "" and not any(c.isspace() or c in _STRUCT for c in s)


def is_type(s):
    """type ::= wordchar+, and not one of the three keywords' spellings"""
    return bool(_WORD.match(s)) and not any(c.isspace() for c in s) and not s.lower().startswith(("comment", "preamble", "string"))


def put(rng, word, c, pos, c2=None):
    """word with the character c at position pos"""
    mid = max(1, len(word) // 2)
    if pos == "start":
        return c + word
    if pos == "end":
        return word + c
    if pos == "mid":
        return word[:mid] + c + word[mid:]
    if pos == "alone":
        return c
    if pos == "both":
        return c + word + c
    if pos == "double":
        return rng.choice([c + c + word, word + c + c])
    if pos == "two":                       # two different characters (c2 of any pool) at the same edge / one at each edge
        c2 = c2 or c
        return rng.choice([c + c2 + word, word + c + c2, c + word + c2])
    # replace: c instead of the ASCII letter / digit it folds or normalises to
    for t in (c.casefold(), unicodedata.normalize("NFKC", c).casefold()):
        if len(t) == 1 and t != c:
            i = word.lower().find(t)
            if i >= 0:
                return word[:i] + c + word[i + 1:]
    return word[:mid] + c + word[mid:]


def siblings(word):
    """the strings a case mapping or a Unicode normalisation identifies with word (all different from it, all legal names)"""
    out = []
    for f in (str.lower, str.upper, str.casefold, str.swapcase, str.title,
              lambda s: unicodedata.normalize("NFC", s), lambda s: unicodedata.normalize("NFD", s),
              lambda s: unicodedata.normalize("NFKC", s), lambda s: unicodedata.normalize("NFKD", s),
              lambda s: unicodedata.normalize("NFKC", s).casefold()):
        w = f(word)
        if w != word and w not in out and is_name(w):
            out.append(w)
    return out


class KDoc:
    """text, ground truth and Coq-grammar AST of a document, built side by side"""

    def __init__(self, gap0=""):
        self.t, self.items, self.ast, self.gap0 = gap0, [], [], gap0
        self.free_last = False

    def _nl(self):
        return self.t.count("\n")

    def gap(self, g):
        self.t += g
        self.ast[-1] = [self.ast[-1], _E(g)]

    def entry(self, typ, hws, w1, key, w2, fields=None, trail=None):
        """fields None: '@typ{key}'.  Otherwise '@typ{key,' fields '}' with fields = [(pre, name, mid1, mid2, value, value ast,
        post)] and trail None (no trailing comma) or the ws after the trailing comma."""
        start, line0 = len(self.t), self._nl()
        self.t += "@" + typ + hws + "{" + w1 + key + w2
        out, fasts = [], []
        if fields is None:
            etail = []
        else:
            self.t += ","
            for i, (pre, name, mid1, mid2, val, vast, post) in enumerate(fields):
                self.t += pre + name + mid1
                out.append([name, val, self._nl()])
                self.t += "=" + mid2 + val + post
                fasts.append([_E(pre), _E(name), _E(mid1), _E(mid2), vast, _E(post)])
                if i < len(fields) - 1:
                    self.t += ","
            if trail is not None:
                self.t += ("," if fields else "") + trail
            etail = [[fasts, [] if trail is None else [_E(trail)]]]
        self.t += "}"
        self.items.append({"kind": "entry", "raw": self.t[start:], "line": line0, "type": typ.lower(), "key": key, "fields": out})
        self.ast.append([0, _E(typ), _E(hws), _E(w1), _E(key), _E(w2), etail])
        self.free_last = False

    def string(self, kw, hws, w1, name, w2, w3, val, vast, w4):
        start, line0 = len(self.t), self._nl()
        self.t += "@" + kw + hws + "{" + w1 + name + w2 + "=" + w3 + val + w4 + "}"
        self.items.append({"kind": "string", "raw": self.t[start:], "line": line0, "key": name, "value": val})
        self.ast.append([1, _E(kw), _E(hws), _E(w1), _E(name), _E(w2), _E(w3), vast, _E(w4)])
        self.free_last = False

    def comment(self, kw, body):
        """body without braces"""
        start, line0 = len(self.t), self._nl()
        self.t += "@" + kw + "{" + body + "}"
        self.items.append({"kind": "comment", "raw": self.t[start:], "line": line0, "comment": body.strip()})
        self.ast.append([3, _E(kw), [], _E(body)])
        self.free_last = False

    def freetext(self, raw):
        line0 = self._nl()
        self.t += raw
        self.items.append({"kind": "freetext", "raw": raw, "line": line0, "comment": raw})
        self.ast.append([4, _E(raw)])
        self.free_last = True

    def done(self):
        return self.t, self.items, [_E(self.gap0), self.ast]


class Ws:
    """the whitespace of one document: every ws slot plain (the pools of gens_split) or, with probability p, exotic - 1-2
    characters of `pool` (default: all whitespace characters), optionally next to an ASCII blank"""

    def __init__(self, rng, p, pool=None, forced=None):
        self.rng, self.p, self.pool, self.forced = rng, p, pool or ALLWS, forced

    def _exotic(self):
        rng = self.rng
        s = "".join(rng.choice(self.pool) for _ in range(rng.randint(1, 2)))
        r = rng.random()
        if r < 0.15:
            return rng.choice(CC.ASCII_BLANKS) + s
        if r < 0.3:
            return s + rng.choice(CC.ASCII_BLANKS)
        return s

    def __call__(self, allow_empty=True):
        if self.forced is not None:
            return self.forced
        if self.rng.random() < self.p:
            return self._exotic()
        w = self.rng.choice(G.INNER_WS)
        return w if (w or allow_empty) else " "

    def gap(self):
        if self.forced is not None:
            return self.forced
        if self.rng.random() < self.p:
            return self._exotic()
        return self.rng.choice(["\n", "\n", "\n\n", " ", "", "\r\n", "\t"])

    def hws(self):
        return self.rng.choice(G.HWS)


def kvalue(rng, ws, bare=None):
    """value ::= piece (ws* '#' ws* piece)* -> (text, ast); `bare`: the first piece is this bare (macro) name"""
    def piece(b=None):
        if b is not None:
            return b, [0, _E(b)]
        if rng.random() < 0.3:
            return G._piece(rng, 1)                   # a piece of the shared grammar generator (escapes, nesting, odd atoms)
        v = rng.choice(PLAIN_VALUES)
        if v[0] == "{":
            return v, [1, _braced_ast(v[1:-1])]
        if v[0] == '"':
            return v, [2, _braced_ast(v[1:-1])]
        return v, [0, _E(v)]

    t, a = piece(bare)
    rest, text = [], t
    while rng.random() < 0.2:
        t2, a2 = piece(rng.choice(M_NAMES) if rng.random() < 0.3 else None)
        w1, w2 = ws(), ws()
        text += w1 + "#" + w2 + t2
        rest.append([_E(w1), _E(w2), a2])
    return text, [a, rest]


def _braced_ast(s):
    """AST of balanced brace-group content given as text (no escapes in the texts this is used for)"""
    stack = [[]]
    for ch in s:
        if ch == "{":
            stack.append([])
        elif ch == "}":
            g = stack.pop()
            stack[-1].append(g)
        else:
            stack[-1].extend(_E(ch))
    assert len(stack) == 1
    return stack[0]


def neighbour(rng, d, tag):
    """an ordinary block before / behind the interesting ones"""
    k = rng.randrange(4 if not d.free_last else 3)
    if k == 0:
        d.comment(rng.choice(["comment", "Comment"]), rng.choice(["x", "k = v,", " a b ", ""]))
    elif k == 1:
        d.entry("misc", "", "", "plain" + tag, "", [(" ", "a", " ", " ", "{b}", [[1, _E("b")], []], "")])
    elif k == 2:
        d.string("string", "", "", "s" + tag, " ", " ", '"v"', [[2, _E("v")], []], "")
    else:
        d.freetext(rng.choice(["% a remark " + tag, "x", "some free text, with = marks"]))


def field(rng, ws, name, bare=None):
    pre, mid1, mid2 = ws(), ws(), ws()
    val, vast = kvalue(rng, ws, bare)
    return (pre, name, mid1, mid2, val, vast, ws())


def slots_doc(rng, ws, mk, with_type=True, n_neighbours=None):
    """One document with every kind of slot; mk(slot, base word) gives the word to write in that slot.
    Slots: ekey (entry with fields), bkey (@t{k}), fname (field names), macro (bare piece), sname, type."""
    d = KDoc(ws.gap())
    nb = rng.randint(0, 1) if n_neighbours is None else n_neighbours
    if nb:
        neighbour(rng, d, "0")
        d.gap(ws.gap())
    ek = rng.sample(E_KEYS, 2)
    fn = rng.sample(F_NAMES, 3)

    def typ():
        t = mk("type", rng.choice(TYPES)) if with_type else rng.choice(TYPES)
        return t

    def b_entry():
        fields = [field(rng, ws, mk("fname", fn[0])), field(rng, ws, mk("fname", fn[1])),
                  field(rng, ws, fn[2], bare=mk("macro", rng.choice(M_NAMES)))]
        rng.shuffle(fields)
        d.entry(typ(), ws.hws(), ws(), mk("ekey", ek[0]), ws(), fields, trail=ws() if rng.random() < 0.4 else None)

    def b_bare():
        if rng.random() < 0.75:
            d.entry(typ(), ws.hws(), ws(), mk("bkey", ek[1]), ws(), None)
        else:                              # '@t{k,}' / '@t{k, }'
            d.entry(typ(), ws.hws(), ws(), mk("bkey", ek[1]), ws(), [], trail=ws() if rng.random() < 0.5 else None)

    def b_string():
        val, vast = kvalue(rng, ws)
        d.string(rng.choice(["string", "String", "STRING"]), ws.hws(), ws(), mk("sname", rng.choice(S_NAMES)), ws(), ws(), val, vast, ws())

    blocks = [b_entry, b_bare, b_string]
    rng.shuffle(blocks)
    for i, b in enumerate(blocks):
        b()
        d.gap(ws.gap())
    if rng.random() < 0.4:
        neighbour(rng, d, "1")
        d.gap(rng.choice(["", "\n"]))
    return d.done()


def gen_edge(rng, pname, c, pos):
    """every slot carries c at position pos; returns [(family, text, items, ast)] (the second one, if any, is the type-only
    document for a type whose lower() is outside the model's ASCII instance)"""
    import enc
    ws = Ws(rng, 0.15)
    seen = {}
    extra = []

    def mk(slot, base):
        w = put(rng, base, c, pos)
        if pos == "alone":                       # c, cc, ccc ... : the slots of one kind stay distinct
            grp = "key" if slot in ("ekey", "bkey") else slot
            n = seen[grp] = seen.get(grp, 0) + 1
            w = c * n
        if slot == "type":
            if not is_type(w):
                return base
            if not enc.lower_is_ascii_only(w):
                extra.append(w)
                return base
            return w
        return w if is_name(w) else base

    out = [("edge",) + slots_doc(rng, ws, mk)]
    if extra:
        d = KDoc(rng.choice(["", "\n"]))
        d.entry(extra[0], ws.hws(), ws(), rng.choice(E_KEYS), ws(), [field(rng, ws, "title")])
        d.gap(ws.gap())
        if len(extra) > 1 and extra[1] != extra[0]:
            d.entry(extra[1], ws.hws(), ws(), "bare1", ws(), None)
            d.gap("\n")
        out.append(("type",) + d.done())
    return out


def gen_pair(rng, pname, pool, c):
    """sibling keys: as entry keys, as field names of one entry, as @string names"""
    ws = Ws(rng, 0.1)
    others = [x for x in pool if x != c]

    def family(base):
        pos = rng.choice(["start", "end", "mid", "replace", "both"])
        kv = put(rng, base, c, pos)
        fam = [base, kv] + siblings(kv)
        if others:
            c2 = rng.choice(others)
            fam.append(put(rng, base, c2, pos if pos != "replace" else "end"))
            fam.append(put(rng, base, c, "two", c2))
        if pos in ("start", "end"):              # the same character at the other edge / twice
            fam.append(put(rng, base, c, "end" if pos == "start" else "start"))
            fam.append(put(rng, base, c, "double"))
        res = []
        for w in fam:
            if is_name(w) and w not in res:
                res.append(w)
        keep = res[:2] + rng.sample(res[2:], min(len(res) - 2, 4))
        rng.shuffle(keep)
        return keep

    d = KDoc(rng.choice(["", "\n"]))
    blocks = []
    for k in family(rng.choice(E_KEYS[:7])):
        def b(k=k):
            if rng.random() < 0.5:
                d.entry(rng.choice(TYPES), ws.hws(), ws(), k, ws(), None)
            else:
                d.entry(rng.choice(TYPES), ws.hws(), ws(), k, ws(), [field(rng, ws, "year")], trail=ws() if rng.random() < 0.3 else None)
        blocks.append(b)
    names = family(rng.choice(F_NAMES[:6]))
    blocks.append(lambda: d.entry(rng.choice(TYPES), ws.hws(), ws(), "fieldSiblings", ws(), [field(rng, ws, n) for n in names],
                                  trail=ws() if rng.random() < 0.3 else None))
    for s in family(rng.choice(S_NAMES[:4])):
        def b(s=s):
            val, vast = kvalue(rng, ws)
            d.string(rng.choice(["string", "String"]), ws.hws(), ws(), s, ws(), ws(), val, vast, ws())
        blocks.append(b)
    rng.shuffle(blocks)
    for b in blocks:
        b()
        d.gap(ws.gap())
    return ("pair",) + d.done()


def gen_ws(rng, s, variant):
    """the whitespace character s in every ws slot"""
    if variant == 0:
        ws = Ws(rng, 1.0, forced=s)
    else:
        ws = Ws(rng, 0.8, pool=[s])
    inv = variant == 2

    def mk(slot, base):
        if slot == "type" or not inv or rng.random() < 0.4:
            return base
        return put(rng, base, rng.choice(CC.INVISIBLE_NOT_SPACE), rng.choice(["start", "end", "both"]))

    return ("ws",) + slots_doc(rng, ws, mk, n_neighbours=rng.randint(0, 1))


def gen_mixed(rng):
    import enc
    ws = Ws(rng, rng.choice([0.0, 0.2, 0.5]))
    used = set()

    def mk(slot, base):
        if rng.random() < 0.45:
            return base
        pname, pool = rng.choice(POOLS)
        c = rng.choice(pool)
        c2 = rng.choice(rng.choice(POOLS)[1])
        w = put(rng, base, c, rng.choice(ALL_POSITIONS), c2)
        if slot == "type":
            # keep the document inside the model's instance of lower(): odd types have their own family
            if not is_type(w) or not enc.lower_is_ascii_only(w):
                return base
        elif not is_name(w):
            return base
        used.add(pname)
        return w

    text, items, ast = slots_doc(rng, ws, mk)
    return ("mixed", text, items, ast), sorted(used)


def generate(rng, tier):
    """[(family, tags, text, items, ast)]"""
    out = []
    for _round in range(1 if tier == "quick" else 4):       # thorough: the systematic families four times (other words, ws, layouts)
        for pname, pool in POOLS:
            for c in pool:
                for pos in SYS_POSITIONS:
                    for fam, text, items, ast in gen_edge(rng, pname, c, pos):
                        out.append((fam, ["keychars:" + fam, "keychars:pool:" + pname, "keychars:pos:" + pos], text, items, ast))
        for pname, pool in POOLS:
            for c in pool:
                fam, text, items, ast = gen_pair(rng, pname, pool, c)
                out.append((fam, ["keychars:pair", "keychars:pool:" + pname], text, items, ast))
        for s in ALLWS:
            for variant in (0, 1, 2):
                fam, text, items, ast = gen_ws(rng, s, variant)
                out.append((fam, ["keychars:ws", "keychars:ws:" + ("other-isspace" if s in CC.OTHER_ISSPACE else "ascii-blank")]
                            + (["keychars:ws:next-to-invisible"] if variant == 2 else []), text, items, ast))
    for _ in range(120 if tier == "quick" else 6000):
        (fam, text, items, ast), used = gen_mixed(rng)
        out.append((fam, ["keychars:mixed"] + ["keychars:pool:" + p for p in used], text, items, ast))
    return out
