"""C19, ARGUMENTS THAT ARE OBJECTS THE ENTRY ALREADY HOLDS - and equal-but-not-identical ones (streams ident-exh,
ident-random, ident-setobj).

The property: the results of set_field / item assignment / pop / del / get / in / [] and the resulting field order equal
those of an insertion-ordered dict subjected to the same operations.  A dict never looks at WHAT it is handed as a default
or as a value: `d.pop(k, x)` returns the stored object and removes the key even when `x` IS that stored object, `d.get(k2, x)`
returns `x` untouched when `k2` is absent even when `x` is stored under another key, `d[k] = d[k]` and `d[k2] = d[k]` are
ordinary (re)bindings.  An implementation that uses the caller's default as its own not-found sentinel, that compares the
argument with what it holds (`is`, `==`, `in self.fields`), that removes / de-duplicates by object identity instead of by
key, or that treats a Field handed in as a value specially, keeps every test green and every sequence with fresh arguments
right; it goes wrong only when an argument of call k+n coincides with the state that call k created (seeding round 10,
C19-j).  The other streams of this property draw every default and every value afresh, so this coincidence never occurs
there.

A case: entries as in the multi-* streams (constructed, possibly holding the same Field objects; or parsed) and steps
    ["pop" | "get", t, key, A | None]   entries[t].pop(key, <A>) / .get(key, <A>); None: the call without a default; key may
                                        be a position (the key stored there) or ["keyof-last"] (the key of the Field that
                                        the call before was handed)
    ["set", t, A]                       entries[t].set_field(<A>) when <A> is a Field whose key is not reserved
    ["setitem", t, key, A]              entries[t][key] = <A>
    ["rename", t, key, new]             the caller writes new into .key of the Field it finds under key (skipped when any
                                        entry holding the object would then have two fields of that key)
    ["del" | "in" | "getitem", t, key]
An argument A is resolved in the child, at the moment of the call, against the reference dicts:
    ["stored", u, sel]   THE Field object entries[u] holds under key sel (sel a string) / at position sel (an int, modulo)
    ["equal", u, sel]    a new Field with the same key, an equal value (deep copy) and the same line: equal, not identical
    ["value", u, sel]    the value object of that Field
    ["result", j]        the j-th (modulo) object that an earlier pop / get returned;  ["last"]  the argument of the previous call that had one
    ["entry", u]  ["fieldlist", u]  the entry object / the list its `fields` hands out
    ["none"]  ["val", v]  ["fresh", key, v, line]  ["odd", kind, key, v, line] (c19.field_class: falsy / sized / equal to
                         everything / refusing __eq__, __bool__, __hash__)
When a selector finds nothing the argument is a new Field that no entry holds.  What the argument turned out to be relative
to the entry and key of the call (the field stored under the key / under another key / of another entry / stored earlier /
an equal copy of one of these / the entry itself / falsy ...) is determined from the objects at run time and goes into the
distribution (tags ident:...).

Verdict: every entry has its reference dict key -> Field object; results must be the very objects the dict gives (for a
default: the very object handed in), and after EVERY step EVERY entry is compared with its own dict (c19.entry_vs_dict:
views in order, keyed accessors on present and absent keys) and every Field object ever seen with its content.  Programs
that op 25 of the model can express (set_field of an object that exists - the model numbers objects in order of creation -
or of a new one, renames, item assignment / defaults of plain values) are run a second time on fresh objects and compared
with Model/EntryObj.v; defaults and values that are objects are beyond the model's values: Python oracle alone (the
convention of the multi-* / edit-* streams).
"""
import itertools
import json

IKEYS = ["a", "A", "b", "ab"]
RENAME_TO = ["c", "B", "b", "a"]
PARSED_KEYS = ["author", "Title", "title", "year"]
IVALS = ["x", "", {"int": 0}, {"list": []}, {"list": ["p", "q"]}, None, {"int": 3}, "ß"]
SIMPLE_DEFAULTS = [{"int": 0}, "", {"list": []}, {"bool": False}, "d", {"tuple": []}]
ODD_DEFAULT_KINDS = ["false", "sized", "eqall", "strict", "eqnone"]

E_AB = {"type": "book", "key": "k2", "fields": [["a", "x", 1], ["b", "y", 2]]}
# its field `a` has the content of E_AB's `a` (an equal, not identical, Field of another entry)
E_OTHER = {"type": "misc", "key": "k3", "fields": [["ab", "p", 1], ["A", "q", 2], ["a", "x", 1]]}
E_THREE = {"type": "article", "key": "k1", "fields": [["a", {"int": 0}, 1], ["b", "y", 2], ["A", {"list": []}, 3]]}
E_SHARING = {"type": "misc", "key": "k9", "fields": [["ab", "p", 7], {"share": [0, 0]}, {"share": [0, 2]}]}


def setups(bib):
    return [("two", {"entries": [E_AB, E_OTHER]}),
            ("shared", {"entries": [E_THREE, E_SHARING]}),
            ("parsed", {"bib": bib, "indexes": [5, 0]})]          # entry 0: A, a, ab; entry 1: author, Title, year, a


def catalogue():
    """Every call of the class on entry 0 of a set-up (keys a: present everywhere, b, zz: absent)."""
    defaults = [None, ["none"]] + [["val", v] for v in SIMPLE_DEFAULTS]
    defaults += [["stored", 0, "a"], ["stored", 0, "b"], ["stored", 0, -1], ["stored", 1, "a"], ["stored", 1, 0],
                 ["equal", 0, "a"], ["equal", 0, -1], ["equal", 1, "a"], ["value", 0, "a"], ["value", 0, -1],
                 ["entry", 0], ["entry", 1], ["fieldlist", 0]]
    defaults += [["odd", kind, "a", {"list": []} if kind == "sized" else "x", 1] for kind in ODD_DEFAULT_KINDS]
    calls = [[m, 0, k, d] for m in ("pop", "get") for k in ("a", "b", "zz") for d in defaults]
    calls += [["set", 0, a] for a in (["stored", 0, "a"], ["stored", 0, 0], ["stored", 0, 1], ["stored", 0, -1],
                                      ["stored", 1, "a"], ["stored", 1, 0], ["stored", 1, -1], ["equal", 0, "a"],
                                      ["equal", 0, -1], ["equal", 1, "a"], ["equal", 1, 0], ["fresh", "a", "n", 50],
                                      ["fresh", "zz", "n", 51], ["odd", "false", "a", "x", 1], ["odd", "eqall", "b", "y", 2])]
    calls += [["setitem", 0, k, a] for k in ("a", "b", "zz")
              for a in (["stored", 0, "a"], ["stored", 0, -1], ["stored", 1, 0], ["value", 0, "a"], ["value", 0, -1],
                        ["value", 1, 0], ["equal", 0, "a"], ["none"], ["val", "w"])]
    return calls


def again(call):
    """The call once more with the very object of the first call."""
    c = list(call)
    if c[-1] is not None:
        c[-1] = ["last"]
    return c


PRES = [[["rename", 0, "a", "c"]], [["pop", 0, "a", None]], [["get", 0, "a", None]], [["setitem", 0, "a", ["val", "w"]]],
        [["set", 0, ["fresh", "a", "n", 60]]], [["set", 1, ["stored", 0, "a"]]]]
# scripts around an earlier result: the popped field handed in again, the field just looked up as the default of its pop
SCRIPTS = [
    [["get", 0, "a", None], ["pop", 0, "a", ["result", 0]], ["setitem", 0, "a", ["val", "z"]]],
    [["pop", 0, "a", None], ["set", 0, ["result", 0]], ["set", 0, ["last"]]],
    [["pop", 0, "a", None], ["pop", 0, "a", ["result", 0]], ["get", 0, "a", ["result", 0]], ["set", 0, ["result", 0]]],
    [["pop", 0, "a", None], ["pop", 0, -1, ["result", 0]]],
    [["get", 0, "a", None], ["get", 0, "zz", ["result", 0]], ["pop", 0, "zz", ["result", 0]], ["pop", 0, "a", ["last"]]],
    [["set", 0, ["fresh", "zz", "e", 70]], ["pop", 0, "zz", ["last"]], ["setitem", 0, "zz", ["val", "f"]]],
    [["set", 0, ["fresh", "zz", "e", 70]], ["set", 1, ["last"]], ["pop", 1, "zz", ["last"]], ["pop", 0, "zz", ["last"]]],
    [["rename", 0, "a", "c"], ["set", 0, ["stored", 0, "c"]], ["pop", 0, "c", ["stored", 0, "c"]], ["set", 0, ["result", 2]]],
    [["setitem", 0, "zz", ["stored", 0, "a"]], ["pop", 0, "a", ["value", 0, "zz"]], ["pop", 0, "zz", ["value", 0, "zz"]]],
    [["setitem", 0, "a", ["value", 0, "a"]], ["setitem", 0, "a", ["last"]], ["pop", 0, "a", ["stored", 0, "a"]]],
    [["pop", 0, "a", ["entry", 0]], ["pop", 0, "a", ["entry", 0]], ["get", 0, "a", ["entry", 0]]],
]


def ident_cases(rng, tier, bib):
    """rng: the generator of these streams alone"""
    cases = []
    quick = tier == "quick"
    calls = catalogue()
    sets = setups(bib)

    def case(stream, name, start, steps):
        inp = {"ident": name, "steps": steps}
        inp.update(start)
        cases.append({"stream": stream, "input": inp})

    # a. every call of the catalogue alone, twice in a row (re-resolved, and with the very object of the first call),
    #    after each of a few preparations, and followed by a write of the key
    for si, (name, start) in enumerate(sets):
        full = si == 0 or not quick          # quick: the second and third set-up with half of the preparations
        for c in calls:
            case("ident-exh", name, start, [c])
            if c[-1] is not None:
                if full:
                    case("ident-exh", name, start, [c, c])
                case("ident-exh", name, start, [c, again(c), ["set", 0, ["fresh", c[2] if c[0] != "set" else "a", "n", 80]]])
                # ... and once more after the key was removed in between (the object is no longer what the entry holds)
                case("ident-exh", name, start, [c, ["pop", 0, c[2] if c[0] != "set" else ["keyof-last"], None], again(c)])
            for pre in (PRES if full else PRES[:3]):
                case("ident-exh", name, start, pre + [c])
            if c[0] != "set":
                case("ident-exh", name, start, [c, ["setitem", 0, c[2], ["val", "z"]]])
        for sc in SCRIPTS:
            case("ident-exh", name, start, sc)
    if not quick:
        # every call that may change the entry followed by every call of the class
        name, start = sets[0]
        for c1, c2 in itertools.product([c for c in calls if c[0] != "get"], calls):
            case("ident-exh", name, start, [c1, c2])
    # b. random programs; c. random programs in the vocabulary the model can express
    for stream, n_cases in (("ident-random", 500 if quick else 8000), ("ident-setobj", 250 if quick else 4000)):
        model = stream == "ident-setobj"
        for i in range(n_cases):
            if i % 5 == 4:
                start = {"bib": bib, "indexes": [0, 5] if rng.random() < 0.5 else [5, 0]}
                ne, pool = 2, IKEYS + PARSED_KEYS
            else:
                start, ne = random_entries(rng, model)
                pool = IKEYS
            steps = []
            for j in range(rng.randint(2, 18)):
                steps.append(random_step(rng, ne, pool, j, model))
            case(stream, "random", start, steps)
    return cases


def random_entries(rng, simple):
    ne = rng.randint(1, 3)
    vals = [v for v in IVALS if not isinstance(v, dict) or "list" not in v] if simple else IVALS
    ents, keys, line = [], [], 0
    for j in range(ne):
        fs, ks = [], []
        for k in rng.sample(IKEYS, rng.randint(0, 4)):
            line += 1
            src = [(a, b) for a in range(j) for b, kk in enumerate(keys[a]) if kk == k]
            if src and rng.random() < 0.4:
                fs.append({"share": list(rng.choice(src))})
            else:
                # now and then the content of a field of an earlier entry (equal, not identical)
                twin = [f for e in ents for f in e["fields"] if isinstance(f, list) and f[0] == k]
                fs.append(list(rng.choice(twin)) if twin and rng.random() < 0.3 else [k, rng.choice(vals), line])
            ks.append(k)
        ents.append({"type": rng.choice(["article", "Book", ""]), "key": rng.choice(["k", "ID", "a"]), "fields": fs})
        keys.append(ks)
    return {"entries": ents}, ne


def random_arg(rng, t, ne, pool, j, what, model):
    """what: "default" | "field" | "value" """
    p = rng.random()
    u = t if (ne == 1 or rng.random() < 0.7) else rng.choice([x for x in range(ne) if x != t])
    sel = rng.choice(pool) if rng.random() < 0.5 else rng.randrange(-1, 4)
    if what == "field":
        if p < 0.45:
            return ["stored", u, sel]
        if p < 0.65:
            return ["equal", u, sel]
        if p < 0.77:
            return ["last"]
        if p < 0.89:
            return ["result", rng.randrange(max(j, 1))]
        if p < 0.95 or model:
            return ["fresh", rng.choice(pool), rng.choice(["n", "", {"int": 0}]), 200 + j]
        return ["odd", rng.choice(ODD_DEFAULT_KINDS[:3]), rng.choice(pool), rng.choice(["x", {"list": []}]), 200 + j]
    if model:
        # plain values only: a default / value the model can hold
        if p < 0.5 and what == "value":
            return ["value", u, sel]
        return ["val", rng.choice(["d", "", {"int": 0}, {"bool": False}, "w%d" % j])]
    if p < 0.36:
        return ["stored", u, sel]
    if p < 0.50:
        return ["equal", u, sel]
    if p < 0.60:
        return ["last"]
    if p < 0.68:
        return ["result", rng.randrange(max(j, 1))]
    if p < 0.76:
        return ["value", u, sel]
    if p < 0.80:
        return ["none"]
    if p < 0.87:
        return ["val", rng.choice(SIMPLE_DEFAULTS)]
    if what == "value":
        return ["val", "w%d" % j]
    if p < 0.92:
        return ["entry", rng.randrange(ne)]
    if p < 0.94:
        return ["fieldlist", rng.randrange(ne)]
    if p < 0.99:
        return ["odd", rng.choice(ODD_DEFAULT_KINDS), rng.choice(pool), rng.choice(["x", {"list": []}]), 200 + j]
    return ["fresh", rng.choice(pool), "n", 200 + j]


def random_step(rng, ne, pool, j, model):
    t = rng.randrange(ne)
    k = rng.choice(pool) if rng.random() < 0.93 else rng.choice(["zz", ""])
    p = rng.random()
    if model:
        if p < 0.40:
            return ["set", t, random_arg(rng, t, ne, pool, j, "field", True)]
        if p < 0.55:
            return ["rename", t, k, rng.choice(RENAME_TO)]
        if p < 0.70:
            return ["setitem", t, k, random_arg(rng, t, ne, pool, j, "value", True)]
        if p < 0.88:
            return [rng.choice(["pop", "pop", "get"]), t, k, None if rng.random() < 0.5 else random_arg(rng, t, ne, pool, j, "default", True)]
        return [rng.choice(["del", "in", "getitem"]), t, k]
    if p < 0.36:
        return [rng.choice(["pop", "pop", "pop", "get", "get"]), t, k, random_arg(rng, t, ne, pool, j, "default", False)]
    if p < 0.60:
        return ["set", t, random_arg(rng, t, ne, pool, j, "field", False)]
    if p < 0.75:
        return ["setitem", t, k, random_arg(rng, t, ne, pool, j, "value", False)]
    if p < 0.82:
        return ["rename", t, k, rng.choice(RENAME_TO)]
    if p < 0.90:
        return [rng.choice(["pop", "get"]), t, k, None]
    return [rng.choice(["del", "in", "getitem"]), t, k]


# ------------------------------------------------------------------ child
def build(inp):
    from bibtexparser.model import Entry
    from props import c19 as base
    entries = []
    if "bib" in inp:
        blocks = base.parsed_blocks(inp["bib"])
        for ix in inp["indexes"]:
            e = blocks[ix % len(blocks)]
            assert type(e) is Entry, "generator: parsed block %d is not an entry" % ix
            entries.append(e)
    else:
        built = []
        for st in inp["entries"]:
            fs = [built[x["share"][0]][x["share"][1]] if isinstance(x, dict) else base.mk_field(x) for x in st["fields"]]
            built.append(list(fs))
            entries.append(Entry(st["type"], st["key"], fs, start_line=0, raw=None))
    return entries


def distinct_objects(entries):
    objs = []
    for e in entries:
        for f in e.fields:
            if not any(o is f for o in objs):
                objs.append(f)
    return objs


def make_log():
    from props import c19 as base

    class IdentLog(base.FieldLog):
        """FieldLog whose snapshot of a value that is itself an object of the session (a Field handed in as a value, a list
        of such) is the object: a dict stores the very object it is given, and the caller may rename a Field that is
        also somebody's value."""

        def see(self, f, origin):
            import copy
            if id(f) not in self.seen:
                v = f.value
                self.seen[id(f)] = (f, f.key, copy.deepcopy(v) if base.value_modelled(v) else v, f.start_line, origin)

        def intact(self, f):
            _, k, v, ln, _ = self.seen[id(f)]
            same = base.same_value(f.value, v) if base.value_modelled(v) else f.value is v
            return type(f.key) is type(k) and f.key == k and same and f.start_line == ln

        def renamed(self, f):
            _, _, v, ln, origin = self.seen[id(f)]
            self.seen[id(f)] = (f, f.key, v, ln, origin)
    return IdentLog()


NOARG = ("no argument",)
KEY_AT = {"stored": 2, "equal": 2, "value": 2, "fresh": 1, "odd": 2}          # where an argument names a key
# the argument coincides with (or equals) something an entry of the session holds or held
COINCIDENCES = ("the-field", "a-field-stored", "a-field-of", "an-equal-copy", "the-value-object", "the-entry", "another-entry",
                "the-list")


def impl_ident(case):
    import copy
    import implutil
    from bibtexparser.model import Field
    from props import c19 as base
    inp = case["input"]
    entries = build(inp)
    ne = len(entries)
    log = make_log()
    refs, heads = [], []
    for i, e in enumerate(entries):
        keys = [f.key for f in e.fields]
        assert len(set(keys)) == len(keys) and not any(k in base.RESERVED for k in keys), "generator: start entry outside the hypothesis"
        for f in e.fields:
            log.see(f, "that entry %d started with" % i)
        refs.append({f.key: f for f in e.fields})
        heads.append((e.entry_type, e.key))
    order = distinct_objects(entries)          # the numbering of c19.obj_run: objects in order of creation
    ever = list(order)                         # every Field object an entry has held
    renamed = []
    handed = []                                # the lists that `fields` handed out and that were used as arguments
    steps = inp["steps"]
    # the keys asked about after every step: the pool, and every key the case names
    named = set(IKEYS + ["zz"] + (PARSED_KEYS if "bib" in inp else []))
    for st in steps:
        named.update(x for x in st[2:] if isinstance(x, str))
        named.update(x for a in st[2:] if isinstance(a, list) and a[0] in KEY_AT and len(a) > KEY_AT[a[0]]
                     for x in [a[KEY_AT[a[0]]]] if isinstance(x, str))
    absent = sorted(named)
    tags = {"ident", "ident:start-" + inp["ident"]}
    msteps = []                                # the program for the model; None once a step is beyond its vocabulary
    results = []
    state = {"last": NOARG, "last_step": -2}
    hit = False
    ok, detail = True, ""

    def fail(n, msg):
        return False, "step %d %r of %r: %s" % (n, steps[n], steps, msg)

    def index_of(o):
        return next((i for i, x in enumerate(order) if x is o), None)

    def content_equal(w, o):
        return w.key == o.key and w.start_line == o.start_line and base.same_value(w.value, o.value)

    def relation(obj, t, k):
        """what the argument is, relative to entry t and key k"""
        if obj is None:
            return "none"
        if isinstance(obj, Field):
            here = [kk for kk, w in refs[t].items() if w is obj]
            if here:
                return "the-field-stored-under-the-key" if here[0] == k else "a-field-stored-under-another-key"
            if any(w is obj for j in range(ne) if j != t for w in refs[j].values()):
                return "a-field-of-another-entry"
            if any(w is obj for w in ever):
                return "a-field-stored-earlier"
            if type(obj) is not Field:
                return "an-object-of-the-subclass-" + type(obj).__name__
            for kk, w in refs[t].items():
                if type(w) is Field and content_equal(w, obj):
                    return "an-equal-copy-of-" + ("the-field-stored-under-the-key" if kk == k else "a-field-stored-under-another-key")
            if any(type(w) is Field and content_equal(w, obj) for j in range(ne) if j != t for w in refs[j].values()):
                return "an-equal-copy-of-a-field-of-another-entry"
            return "a-field-no-entry-holds"
        if any(obj is x for x in entries):
            return "the-entry-itself" if obj is entries[t] else "another-entry"
        try:
            return "a-falsy-value" if not obj else "a-plain-value"
        except Exception:  # noqa: BLE001
            return "an-object"

    def pick(u, sel):
        R = refs[u]
        if isinstance(sel, int):
            return list(R.values())[sel % len(R)] if R else None
        return R.get(sel)

    def resolve(A, t, k, n):
        """-> (object, label or None: see relation)"""
        kind = A[0]
        if kind == "none":
            return None, None
        if kind == "val":
            return base.unjv(A[1]), None
        if kind in ("stored", "equal", "value"):
            u = A[1] % ne
            f = pick(u, A[2])
            if f is None:
                return Field(A[2] if isinstance(A[2], str) and A[2] not in base.RESERVED else "zz", "fb", 900 + n), None
            if kind == "stored":
                return f, None
            if kind == "equal":
                return type(f)(f.key, copy.deepcopy(f.value) if base.value_modelled(f.value) else f.value, f.start_line), None
            where = relation(f, t, k)
            return f.value, "the-value-object-of-" + where
        if kind == "result":
            got = [x for x in results if x is not None]
            return (got[A[1] % len(got)] if got else None), None
        if kind == "last":
            return (None if state["last"] is NOARG else state["last"]), None
        if kind == "entry":
            return entries[A[1] % ne], None
        if kind == "fieldlist":
            fs = entries[A[1] % ne].fields
            handed.append(fs)
            return fs, "the-list-handed-out-by-fields" + ("-(empty)" if not fs else "")
        if kind == "odd":
            return base.field_class(A[1])(A[2], base.unjv(A[3]), A[4]), None
        if kind == "fresh":
            return Field(A[1], base.unjv(A[2]), A[3]), None
        raise AssertionError("generator: argument %r" % (A,))

    def describe(obj, t, k, label, n):
        nonlocal hit
        rel = label or relation(obj, t, k)
        hit |= rel.startswith(COINCIDENCES)
        if obj is not None and state["last"] is obj and state["last_step"] == n - 1:
            tags.add("ident:the-same-object-as-in-the-call-before")
            hit = True
        return rel

    def values_agree(x, v):
        if x is v:
            return True
        try:
            return base.same_value(x, v)
        except RecursionError:
            return False

    for n, st in enumerate(steps):
        op, t = st[0], st[1] % ne
        e, R = entries[t], refs[t]
        res = None
        arg = NOARG
        if op in ("pop", "get"):
            k, A = st[2], st[3]
            if isinstance(k, int):          # position -> the key stored there
                k = list(R)[k % len(R)] if R else "zz"
            elif isinstance(k, list):       # ["keyof-last"]: the key of the Field that the call before was handed
                k = state["last"].key if isinstance(state["last"], Field) and type(state["last"].key) is str else "zz"
            present = k in R
            if A is None:
                d, rel = None, "no-default"
                r = implutil.guarded((lambda: e.pop(k)) if op == "pop" else (lambda: e.get(k)))
            else:
                d, label = resolve(A, t, k, n)
                rel = "default-is-" + describe(d, t, k, label, n)
                arg = d
                r = implutil.guarded((lambda: e.pop(k, d)) if op == "pop" else (lambda: e.get(k, d)))
            tags.add("ident:%s-%s-key:%s" % (op, "present" if present else "absent", rel))
            want = R[k] if present else d
            if op == "pop" and present:
                del R[k]
            if r[0] != "ok" or not (r[1] is want or (not present and base.value_modelled(d) and base.same_value(r[1], d))):
                ok, detail = fail(n, "entry %d: %s(%r, <%s>) gave %r; a dict gives %s" % (
                    t, op, k, rel, r[-1], ("the field it holds under the key, %r" % (log.content(want)[:2],)) if present
                    else "the default it was handed"))
                break
            res = r[1]
            if msteps is not None:
                if A is None or d is None:
                    msteps.append([op, t, k, None])
                elif A[0] == "val" and base.value_modelled(d):
                    msteps.append([op, t, k, d])
                else:
                    msteps = None
        elif op == "set":
            f, label = resolve(st[2], t, None, n)
            if not isinstance(f, Field) or type(f.key) is not str or f.key in base.RESERVED:
                tags.add("ident:step-not-applicable")
                results.append(None)
                continue
            k = f.key
            rel = describe(f, t, k, label, n)
            if rel == "the-field-stored-under-the-key":
                pos = list(R).index(k)
                rel += "-(%s)" % ("only field" if len(R) == 1 else "first" if pos == 0 else "last" if pos == len(R) - 1 else "in the middle")
                if any(x is f for x in renamed):
                    tags.add("ident:set_field:the-field-stored-under-the-key-after-a-rename")
            elif k in R:
                rel += "-(key present)"
            else:
                rel += "-(key absent)"
            tags.add("ident:set_field:" + rel)
            arg = f
            log.see(f, "passed to set_field in step %d" % n)
            if msteps is not None:
                i = index_of(f)
                if i is not None:
                    msteps.append(["setobj", t, i])
                elif type(f) is Field and base.value_modelled(f.value):
                    msteps.append(["new", t, k, f.value, f.start_line])
                else:
                    msteps = None
            if index_of(f) is None:
                order.append(f)
            r = implutil.guarded(lambda: e.set_field(f))
            R[k] = f
            if not any(x is f for x in ever):
                ever.append(f)
            if r[0] != "ok" or r[1] is not None:
                ok, detail = fail(n, "entry %d: set_field(<%s>) gave %r" % (t, rel, r[-1]))
                break
        elif op == "setitem":
            k = st[2]
            v, label = resolve(st[3], t, k, n)
            if (any(v is x for x in entries) or any(v is x for x in handed)
                    or (isinstance(v, Field) and type(v) is not Field)):
                # an entry (or its field list) as a value of one of its own fields: a cyclic structure, whose repr and ==
                # are Python's business; the class is about Field objects and their values.  Objects that refuse or
                # falsify == cannot be VALUES here either: the oracle compares values with == (they are defaults and fields)
                tags.add("ident:step-not-applicable")
                results.append(None)
                continue
            rel = describe(v, t, k, label, n)
            tags.add("ident:setitem-%s-key:value-is-%s" % ("present" if k in R else "absent", rel))
            arg = v

            def do_set():
                e[k] = v
            r = implutil.guarded(do_set)
            if r[0] != "ok" or r[1] is not None:
                ok, detail = fail(n, "entry %d: [%r] = <%s> gave %r" % (t, k, rel, r[-1]))
                break
            # the mapping now binds k (old position, or at the end) to a field (k, v); which object that is, is the
            # implementation's business - if it is one seen before, that one must not read differently now
            pos = list(R).index(k) if k in R else len(R)
            fs = e.fields
            f = fs[pos] if isinstance(fs, list) and pos < len(fs) else None
            if not (isinstance(f, Field) and f.key == k and values_agree(f.value, v)):
                ok, detail = fail(n, "entry %d: after [%r] = <%s> position %d holds %r; fields %r, the mapping held %r" % (
                    t, k, rel, pos, f, base.brief([(x.key, x.value) for x in fs]), base.brief([log.content(w)[:2] for w in R.values()])))
                break
            log.see(f, "created by the item assignment of step %d" % n)
            if not log.intact(f):
                ok, detail = fail(n, "entry %d: the assignment wrote into a Field object that existed before instead of binding "
                                  "the key to a new field: %s" % (t, log.altered()))
                break
            R[k] = f
            if index_of(f) is None:
                order.append(f)
            if not any(x is f for x in ever):
                ever.append(f)
            if msteps is not None:
                if base.value_modelled(v):
                    msteps.append(["setitem", t, k, v])
                else:
                    msteps = None
        elif op == "rename":
            k, new = st[2], st[3]
            r = implutil.guarded(lambda: e.get(k))
            if r[0] != "ok" or r[1] is not R.get(k):
                ok, detail = fail(n, "entry %d: get(%r) gave %r, the mapping gives %r" % (t, k, r[-1], R.get(k)))
                break
            f = r[1]
            holders = [j for j in range(ne) if any(w is f for w in refs[j].values())]
            if f is None or new == k or new in base.RESERVED or any(new in refs[j] for j in holders):
                tags.add("ident:step-not-applicable")
                results.append(None)
                continue
            f.key = new
            log.renamed(f)
            renamed.append(f)
            for j in holders:
                refs[j] = {w.key: w for w in refs[j].values()}
            tags.add("ident:rename-of-a-stored-field" + ("-held-by-several-entries" if len(holders) > 1 else ""))
            if msteps is not None:
                msteps.append(["get", t, k, None])
                msteps.append(["okey", index_of(f), new])
        else:
            k = st[2]
            if op == "del":
                def do_del():
                    del e[k]
                r = implutil.guarded(do_del)
                R.pop(k, None)          # docstring: shorthand for pop -> an absent key is no error
                good = r[0] == "ok" and r[1] is None
            elif op == "in":
                r = implutil.guarded(lambda: k in e)
                good = r[0] == "ok" and r[1] is (k in R)
            else:
                r = implutil.guarded(lambda: e[k])
                if k in R:
                    good = r[0] == "ok" and values_agree(r[1], log.content(R[k])[1])
                else:
                    good = r[0] == "exc" and r[2] == "KeyError"
            if not good:
                ok, detail = fail(n, "entry %d: the call gave %r, the mapping disagrees (it holds %r)" % (
                    t, r[-1], base.brief([log.content(w)[:2] for w in R.values()])))
                break
            if msteps is not None:
                msteps.append([op, t, k])
        results.append(res)
        if arg is not NOARG:
            state["last"], state["last_step"] = arg, n
        # ---- after every step: every entry against its own dict, and every Field object ever seen against its content
        for j, x in enumerate(entries):
            try:
                msg = base.entry_vs_dict(x, refs[j], log, heads[j][0], heads[j][1], Field, absent)
            except Exception as exc:  # noqa: BLE001 - a read accessor that raises is a finding, not a harness error
                msg = "a read accessor (fields, fields_dict, items, get, in, []) raised %s: %s; the mapping holds %r" % (
                    type(exc).__name__, exc, base.brief([log.content(w)[:2] for w in refs[j].values()]))
            if msg:
                who = "entry %d" % j if j == t else "entry %d (no operation was applied to it in this step)" % j
                ok, detail = fail(n, who + ": " + msg)
                break
        if ok:
            msg = log.altered()
            if msg:
                ok, detail = fail(n, msg)
        if not ok:
            break
    rec = {"sx_in": None, "sx_out": None, "oracle": {"ok": ok, "detail": detail}, "nontrivial": hit,
           "key": json.dumps(inp, sort_keys=True), "tags": sorted(tags),
           "summary": repr([[(f.key, f.value) for f in x.fields] for x in entries])[:200]}
    # ---- the same program on fresh objects for Model/EntryObj.v, when it can express the case
    if ok and msteps:
        entries2 = build(inp)
        objs2 = distinct_objects(entries2)
        if all(type(f) is Field and base.value_modelled(f.value) for f in objs2):
            r = base.obj_run(entries2, objs2, msteps)
            rec["sx_in"], rec["sx_out"] = r["sx_in"], r["sx_out"]
            if not r["oracle"]["ok"]:
                rec["oracle"] = r["oracle"]
            rec["tags"] = rec["tags"] + ["ident:compared-with-model"]
    return rec
