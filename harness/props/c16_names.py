"""C16, stream family "names": user classes that COINCIDE with library classes in name or shape.

'Ordered by the rank of their TYPE in the given order (unlisted types last)': the type of a block is a class OBJECT.  A project
that extends the model may well call its classes like the classes it extends (``class Entry(bibtexparser.model.Entry)``), like
another library class (``class Entry(model.String)``, ``class ParsingFailedBlock(model.Entry)``), derive a block class of its own
from ``Block`` under such a name (``class ImplicitComment(model.Block)``), nest it (``Project.Entry``), derive from its own
namesake once more, or have ``__module__`` read ``bibtexparser.model`` (classes re-exported / created by a factory).  A sorter
that looks types up by ``__name__``, by ``(__module__, __qualname__)``, by ``repr`` or through a ``{name: ...}`` table ranks such
blocks like their namesake; one that recognises comments or key-bearing blocks by class name glues / keys the wrong blocks
(seeding round 10, C16-j).  The libraries here hold instances of such classes next to plain blocks of the base, of the name
twin and of other classes, under orders that list - for the class of every such instance - the class itself, its base, the
library class of the same name, any two or all of them in every relative order, or none, given as a tuple or a list, in both
comment modes, once or twice; and plain libraries under orders that list such classes (the model follows: to it they are order
items that match nothing).

A class is described in the case by [name, base, module, nested, depth]:
    name    the ``__name__``: a library class name (the five block classes, the failed-block classes, Block) or a near miss
    base    the library class it derives from: Entry, String, Preamble, ExplicitComment, ImplicitComment, ParsingFailedBlock or
            Block (an unrelated block class: no comment, no key)
    module  index into MODULES: what ``__module__`` reads
    nested  1: ``__qualname__`` is ``Project.<name>``
    depth   1: derived from the class [name, base, module, nested, 0] (two user classes of one name, parent and child)
The same description gives the same class object throughout a process.

The verdict comes from the property text, by type IDENTITY throughout (nothing here compares a class name): the result must hold
exactly the input blocks (class object, attributes through the public interface, wrapped blocks likewise) in THE stable
arrangement by (index of type(block) in the order or len(order), key of Entry / String / DuplicateBlockKeyBlock instances else
''), comment runs (instances of the library's two comment classes) glued to the block below them when preservation is on; the
input library holds the same objects, unchanged; output blocks equal the input blocks under Block.__eq__.  Libraries without
an instance of a user class are also compared with the model (op 50); the others are oracle-only."""
import itertools
import json

FIVE_NAMES = ["Entry", "String", "Preamble", "ExplicitComment", "ImplicitComment"]
OTHER_LIB_NAMES = ["ParsingFailedBlock", "DuplicateBlockKeyBlock", "Block", "MiddlewareErrorBlock", "DuplicateFieldKeyBlock"]
NEAR_NAMES = ["entry", "STRING", "Implicitcomment", "Entry_", "model.Entry"]
BASES = FIVE_NAMES + ["ParsingFailedBlock", "Block"]
MODULES = ["refs.blocks", "bibtexparser.model", "__main__"]
BASE_CODE = {"Entry": 0, "String": 1, "Preamble": 2, "ExplicitComment": 3, "ImplicitComment": 4, "ParsingFailedBlock": 5, "Block": 9}
# wire class codes (c16.CLASS_NAMES) of the ten library classes
LIB_CODE = {"Entry": 0, "String": 1, "Preamble": 2, "ExplicitComment": 3, "ImplicitComment": 4, "ParsingFailedBlock": 5,
            "MiddlewareErrorBlock": 6, "DuplicateBlockKeyBlock": 7, "DuplicateFieldKeyBlock": 8, "Block": 9}
# universe blocks (c16.make_block) that are plain instances of a library class
PLAIN_U = {0: [0, 1, 2, 11], 1: [3, 4], 2: [5], 3: [6], 4: [7], 5: [8], 6: [10], 8: [9]}
ENTRY_KEYS = {0: "b", 1: "a", 2: "", 11: "B"}
STRING_KEYS = {3: "a", 4: "b"}
USER = 100            # order code of the class classes[k]: USER + k


# ------------------------------------------------------------------------------------------------------------- generation
def spec(name, base, mod=0, nested=0, depth=0):
    return [name, base, mod, nested, depth]


def kind_of(sp):
    name, base = sp[0], sp[1]
    if name == base:
        return "same-name-as-base"
    if base == "Block":
        return "unrelated-block-class-named-like-a-library-class" if name in LIB_CODE else "unrelated-block-class-near-miss-name"
    if name in LIB_CODE:
        return "named-like-another-library-class"
    return "near-miss-name"


def rand_spec(rng):
    r = rng.random()
    if r < 0.4:
        base = rng.choice(BASES[:6])
        name = base
    elif r < 0.72:
        base = rng.choice(BASES[:6])
        name = rng.choice([n for n in FIVE_NAMES + OTHER_LIB_NAMES + FIVE_NAMES if n != base])
    elif r < 0.9:
        base = "Block"
        name = rng.choice(FIVE_NAMES + FIVE_NAMES + OTHER_LIB_NAMES)
    else:
        base = rng.choice(BASES)
        name = rng.choice(NEAR_NAMES)
    return spec(name, base, rng.choice([0, 0, 1, 1, 2]), 1 if rng.random() < 0.15 else 0, 1 if rng.random() < 0.15 else 0)


def fix_keys(seq, classes):
    """Give every item its key; two blocks may share a key only where the Library can wrap the later one (one of them plain, or
    classes of one family): siblings sharing a key are refused by Library.add, which is not C16's subject."""
    first = {}
    out = []
    for pos, it in enumerate(seq):
        u, k = it[0], it[1]
        key = it[2] if len(it) > 2 else None
        fam = None
        if k < 0:
            if u in ENTRY_KEYS:
                fam, key = "Entry", ENTRY_KEYS[u]
            elif u in STRING_KEYS:
                fam, key = "String", STRING_KEYS[u]
            holder = None
        else:
            base = classes[k][1]
            holder = tuple(classes[k][:4])
            if base == "Entry":
                fam = "Entry"
                key = ENTRY_KEYS[[0, 1, 2, 11][u % 4]] if key is None else key
            elif base == "String":
                fam = "String"
                key = STRING_KEYS[3 + (u + 1) % 2] if key is None else key
            else:
                key = None
        if fam is not None:
            slot = (fam, key)
            if slot in first and first[slot] is not None and holder is not None and first[slot] != holder:
                key = "k%d" % pos
                slot = (fam, key)
            first.setdefault(slot, holder)
        out.append([u, k, key])
    return out


def insert_at(rng, xs, x):
    xs = list(xs)
    xs.insert(rng.randint(0, len(xs)), x)
    return xs


def generate_names(rng, quick, maxlen, cases, rand_seq):
    """Appended after all older streams (their cases stay what they were)."""
    def add(stream, classes, seq, order, preserve, times=1, order_as=None):
        seen, o = set(), []
        for c in order:                       # an order names a class once
            if c not in seen:
                seen.add(c)
                o.append(c)
        cases.append({"stream": stream, "input": {"names": 1, "classes": [list(s) for s in classes], "seq": fix_keys(seq, classes),
                                                   "order": o, "order_as": order_as or rng.choice(["tuple", "list"]),
                                                   "preserve": bool(preserve), "times": times}})

    def other_u(avoid_codes):
        """A plain block of a class that is none of the given ones."""
        pool = [u for c, us in PLAIN_U.items() if c not in avoid_codes and c not in (3, 4) for u in us]
        return rng.choice(pool)

    def code_of_u(u):
        return [c for c, us in PLAIN_U.items() if u in us][0]

    plain_runs = [(), (), (6,), (7, 6)]

    # --- same name as the base: every way of listing base / namesake, around a block of another class
    same_specs = []
    for base in BASES[:6]:
        for mod in (0, 1):
            same_specs.append(spec(base, base, mod))
    same_specs += [spec("Entry", "Entry", 0, 1), spec("Entry", "Entry", 0, 0, 1), spec("String", "String", 2),
                   spec("ImplicitComment", "ImplicitComment", 1, 0, 1), spec("Preamble", "Preamble", 1, 1)]
    for sp in same_specs:
        base = sp[1]
        bc = BASE_CODE[base]
        classes = [sp] if not sp[4] else [sp, spec(sp[0], sp[1], sp[2], sp[3], 0)]
        is_comment_class = bc in (3, 4)
        modes = [[], [bc], [USER], [bc, USER], [USER, bc]]
        if sp[4]:
            modes += [[USER + 1], [USER + 1, USER], [USER, bc, USER + 1]]
        for mode in modes:
            for preserve in (0, 1):
                y = other_u({bc})
                yc = code_of_u(y)
                order = list(mode)
                order.insert(len(order) // 2 if len(order) != 1 else 1, yc)       # the other class between / after
                if rng.random() < 0.3:
                    order = insert_at(rng, order, rng.choice([c for c in range(10) if c not in order]))
                blocks = [[rng.choice(PLAIN_U[bc]), 0], [rng.choice(PLAIN_U[bc]), -1], [y, -1]]
                if sp[4] and rng.random() < 0.6:
                    blocks.append([rng.choice(PLAIN_U[bc]), 1])
                if base in ("Entry", "String") and rng.random() < 0.15:
                    blocks[1][0] = blocks[0][0]                                   # same key: the later one is wrapped
                perms = list(itertools.permutations(blocks))
                if not (is_comment_class and preserve):
                    perms = rng.sample(perms, 2)          # without glue the input order only matters for ties
                elif len(perms) > 6:
                    perms = rng.sample(perms, 6)
                for perm in perms:
                    seq = []
                    for it in perm:
                        if preserve and not is_comment_class and rng.random() < 0.4:
                            seq += [[c, -1] for c in rng.choice(plain_runs)]
                        seq.append(list(it))
                    add("names-same", classes, seq, order, preserve)

    # --- the name of ANOTHER library class (or a near miss), derived from a block class or from Block itself
    cross_specs = []
    for name in FIVE_NAMES:
        for base in BASES:
            if base != name and base != "ParsingFailedBlock":
                cross_specs.append(spec(name, base, rng.choice([0, 1]) if base != "Block" else rng.choice([0, 1, 1])))
    cross_specs += [spec("ParsingFailedBlock", "Entry", 0), spec("Block", "Preamble", 1), spec("DuplicateBlockKeyBlock", "String", 0),
                    spec("Entry", "ParsingFailedBlock", 1), spec("MiddlewareErrorBlock", "Block", 1), spec("ImplicitComment", "ParsingFailedBlock", 0),
                    spec("DuplicateFieldKeyBlock", "ExplicitComment", 0), spec("entry", "Entry", 0), spec("STRING", "Block", 1),
                    spec("Implicitcomment", "ImplicitComment", 1), spec("model.Entry", "Entry", 1), spec("Entry", "String", 0, 1),
                    spec("ExplicitComment", "Block", 1, 0, 1)]
    for sp in cross_specs:
        name, base = sp[0], sp[1]
        bc = BASE_CODE[base]
        tc = LIB_CODE.get(name)
        classes = [sp] if not sp[4] else [sp, spec(sp[0], sp[1], sp[2], sp[3], 0)]
        comment_involved = bc in (3, 4) or tc in (3, 4)
        modes = [[], [USER]]
        for c in ([tc] if tc is not None else []) + ([bc] if bc != tc else []):
            modes += [[c], [USER, c], [c, USER]]
        if tc is not None and bc != tc:
            modes += [[tc, bc], [bc, USER, tc]]
        for mode in modes:
            for preserve in ((0, 1) if comment_involved else (rng.randint(0, 1),)):
                avoid = {bc, tc}
                y = other_u(avoid)
                order = insert_at(rng, mode, code_of_u(y))
                if rng.random() < 0.3:
                    order = insert_at(rng, order, rng.choice([c for c in range(10) if c not in order]))
                blocks = [[rng.randrange(4), 0], [y, -1]]
                if tc in PLAIN_U:
                    blocks.append([rng.choice(PLAIN_U[tc]), -1])               # a plain block of the name twin
                if bc in PLAIN_U and bc != tc:
                    blocks.append([rng.choice(PLAIN_U[bc]), -1])               # a plain block of the base
                if sp[4]:
                    blocks.append([rng.randrange(4), 1])
                if rng.random() < 0.25:
                    blocks.append([rng.randrange(4), 0])
                rng.shuffle(blocks)
                seq = []
                for it in blocks:
                    if preserve and rng.random() < 0.3:
                        seq += [[c, -1] for c in rng.choice(plain_runs)]
                    seq.append(list(it))
                add("names-cross", classes, seq, order, preserve)

    # --- comment runs: what IS a comment is decided by the class, not by its name
    is_c = [spec("ImplicitComment", "ImplicitComment", 1), spec("ExplicitComment", "ExplicitComment", 0), spec("Entry", "ImplicitComment", 0),
            spec("Preamble", "ExplicitComment", 1), spec("Block", "ImplicitComment", 1), spec("ExplicitComment", "ImplicitComment", 0),
            spec("ImplicitComment", "ExplicitComment", 1), spec("String", "ExplicitComment", 0)]
    not_c = [spec("ImplicitComment", "Entry", 0), spec("ExplicitComment", "Preamble", 1), spec("ImplicitComment", "Block", 1),
             spec("ExplicitComment", "Block", 0), spec("ExplicitComment", "String", 1), spec("ImplicitComment", "ParsingFailedBlock", 0),
             spec("Entry", "Entry", 1), spec("Preamble", "Preamble", 0)]
    n_c = 260 if quick else 9000
    for _ in range(n_c):
        classes = [rng.choice(is_c), rng.choice(not_c)]
        if rng.random() < 0.4:
            classes.append(rng.choice(is_c + not_c))
            if classes[2] in classes[:2]:
                classes.pop()
        comment_ks = [k for k, s in enumerate(classes) if BASE_CODE[s[1]] in (3, 4)]
        main_ks = [k for k, s in enumerate(classes) if BASE_CODE[s[1]] not in (3, 4)]
        seq = []
        for _ in range(rng.randint(1, 3)):
            for _ in range(rng.choice([0, 1, 1, 2])):
                seq.append([rng.randrange(4), rng.choice(comment_ks)] if rng.random() < 0.6 else [rng.choice((6, 7)), -1])
            seq.append([rng.randrange(4), rng.choice(main_ks)] if rng.random() < 0.5 else [rng.choice([0, 1, 3, 5, 8, 2]), -1])
        if rng.random() < 0.5:
            for _ in range(rng.randint(1, 2)):
                seq.append([rng.randrange(4), rng.choice(comment_ks)] if rng.random() < 0.7 else [rng.choice((6, 7)), -1])
        seq = seq[:maxlen + 2]
        add("names-comment-runs", classes, seq, rand_order(rng, classes), 1 if rng.random() < 0.85 else 0, times=rng.choice([1, 1, 1, 2]))

    # --- sampled: one to three classes from the whole space, some / most / all blocks their instances
    n_s = 800 if quick else 36000
    for _ in range(n_s):
        classes = []
        for _ in range(rng.choice([1, 1, 2, 2, 3])):
            sp = rand_spec(rng)
            if sp not in classes:
                classes.append(sp)
            if sp[4] and rng.random() < 0.7 and spec(*sp[:4]) not in classes:
                classes.append(spec(*sp[:4]))
        p = rng.choice([0.3, 0.3, 0.6, 1.0])
        seq = []
        for u in rand_seq(rng, maxlen + 1, 2):
            if rng.random() < p:
                k = rng.randrange(len(classes))
                if u in (6, 7) and rng.random() < 0.7:                      # keep the share of comments
                    ck = [j for j, s in enumerate(classes) if BASE_CODE[s[1]] in (3, 4)]
                    if not ck:
                        seq.append([u, -1])
                        continue
                    k = rng.choice(ck)
                seq.append([u, k])
            else:
                seq.append([u, -1])
        add("names-sampled", classes, seq, rand_order(rng, classes), rng.randint(0, 1), times=rng.choice([1, 1, 1, 2]))

    # --- plain libraries under orders that list such classes (the model follows)
    n_p = 160 if quick else 6000
    for _ in range(n_p):
        classes = [rand_spec(rng) for _ in range(rng.choice([1, 2, 2, 3]))]
        classes = [s for i, s in enumerate(classes) if s not in classes[:i]]
        order = rand_order(rng, classes, sure=True)
        add("names-plain", classes, [[u, -1] for u in rand_seq(rng, maxlen, 2)], order, rng.randint(0, 1), times=rng.choice([1, 1, 2]))


def rand_order(rng, classes, sure=False):
    """For every class: itself / its base / the library class of its name, each listed or not, in any relative order; other
    library classes in between; sometimes cut short."""
    codes = []
    for k, sp in enumerate(classes):
        cand = [USER + k, BASE_CODE[sp[1]]]
        if sp[0] in LIB_CODE:
            cand.append(LIB_CODE[sp[0]])
        m = rng.randrange(6)
        if m == 0:
            pick = []
        elif m == 1:
            pick = [cand[0]]
        elif m == 2:
            pick = [rng.choice(cand[1:])]
        else:
            pick = [c for c in cand if rng.random() < 0.75]
        if sure and USER + k not in pick and rng.random() < 0.8:
            pick.append(USER + k)
        codes += pick
    for _ in range(rng.choice([0, 1, 2, 3])):
        codes.append(rng.randrange(10))
    rng.shuffle(codes)
    if rng.random() < 0.2:
        codes = codes[:rng.randint(0, len(codes))]
    return codes


def shrink_names(case):
    inp = case["input"]
    out = []

    def mk(**kw):
        d = dict(inp)
        d.update(kw)
        out.append({"stream": "shrink", "input": d})
    seq, order = inp["seq"], inp["order"]
    for i in range(len(seq)):
        mk(seq=seq[:i] + seq[i + 1:])
    for i in range(len(order)):
        mk(order=order[:i] + order[i + 1:])
    for i, it in enumerate(seq):
        if it[1] >= 0 and inp["classes"][it[1]][1] not in ("Block",):
            # the plain block of the base instead of the instance (same key)
            base = inp["classes"][it[1]][1]
            us = PLAIN_U[BASE_CODE[base]]
            plain = [u for u in us if ENTRY_KEYS.get(u, STRING_KEYS.get(u)) == it[2]] if base in ("Entry", "String") else us
            if plain:
                mk(seq=seq[:i] + [[plain[0], -1, None]] + seq[i + 1:])
    if inp["times"] > 1:
        mk(times=1)
    if inp["order_as"] == "list":
        mk(order_as="tuple")
    return out


# ------------------------------------------------------------------------------------------------------ implementation side
_CLASSES = {}


def user_class(sp):
    """THE class object for a description (one per process), derived from the classes of the tree under test."""
    key = tuple(sp)
    if key not in _CLASSES:
        import bibtexparser.model as M
        name, base, mod, nested, depth = sp
        parent = user_class([name, base, mod, nested, depth - 1]) if depth else getattr(M, base)
        cls = type(name, (parent,), {"__module__": MODULES[mod], "__doc__": "A project's own block class."})
        cls.__qualname__ = ("Project." + name) if nested else name
        assert cls.__name__ == name and cls.__module__ == MODULES[mod] and cls is not parent
        _CLASSES[key] = cls
    return _CLASSES[key]


def build(it, uid, specs, ucls, M, base_mod):
    u, k, key = it
    if k < 0:
        return base_mod.make_block(u, uid)
    cls, b = ucls[k], specs[k][1]
    raw = "r%d" % uid
    if b == "Entry":
        return cls("article", key, [M.Field("t", "v%d" % uid, 1)], start_line=uid, raw=raw)
    if b == "String":
        return cls(key, "s%d" % uid, uid, raw)
    if b == "Preamble":
        return cls("p%d" % uid, uid, raw)
    if b == "ExplicitComment":
        return cls("ec%d" % uid, uid, raw)
    if b == "ImplicitComment":
        return cls("ic%d" % uid, uid, raw)
    if b == "ParsingFailedBlock":
        return cls(Exception("boom"), uid, raw)
    if b == "Block":
        return cls(uid, raw)
    raise ValueError(b)


def canon(v):
    return json.dumps(v, sort_keys=True)


class Judge:
    """The property text with the classes of one case.  Types are compared with ``is`` only."""

    def __init__(self, M, ucls, specs):
        self.M = M
        self.lib_types = [getattr(M, n) for n in LIB_CODE]
        self.labels = [(getattr(M, n), "model." + n) for n in LIB_CODE]
        self.labels += [(M.Field, "model.Field")]
        for k, (c, sp) in enumerate(zip(ucls, specs)):
            self.labels.append((c, "user%d:%s(%s)%s%s@%s" % (k, sp[0], sp[1], "/nested" if sp[3] else "", "/child" if sp[4] else "",
                                                            MODULES[sp[2]])))

    def label(self, t):
        for c, s in self.labels:
            if c is t:
                return s
        return "unexpected-class:%s.%s" % (getattr(t, "__module__", "?"), getattr(t, "__qualname__", "?"))

    def is_user(self, b):
        """Is b, or a block it wraps, an instance of a class that is not one of the library's own?"""
        if b is None:
            return False
        if not any(type(b) is t for t in self.lib_types):
            return True
        M = self.M
        if isinstance(b, M.ParsingFailedBlock):
            if self.is_user(b.ignore_error_block):
                return True
            if isinstance(b, M.DuplicateBlockKeyBlock) and self.is_user(b.previous_block):
                return True
        return False

    def is_comment(self, b):
        return isinstance(b, (self.M.ExplicitComment, self.M.ImplicitComment))

    def key_of(self, b):
        M = self.M
        return b.key if isinstance(b, (M.Entry, M.String, M.DuplicateBlockKeyBlock)) else ""

    def describe(self, b):
        """A block through the public interface, its class by identity."""
        M = self.M
        if b is None:
            return None
        d = {"class": self.label(type(b)), "start_line": b.start_line, "raw": b.raw,
             "metadata": sorted([repr(k), repr(v)] for k, v in b.parser_metadata.items())}
        if isinstance(b, M.Entry):
            d["entry_type"], d["key"] = b.entry_type, b.key
            d["fields"] = [[self.label(type(f)), f.key, repr(f.value), f.start_line] for f in b.fields]
        elif isinstance(b, M.String):
            d["key"], d["value"] = b.key, repr(b.value)
        elif isinstance(b, M.Preamble):
            d["value"] = repr(b.value)
        elif isinstance(b, (M.ExplicitComment, M.ImplicitComment)):
            d["comment"] = repr(b.comment)
        elif isinstance(b, M.ParsingFailedBlock):
            d["error"] = [type(b.error).__name__, [repr(a) for a in b.error.args]]
            d["wrapped"] = self.describe(b.ignore_error_block)
            if isinstance(b, M.DuplicateBlockKeyBlock):
                d["key"], d["previous"] = b.key, self.describe(b.previous_block)
            if isinstance(b, M.DuplicateFieldKeyBlock):
                d["duplicate_keys"] = sorted(b.duplicate_keys)
        return d

    def rank(self, types, b, by="identity"):
        t = type(b)
        for i, c in enumerate(types):
            if by == "identity":
                hit = c is t
            elif by == "name":
                hit = c.__name__ == t.__name__
            elif by == "module-and-qualname":
                hit = (c.__module__, c.__qualname__) == (t.__module__, t.__qualname__)
            else:
                hit = isinstance(b, c)
            if hit:
                return i
        return len(types)

    def arrangement(self, blocks, types, on, rank_by="identity", comments_by="identity", keys_by="identity"):
        """Positions of the input blocks in THE stable arrangement (it is unique).  The switches give what a tree would produce
        that looked at class names (or module + qualified name, or isinstance) instead: used for the distribution only."""
        def com(b):
            if comments_by == "identity":
                return self.is_comment(b)
            return type(b).__name__ in ("ExplicitComment", "ImplicitComment")

        def key(b):
            if keys_by == "identity":
                return self.key_of(b)
            return getattr(b, "key", "") if type(b).__name__ in ("Entry", "String", "DuplicateBlockKeyBlock") else ""

        def sk(unit):
            main = blocks[unit[-1]]
            return (self.rank(types, main, rank_by), key(main))
        units, cur = [], []
        for i, b in enumerate(blocks):
            cur.append(i)
            if not (on and com(b)):
                units.append(cur)
                cur = []
        if cur:
            units.append(cur)
        return [i for u in sorted(units, key=sk) for i in u]

    def short(self, b):
        s = self.label(type(b))
        return "%s#%s" % (s.split("@")[0], b.start_line)

    def judge(self, objs, before, cur_blocks, out_blocks, types, on):
        """The property text on one application; '' if it holds."""
        M = self.M
        if len(cur_blocks) != len(objs) or any(x is not y for x, y in zip(cur_blocks, objs)):
            return "the block list of the input library was changed"
        for i, b in enumerate(objs):
            if canon(self.describe(b)) != before[i]:
                return "input block %d (%s) was modified" % (i, self.short(b))
        out = list(out_blocks)
        got = [canon(self.describe(b)) for b in out]
        arr = self.arrangement(objs, types, on)
        want = [before[i] for i in arr]
        show = "%r -> %r" % ([self.short(b) for b in objs], [self.short(b) for b in out])
        if sorted(got) != sorted(want):
            return "blocks lost, duplicated or altered (class, attributes): " + show
        if got != want:
            listed = [self.label(t).split("@")[0] for t in types]
            return "not the stable arrangement by (rank of the block's type in the order - unlisted last -, key)%s: order %r, %s, expected %r" % (
                " of blocks with their comment runs" if on else "", listed, show, [self.short(objs[i]) for i in arr])
        for p, i in enumerate(arr):
            g, w = out[p], objs[i]
            if type(g) is not type(w):
                return "output block %d (%s) is not of the class of the input block" % (p, self.short(g))
            if not isinstance(g, M.ParsingFailedBlock) and not (g == w and w == g):
                return "output block %d (%s) is not equal (Block.__eq__) to the input block" % (p, self.short(g))
        return ""


def impl_names(case):
    return _dedupe(_impl_names(case))


def _impl_names(case):
    import enc
    import implutil
    import bibtexparser.model as M
    from bibtexparser.library import Library
    from bibtexparser.middlewares import SortBlocksByTypeAndKeyMiddleware
    from . import c16 as base
    inp = case["input"]
    specs, order, preserve, times = inp["classes"], inp["order"], inp["preserve"], inp["times"]
    ucls = [user_class(s) for s in specs]
    J = Judge(M, ucls, specs)
    tags = []
    rec = {"sx_in": None, "sx_out": None, "key": json.dumps(inp, sort_keys=True), "nontrivial": len(inp["seq"]) >= 2, "tags": tags}
    given = [build(it, uid, specs, ucls, M, base) for uid, it in enumerate(inp["seq"])]
    made = implutil.guarded(lambda: Library(given))
    if made[0] == "exc":                     # the Library refuses these blocks (siblings sharing a key): not C16's subject
        tags.append("names:library-refused-the-blocks:" + made[2])
        rec["oracle"] = {"ok": True, "detail": ""}
        rec["summary"] = "Library raised " + made[2]
        return rec
    lib = made[1]
    on = bool(preserve)
    types = [getattr(M, base.CLASS_NAMES[c]) if c < USER else ucls[c - USER] for c in order]
    arg = tuple(types) if inp["order_as"] == "tuple" else list(types)
    n_user = sum(1 for b in lib.blocks if J.is_user(b))
    modelled = n_user == 0
    if modelled:
        rec["sx_in"] = [50, times, int(on), [c if c < USER else 20 + (c - USER) for c in order], [enc.enc_block(b) for b in lib.blocks]]
    # ---- what the case holds (distribution)
    tags.append("names:model-compared" if modelled else "names:oracle-only")
    tags.append("names:instances=" + ("none" if n_user == 0 else "all" if n_user == len(lib.blocks) else "some"))
    tags.append("names:order-as-" + inp["order_as"])
    present = [any(type(b) is c or (isinstance(b, M.ParsingFailedBlock) and (type(b.ignore_error_block) is c
                                                                                or type(getattr(b, "previous_block", None)) is c))
                   for b in lib.blocks) for c in ucls]
    for k, sp in enumerate(specs):
        listed_self = USER + k in order
        if not present[k] and not listed_self:
            continue
        kind = kind_of(sp)
        tags.append("names:class=" + kind)
        tags.append("names:class-name=" + sp[0])
        tags.append("names:class-base=" + sp[1])
        tags.append("names:class-module=" + ("reads-bibtexparser.model" if MODULES[sp[2]] == "bibtexparser.model" else MODULES[sp[2]]))
        if sp[3]:
            tags.append("names:class-nested-qualname")
        if sp[4]:
            tags.append("names:class-derived-from-a-user-class-of-the-same-name")
        marks = {USER + k: "itself", BASE_CODE[sp[1]]: "base"}
        if sp[0] in LIB_CODE and LIB_CODE[sp[0]] != BASE_CODE[sp[1]]:
            marks[LIB_CODE[sp[0]]] = "name-twin"
        how = ">".join(marks[c] for c in order if c in marks) or "none-of-them"
        tags.append("names:%s:%s:order-lists=%s" % ("instance-present" if present[k] else "no-instance-present", kind, how))
    if any(type(b) is M.DuplicateBlockKeyBlock and J.is_user(b) for b in lib.blocks):
        tags.append("names:instance-wrapped-as-duplicate-key-block")
    mw = implutil.guarded(lambda: SortBlocksByTypeAndKeyMiddleware(block_type_order=arg, preserve_comments_on_top=preserve))
    if mw[0] == "exc":
        rec["sx_out"] = implutil.r_exc(mw[1]) if modelled else None
        rec["oracle"] = {"ok": False, "detail": "constructor raised %s for order %r given as %s" % (
            mw[2], [J.label(t) for t in types], inp["order_as"])}
        rec["summary"] = "constructor raised " + mw[2]
        return rec
    mw = mw[1]
    complaints = []
    cur = lib
    for t in range(times):
        objs = list(cur.blocks)
        before = [canon(J.describe(b)) for b in objs]
        r = implutil.guarded(lambda: mw.transform(cur))
        if r[0] == "exc":
            rec["sx_out"] = implutil.r_exc(r[1]) if modelled else None
            rec["oracle"] = {"ok": False, "detail": "transform raised %s" % r[2]}
            rec["summary"] = "raised " + r[2]
            return rec
        out = r[1]
        if out is cur:
            complaints.append("the input library object was returned")
        if not hasattr(out, "blocks"):
            complaints.append("the result is no library: %s" % type(out).__name__)
            break
        c = J.judge(objs, before, cur.blocks, out.blocks, types, on)
        if c:
            complaints.append(("pass %d: " % (t + 1) if times > 1 else "") + c)
        if t == 0:
            right = J.arrangement(objs, types, on)
            if right != list(range(len(objs))):
                tags.append("names:sorting-moves-a-block")
            if J.arrangement(objs, types, on, rank_by="name") != right:
                tags.append("names:decided-by-type-identity-where-names-coincide")
            if J.arrangement(objs, types, on, rank_by="module-and-qualname") != right:
                tags.append("names:decided-by-type-identity-where-module-and-qualified-name-coincide")
            if J.arrangement(objs, types, on, rank_by="isinstance") != right:
                tags.append("names:decided-by-exact-type-not-isinstance")
            if on and J.arrangement(objs, types, on, comments_by="name") != right:
                tags.append("names:decided-by-what-is-a-comment-by-class-not-name")
            if J.arrangement(objs, types, on, keys_by="name") != right:
                tags.append("names:decided-by-what-has-a-key-by-class-not-name")
        cur = out
    if modelled:
        try:
            rec["sx_out"] = implutil.r_ok([enc.enc_block(b) for b in cur.blocks])
        except Exception:  # noqa: BLE001 - the result holds something the input did not (the oracle has said what)
            rec["sx_in"] = None
    rec["oracle"] = {"ok": not complaints, "detail": "; ".join(complaints)[:900]}
    rec["summary"] = repr([J.short(b) for b in cur.blocks])[:240]
    tags.append("len=%d" % len(inp["seq"]))
    tags.append("preserve" if on else "no-preserve")
    tags.append("order-len=%d" % len(order))
    if any(type(b) is M.DuplicateBlockKeyBlock for b in lib.blocks):
        tags.append("has-duplicate-key-block")
    return rec


def _dedupe(rec):
    rec["tags"] = sorted(set(rec["tags"]), key=rec["tags"].index)
    return rec
