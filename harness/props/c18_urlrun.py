"""C18, streams `urlrun` / `urlrun-rules`: texts whose ENCODED form puts several brace groups on one blank-free run.

The encoder wraps a URL into \\url{...}; the URL ends at the first character Python's `\\s` calls white space.  When that
character is one whose encoding is NOT a blank (NO-BREAK SPACE -> `~`, EN SPACE -> `{\\enskip}`), or when no such character
follows at all (a punctuation mark, a closing bracket, a zero-width space, a soft hyphen: they and everything up to the next
blank are swallowed into the argument), the encoded value carries `\\url{...}` and the markup of the following text
(`{\\ss}`, `\\{`, `{\\textasciitilde}`, a second `\\url{...}`) on ONE run without a blank.  Seeding round 12: a well-meant
decoder fix read "the argument of \\url" up to the LAST closing brace of such a run and rewrote the tie in between.

Every text is a sequence  [prefix] URL SEP TAIL ...  drawn from fixed ordered pools:

    URL    http:// https:// ftp:// www. ; bare host, path, `_ #` in the path, and `% ~ &` in the path (the latter are known
           finding K6 when the URL is wrapped, i.e. not for ftp:// and not under enclose_urls=False)
    SEP    nbsp | space-with-markup (U+2002 ...: Unicode white space whose encoding is markup; kept only where pristine
           pylatexenc round-trips the text) | space-kept (U+202F, U+1680, U+3000 ...: white space that the encoder passes
           through: the run ends there - contrast) | invisible (zero-width space / joiners, word joiner, BOM, soft hyphen:
           NOT white space, the URL match goes on) | punct | closing (brackets) | quote
    TAIL   brace-letter (sharp s, o-slash, L-stroke, ae, A-ring, dotless i: `{\\ss}` ...) | accent (\\'e, \\r{A} ...) |
           literal-brace | tex-special (& % # _ ~ backslash) | second-url | math (ONE span) | plain | empty | mixed (two or
           three of them and single specials glued) | pair (one TeX special glued to one piece of text whose encoding has
           braces, both ways round, bounded-exhaustive behind NBSP and EN SPACE)

in the layouts of LAYOUTS (URL at the very start / at the very end / inside parentheses, brackets, quotes / between words /
several URLs separated by SEP / two such runs in one value / doubled SEP).  The verdict is the property's round trip
decode(encode(t)) == t on a field value, a NameParts word and an @string value (kind `roundtrip` of c18.py, default
converters; one case in five under another encoder option set), and for `urlrun-rules` additionally the comparison of the
encoder's output with Model/LatexRules.v (kind `rules`).  Characters beyond the alphabet the property names are demanded
only where pristine pylatexenc round-trips the text (convention of the `sparse` stream's set `wide`)."""
import re

from props import charclasses as CC

NBSP = "\xa0"
SCHEMES = ["http://", "https://", "ftp://", "www."]
HOSTS = ["a.org", "x.y.de", "ex.com", "a.b"]
PATHS_PLAIN = ["", "/x", "/p/q.html", "/x-y?z=1", "/"]
PATHS_USCORE = ["/paper_1#sec", "/a_b", "/#top", "/x_y_z", "/a#b#c"]
PATHS_SPECIAL = ["/c%20d", "/~u", "/?a=1&b=2", "/~u/x%7Ey&z", "/50%"]

# white space (str.isspace) whose pristine encoding is markup or a macro, not a blank: EN QUAD .. HAIR SPACE, MEDIUM
# MATHEMATICAL SPACE (most of them come back as an ASCII blank from pristine pylatexenc: those texts are excluded at run time)
SPACE_MARKUP = ["\u2002", "\u2003", "\u2009", "\u2004", "\u2005", "\u2006", "\u2007", "\u2008", "\u200a", "\u2000", "\u2001", "\u205f"]
# white space that the encoder hands through as it is (the blank-free run ends there): NARROW NO-BREAK SPACE, OGHAM SPACE
# MARK, IDEOGRAPHIC SPACE, NEXT LINE, UNIT SEPARATOR, LINE SEPARATOR
SPACE_KEPT = ["\u202f", "\u1680", "\u3000", "\x85", "\x1f", "\u2028"]
# not white space: ZERO WIDTH SPACE / NON-JOINER / JOINER, WORD JOINER, BOM, SOFT HYPHEN, LEFT-TO-RIGHT MARK, INVISIBLE SEPARATOR
INVISIBLE = list(CC.INVISIBLE_NOT_SPACE[:6]) + ["\u200e", "\u2063"]
PUNCT_SEPS = [",", ";", ".", ":", "!", "?", "*", "+", "=", "|", "@", "-", "/", "\u2026", "\u2013", "\u2014", "\xb7", "\u2022", "\xa7"]
CLOSING = [")", "]", "\xbb", ">", "\u27e9"]
QUOTES = ["'", "\u2019", "\u201d", "\u201c", "\u2018", "`"]
SEP_CLASSES = [("nbsp", [NBSP]), ("space-with-markup", SPACE_MARKUP), ("space-kept", SPACE_KEPT), ("invisible", INVISIBLE),
               ("punct", PUNCT_SEPS), ("closing", CLOSING), ("quote", QUOTES)]
SEP_CLASS_OF = {c: name for name, pool in SEP_CLASSES for c in pool}
# the separators every tail and layout meets in the quick tier
PRIMARY_SEPS = [NBSP, "\u2002", ")", ",", "\u200b", "\xad", "]", ".", "'", "\u2019"]
SECONDARY_SEPS = [c for _, pool in SEP_CLASSES for c in pool if c not in PRIMARY_SEPS]
# the property's alphabet: letters, digits, accented Latin letters, common punctuation, TeX specials (and the no-break space)
MAIN_ALPHABET_SEPS = set([NBSP] + list(",;:.!?()[]/*+=<>|@-'"))

BRACE_LETTERS = ["ß", "ø", "Ł", "æ", "Å", "ı", "Ø", "ł", "Æ", "œ", "å", "đ"]
TAILS = [("brace-letter", ["ß", "Straße", "ø", "Søren", "Łódź", "æ", "Ægir", "Å", "ı", "ła"]),
         ("accent", ["é", "café", "Über", "ångström", "čř", "ñ"]),
         ("literal-brace", ["{", "}", "{x}", "}{", "{mirror}", "a}b"]),
         ("tex-special", ["&", "R&D", "~", "a~b", "\\", "a\\b", "50%", "#1", "x_y", "&c."]),
         ("second-url", None),
         ("math", ["$x_1$", "$\\alpha$", "$a+b$"]),
         ("plain", ["plain", "x", "2024"]),
         ("empty", [""]),
         ("mixed", None)]      # two or three tails of different classes glued: `50%ß`, `R&D{x}é`, `~Łódź}`
MIXABLE = ["brace-letter", "accent", "literal-brace", "tex-special", "plain", "second-url"]
MIX_ATOMS = ["&", "%", "#", "_", "~", "\\", "{", "}", NBSP, ",", ")", "(", "1", "x"]
TAIL_CLASSES = [name for name, _ in TAILS]
# tail class `pair` (bounded-exhaustive): one TeX special glued to one piece of text whose encoding has braces (None = a second URL)
PAIR_SEPS = [NBSP, "\u2002"]
PAIR_SPECIALS = ["&", "%", "#", "_", "~", "\\", "{", "}"]
PAIR_BRACED = ["\xdf", "\xc5", "{x}", "\u0131", "\xe9", None]

# U = a URL, S = the separator, T = the tail; everything else is literal
LAYOUTS = [("url-first", "UST"), ("url-last", "TSU"), ("url-between", "TSUST"), ("url-alone-then-sep", "US"),
           ("in-parentheses", "(U)ST"), ("all-in-parentheses", "(UST)"), ("in-brackets", "[U]ST"), ("in-quotes", "'U'ST"),
           ("in-typographic-quotes", "\u201cU\u201dST"), ("between-words", "see UST now"), ("glued-prefix", "cf.:UST"),
           ("two-urls", "USU"), ("three-urls", "USUSU"), ("two-urls-then-tail", "USUST"), ("two-runs", "UST UST"),
           ("doubled-sep", "USST"), ("tail-sep-tail", "USTST"), ("after-math", "$x_1$ at UST"), ("sentence-end", "At UST."),
           ("url-then-blank-tail", "U ST")]
LAYOUT_FMT = dict(LAYOUTS)
OPTS = [[None, None], [True, True], [True, False], [False, True], [False, False]]


def gen_url(rng, kind=None):
    """(URL, kind) with kind = plain | uscore | special (holds one of % ~ &)"""
    if kind is None:
        kind = rng.choice(["plain", "plain", "uscore", "uscore", "special"])
    path = rng.choice({"plain": PATHS_PLAIN, "uscore": PATHS_USCORE, "special": PATHS_SPECIAL}[kind])
    return rng.choice(SCHEMES) + rng.choice(HOSTS) + path, kind


def gen_tail(rng, cls, accented):
    pool = dict(TAILS)[cls]
    if cls == "mixed":
        k = rng.choice([2, 2, 3])
        parts = rng.sample(MIXABLE[:5], k)
        if rng.random() < 0.15:
            parts[-1] = "second-url"
        out = [gen_tail(rng, c, accented) for c in parts]
        for _ in range(rng.choice([0, 1, 2])):
            out.insert(rng.randint(0, len(out)), rng.choice(MIX_ATOMS))
        return "".join(out)
    if cls == "second-url":
        return gen_url(rng, rng.choice(["plain", "uscore", "uscore", "special"]))[0]
    if cls in ("brace-letter", "accent") and rng.random() < 0.4:
        letters = BRACE_LETTERS if cls == "brace-letter" else accented
        w = "".join(rng.choice(letters if rng.random() < 0.6 else "abcxyzST") for _ in range(rng.randint(1, 5)))
        return w if any(c in letters for c in w) else w + rng.choice(letters)
    return rng.choice(pool)


def build(rng, layout, sep, tail_cls, accented, url_kind=None, tail_text=None):
    """one text of the class and its description (for the distribution)"""
    fmt = LAYOUT_FMT[layout]
    urls, tails = [], []
    out = ""
    for ch in fmt:
        if ch == "U":
            u, k = gen_url(rng, url_kind)
            urls.append((u, k))
            out += u
        elif ch == "S":
            out += sep
        elif ch == "T":
            # ONE math span per value (several spans under keep_math are known finding K5, not this class)
            t = tail_text if tail_text is not None else \
                gen_tail(rng, "brace-letter" if tail_cls == "math" and "$" in fmt + out else tail_cls, accented)
            tails.append(t)
            out += t
        else:
            out += ch
    desc = {"layout": layout, "sep": "U+%04X" % ord(sep), "sep_class": SEP_CLASS_OF.get(sep, "other"), "tail": tail_cls,
            "schemes": sorted(set(next(s for s in SCHEMES if u.startswith(s)) for u, _ in urls)),
            "url_kinds": sorted(set(k for _, k in urls))}
    return out, desc


def beyond_alphabet(text, sep):
    """does the text hold a character beyond the alphabet the property names?  Such a text is demanded only where pristine
    pylatexenc round-trips it"""
    return sep not in MAIN_ALPHABET_SEPS or any(ord(c) > 0x17F for c in text)


def case(stream, kind, text, desc, opts, sep):
    inp = {"kind": kind, "text": text, "opts": opts, "urlrun": desc}
    if kind == "roundtrip":
        inp["words"] = True
        if beyond_alphabet(text, sep):
            inp["pristine"] = True
    return {"stream": stream, "input": inp}


def generate(rng, quick, accented, forbidden):
    cases = []
    layouts = [name for name, _ in LAYOUTS]
    n = [0]

    def add(stream, kind, layout, sep, tail_cls, url_kind=None, opts=None, tail_text=None):
        for _ in range(20):
            text, desc = build(rng, layout, sep, tail_cls, accented, url_kind, tail_text)
            if not any(f in text for f in forbidden):
                break
        else:
            return
        n[0] += 1
        if opts is None:
            opts = OPTS[0] if n[0] % 5 else OPTS[1 + (n[0] // 5) % 4]
        cases.append(case(stream, kind, text, desc, opts, sep))

    # (1) the no-break space: every tail class x every layout
    for layout in layouts:
        for tail_cls in TAIL_CLASSES:
            for rep in range(1 if quick else 6):
                add("urlrun", "roundtrip", layout, NBSP, tail_cls)
    # (1b) behind the two white-space characters whose encoding is markup (the URL ends, the run goes on): every TeX special glued
    # to every kind of text whose encoding has braces, both ways round (`%` + sharp s, A-ring + `&`, `{x}` + `~`, `#` + second URL)
    for sep in PAIR_SEPS:
        for x in PAIR_SPECIALS:
            for y in PAIR_BRACED:
                for order in (0, 1):
                    y2 = gen_url(rng, "uscore")[0] if y is None else y
                    for layout in (["url-first"] if quick else ["url-first", "url-between", "in-parentheses", "two-urls-then-tail", "two-runs"]):
                        add("urlrun", "roundtrip", layout, sep, "pair", tail_text=(x + y2 if order == 0 else y2 + x))
    # (2) the other primary separators: every tail class, layouts rotating (thorough: every layout)
    off = rng.randrange(len(layouts))
    for i, sep in enumerate(PRIMARY_SEPS[1:]):
        for j, tail_cls in enumerate(TAIL_CLASSES):
            ls = [layouts[(off + i * 5 + j * 3 + k * 7) % len(layouts)] for k in range(4)] if quick else layouts
            for layout in ls:
                add("urlrun", "roundtrip", layout, sep, tail_cls)
    # (3) every other separator: tail classes and layouts rotating
    for i, sep in enumerate(SECONDARY_SEPS):
        for k in range(6 if quick else 40):
            add("urlrun", "roundtrip", layouts[(off + i + k * 3) % len(layouts)] if k else "url-first", sep,
                TAIL_CLASSES[(i + k) % len(TAIL_CLASSES)])
    # (4) URLs that themselves hold % ~ & (K6 when wrapped; not for ftp://, not under enclose_urls=False) and URLs that do not
    for kind in ("special", "uscore", "plain"):
        for sep in PRIMARY_SEPS[:4]:
            for tail_cls in TAIL_CLASSES:
                add("urlrun", "roundtrip", rng.choice(layouts[:4]), sep, tail_cls, url_kind=kind, opts=OPTS[0])
    # (5) random members of the class
    for _ in range(450 if quick else 15000):
        sep = rng.choice(PRIMARY_SEPS if rng.random() < 0.7 else SECONDARY_SEPS)
        if rng.random() < 0.35:
            sep = NBSP
        add("urlrun", "roundtrip", rng.choice(layouts), sep, rng.choice(TAIL_CLASSES))
    # (6) the same class against the model of the encoder rules (Model/LatexRules.v) with the round-trip verdict on the field
    for sep in [NBSP, "\u2002", ")", ",", "\u200b", "\xad", "\u202f"]:
        for tail_cls in TAIL_CLASSES:
            for layout in (["url-first", layouts[(off + len(cases)) % len(layouts)]] if quick else layouts):
                add("urlrun-rules", "rules", layout, sep, tail_cls)
    for _ in range(150 if quick else 5000):
        add("urlrun-rules", "rules", rng.choice(layouts), rng.choice(PRIMARY_SEPS + SECONDARY_SEPS[:8]) if rng.random() < 0.6 else NBSP,
            rng.choice(TAIL_CLASSES))
    return cases


_RUN = re.compile(r"\S+")


def groups_on_one_run(encoded):
    """largest number of brace groups (closing braces that are not escaped) on one blank-free run of the ENCODED text"""
    best = 0
    for m in _RUN.finditer(encoded or ""):
        best = max(best, len(re.findall(r"(?<!\\)\}", m.group())))
    return best


def tags(desc, encoded, ok, known, known_if_failed):
    g = groups_on_one_run(encoded) if isinstance(encoded, str) else None
    out = ["urlrun:layout:" + desc["layout"], "urlrun:sep:" + desc["sep_class"], "urlrun:tail:" + desc["tail"]]
    out += ["urlrun:scheme:" + s for s in desc["schemes"]] + ["urlrun:url:" + k for k in desc["url_kinds"]]
    if g is not None:
        out.append("urlrun:encoded-brace-groups-on-one-run:" + (str(g) if g < 4 else "4+"))
        out.append("urlrun:encoded:" + ("url-wrapped" if "\\url{" in encoded else "no-url-wrapped"))
    if ok:
        out.append("urlrun:ok")
        if known_if_failed:
            # a text of a known class that the library handles correctly: the class is wider than the failing set THERE
            out.append("urlrun:ok-although-of-class:" + known_if_failed)
    else:
        out.append("urlrun-fail:" + (known or "UNKNOWN"))
    return out
