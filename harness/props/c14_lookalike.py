"""C14, streams lookalike-*: NAME WORDS THAT LOOK LIKE BIBTEX SYNTAX, INSIDE BRACES WHERE IT IS PROTECTED.

A braced group is ONE name word (or a part of one) whatever it contains: `{Research @ {MIT}}`, `{Barnes and Noble}`, `{Smith, Inc.}`,
`{a = b}`, `{jan # x}`, `{say "x"}`, `{50% off}`, `{a~b}`, `{a--b}`, `{a<TAB>b}`, `{a  b}`.  Nothing in it is a separator, a block
start, a concatenation, a comment or a tie for the name functions; the merge functions put the words back as they are.  So the
inverse law of C14 speaks about names with such words, and it demands that whatever stands inside braces comes back CHARACTER FOR
CHARACTER: merged and split again, the persons and parts must be exactly the same strings.  A change that "defuses", "escapes",
"normalises" or "protects" something that looks like BibTeX syntax in the MERGED text without regard to brace depth (a blank between
`@word` and `{` replaced by a tie, double blanks collapsed, a tie turned into a blank, ` and ` braced once more, a comma / quote /
percent sign escaped ...) breaks the law on legal values which no token alphabet of the other streams produces.

Generated here (fixed ordered pools, combined with the check's PRNG only):
    inner texts     per KIND of look-alike (INNER): `@word {` in all its spellings (`@word {`, `@w{x}`, `@ {`, `@<TAB>{x}`, two blanks,
                    no blank, near misses), ` = `, ` # `, commas, double quotes, `%`, ` and `, `~`, `--`, tabs, two blanks in a row, blanks
                    at the edges, line breaks
    words           the inner text in braces: `{i}`, glued to letters before / after (`X{i}`, `{i}x`, `x{i}`: a lower-case word, i.e. a
                    von word), nested (`{{i}}`, `{a {i} b}`)
    persons         the word alone and as a word of the first / von / last / jr part (TEMPLATES, all three comma forms, several such words
                    in one name), the words of the name separated by blanks, ties, tabs, double blanks, line breaks
    depth 0         the same look-alikes BETWEEN the words where that is legal (D0): `@home`, `@`, `=`, `#`, `%`, `"`, `--` as words of a
                    name, and `@word {x}` / `@word~{x}` as two words
    values          lists of 1..4 persons with such a person as the only / last / first / middle one, several of them, the same one twice
    levels          person (op 86) and list (op 87): the FUNCTION pair, last-name-first, compared with the model;
                    fnpair (this file, oracle only): the function pair in BOTH merge styles;
                    mwpair (c14_magic.impl, oracle only): the MIDDLEWARE pair through Middleware.transform in both merge styles, and
                    parse_string / write_string with MergeNameParts(style="first");
                    stack (op 91): the whole stack in the default style, compared with the model - for the values that can be written
                    to a file at all: a value (or its last-name-first text) with a block-start pattern `@word {` anywhere cannot (known
                    findings K2 / K11: the splitter does not look at brace depth), those go through the other four levels only.

Verdicts: as everywhere in C14 - for admissible persons (valid, non-empty last name, no word ending in an odd number of backslashes)
the last-name-first merge must re-split into exactly the same persons and parts (known class K3 by nc.in_k3); the first-name-first
merge where the independent references read the first-name-first texts, joined by ` and `, as these very persons (c14_magic.
first_style_applies).
"""
import json

from props import names_common as nc
from props import c14_magic

NF = ("author", "editor", "translator")

# ------------------------------------------------------------------ the look-alikes, by kind (what stands INSIDE the braces)
INNER = [
    ("at_word_brace", ["Research @ {MIT}", "Ops @lab {Z}urich", "@misc {x}", "@article {k, a = {b}}", "@ {}", "@ {x}", "a @ {b} c", "@\t{x}",
                       "@w\t{x}", "@  {x}", "@w \t {x}", "x @lab2 {Y}", "@ {a} @ {b}", "@_ {x}", "@string {s = {t}}", "@comment {x}", "@été {x}",
                       "a@ {b}"]),
    ("at_word_glued", ["@w{x}", "user@{h}ost", "@{x}", "@article{k, a = {b}}", "@misc{}", "a@b{c}"]),
    ("at_near_miss", ["@", "a @ b", "@w", "@w x", "@w~{x}", "@w\n{x}", "user@host.org", "@ ", " @", "@@ {x}"]),
    ("equals", ["a = b", "key = {v}", "a=b", "=", " = ", "a = \"b\""]),
    ("hash", ["a # b", "jan # {x}", "#", "a#b", " # "]),
    ("comma", ["a, b", "a,b", ",", "a ,b", "a, b, c, d", "Inc., The", ", ", ",,"]),
    ("quote", ["a \"b\" c", "\"", "say \"x", "\"\"", "\"{x}\"", "\" and \""]),
    ("percent", ["50% off", "% x", "a%b", "%", "a % b"]),
    ("and", ["Barnes and Noble", "and", " and ", "a AND b", "and others", "A and B and C", "a\tand\tb", "and "]),
    ("tie", ["a~b", "~", "a~ b", "~a", "a~", "a~~b"]),
    ("dashes", ["a--b", "a -- b", "---", "--", "pp. 1--2"]),
    ("tab", ["a\tb", "\t", "a \tb", "\ta", "a\t"]),
    ("blanks", ["a  b", "  ", " a", "a ", "a   b", " a  b ", " "]),
    ("linebreak", ["a\nb", "a \n b"]),
]
# word shapes around an inner text
SHAPES = [("braced", "{%s}"), ("upper_glued", "X{%s}"), ("glued_after", "{%s}x"), ("nested", "{{%s}}"), ("lower_glued", "x{%s}"),
          ("nested_context", "{a {%s} b}")]

# ------------------------------------------------------------------ the same look-alikes at depth 0, between the words of a name
D0 = [
    ("at_depth0", ["@home", "@", "a@b", "@w", "Bob@", "@Home"]),
    ("at_brace_depth0", ["@misc {x}", "@ {MIT}", "@\t{x}", "@misc~{x}", "@lab  {Z}urich", "@{x}", "@Misc {x}"]),
    ("equals_depth0", ["=", "a=b", "= ="]),
    ("hash_depth0", ["#", "a#b"]),
    ("percent_depth0", ["%", "50%", "%x"]),
    ("quote_depth0", ["\"", "\"Q\"", "\"a b\""]),
    ("dashes_depth0", ["--", "a--b", "---", "-"]),
]

SEP = "\x00"        # a separator between two words of a template, drawn per occurrence
SEPS = [" "] * 8 + ["~", "  ", "\t", "\n", " ~", "~ "]
# the word w in every part of a name, all three comma forms (what part it really is in: role_of, by the independent name rules)
TEMPLATES = [
    ("alone", ["%(w)s"]),
    ("first", ["%(w)s\x00Knuth", "Knuth,\x00%(w)s", "%(w)s\x00E.\x00Knuth", "Donald\x00%(w)s\x00Knuth", "Knuth,\x00Donald\x00%(w)s", "Knuth,\x00Jr,\x00%(w)s"]),
    ("last", ["Donald\x00%(w)s", "%(w)s,\x00Donald", "Donald\x00E.\x00%(w)s", "de\x00%(w)s,\x00D.", "Donald\x00de\x00%(w)s", "%(w)s\x00Knuth,\x00Donald",
              "Knuth\x00%(w)s,\x00Donald", "%(w)s,\x00Jr,\x00Donald"]),
    ("von", ["Donald\x00de\x00%(w)s\x00la\x00Knuth", "de\x00%(w)s\x00la\x00Knuth,\x00Donald", "de\x00%(w)s\x00la\x00Knuth,\x00Jr,\x00Donald", "x%(w)s\x00Knuth,\x00Donald",
             "Donald\x00x%(w)s\x00Knuth"]),
    ("jr", ["Knuth,\x00%(w)s,\x00Donald", "Knuth,\x00Jr\x00%(w)s,\x00Donald", "de\x00Knuth,\x00%(w)s\x00III,\x00D.", "Knuth,\x00%(w)s\x00%(w)s,\x00Donald"]),
    ("several", ["%(w)s\x00%(w)s", "%(w)s,\x00%(w)s,\x00%(w)s", "%(w)s\x00de\x00%(w)s,\x00%(w)s", "%(w)s\x00%(v)s\x00Knuth", "%(v)s\x00de\x00%(w)s", "%(w)s,\x00%(v)s"]),
]
KINDS = ["only", "last", "first", "middle", "all", "twice"]


def _fill(rng, template, w, v, plain_seps):
    s = template % {"w": w, "v": v}
    out = []
    for c in s:
        out.append((" " if plain_seps else rng.choice(SEPS)) if c == SEP else c)
    return "".join(out)


def role_of(name, needle):
    """the part(s) of the name in which a word containing `needle` stands, by the independent name rules (for the distribution only)"""
    d = nc.spec_parse(name)
    if d is None:
        return "invalid"
    if len(nc.all_words(d)) == 1:
        return "alone"
    parts = [p for p in ("first", "von", "last", "jr") if any(needle in w for w in d[p])]
    return parts[0] if len(parts) == 1 else "several" if parts else "split_over_words"


def writable(value):
    """the value can be written to a file and read back at all (generator side): braces balanced as the splitter counts them, no
    backslash, and no block-start pattern in the value or in the last-name-first text of its persons (K2 / K11)"""
    from props import c14
    if "\\" in value or not nc.balanced(value) or c14.K2_RE.search(value):
        return False
    ds = [nc.spec_parse(n) for n in nc.ref_split(value)]
    if any(d is None for d in ds):
        return False
    return not c14.K2_RE.search(" and ".join(c14_magic.merge_last(d) for d in ds))


def cases(rng, tier, good, ok):
    quick = tier == "quick"
    out = []
    inner = [(kind, i) for kind, xs in INNER for i in xs]
    d0 = [(kind, t) for kind, xs in D0 for t in xs]
    companions = [s for s in c14_magic.ORDINARY if ok(s)]
    seen_person = set()

    def word(i, shape=None):
        name, fmt = shape if shape is not None else (SHAPES[0] if rng.random() < 0.5 else rng.choice(SHAPES))
        return fmt % i

    def person(kind, i, w, bucket=None, template=None, plain=None):
        """(name, label) or None if the name is not admissible for the independent name rules"""
        if template is None:
            _, ts = TEMPLATES[bucket] if bucket is not None else rng.choice(TEMPLATES)
            template = rng.choice(ts)
        v = word(rng.choice(inner)[1]) if "%(v)s" in template else ""
        name = _fill(rng, template, w, v, rng.random() < 0.6 if plain is None else plain)
        if not ok(name):
            return None
        return name, "%s/%s" % (kind, role_of(name, i))

    def emit_person(p):
        name, label = p
        if name not in seen_person:
            seen_person.add(name)
            out.append({"stream": "lookalike-person", "input": {"level": "person", "s": name, "lookalike": label}})

    def companion():
        r = rng.random()
        return rng.choice(companions) if r < 0.6 else rng.choice(good) if r < 0.8 else None

    def any_person():
        for _ in range(20):
            if rng.random() < 0.85:
                kind, i = rng.choice(inner)
                p = person(kind, i, word(i))
            else:
                kind, t = rng.choice(d0)
                p = person(kind, t, t)
            if p is not None:
                return p
        return ("{a, b} Knuth", "comma/first")

    def comp():
        c = companion()
        return c if c is not None else any_person()[0]

    def value(pos, m, n):
        if pos == "only":
            ps = [m]
        elif pos == "last":
            ps = [comp() for _ in range(n - 1)] + [m]
        elif pos == "first":
            ps = [m] + [comp() for _ in range(n - 1)]
        elif pos == "middle":
            ps = [comp() for _ in range(n - 1)]
            ps.insert(rng.randint(1, n - 2), m)
        elif pos == "all":
            ps = [m] + [any_person()[0] for _ in range(n - 1)]
            rng.shuffle(ps)
        else:
            ps = [comp() for _ in range(n - 2)]
            for _ in range(2):
                ps.insert(rng.randint(0, len(ps)), m)
        v = ps[0]
        for p in ps[1:]:
            v += rng.choice(c14_magic.JOINS) + p
        return v

    def size(pos):
        return {"only": 1, "last": rng.randint(2, 4), "first": rng.randint(2, 4), "middle": rng.randint(3, 4), "all": rng.randint(2, 4),
                "twice": rng.randint(2, 4)}[pos]

    def emit_value(p, pos=None):
        name, label = p
        pos = pos or rng.choice(KINDS)
        v = value(pos, name, size(pos))
        tag = "%s/%s" % (label, pos)
        out.append({"stream": "lookalike-list", "input": {"level": "list", "s": v, "lookalike": tag}})
        out.append({"stream": "lookalike-fn", "input": {"level": "fnpair", "s": v, "lookalike": tag}})
        out.append({"stream": "lookalike-mw", "input": {"level": "mwpair", "field": rng.choice(NF), "s": v, "lookalike": tag}})
        if writable(v):
            fields = [[rng.choice(NF), v]]
            r = rng.random()
            if r < 0.15:
                fields.insert(rng.randint(0, 1), ["title", rng.choice(["A Title and More", "a = b # c, \"d\" 50% e~f -- g", "On {and}"])])
            elif r < 0.3:
                k2 = rng.choice([k for k in NF if k != fields[0][0]])
                v2 = value(rng.choice(KINDS[:3]), any_person()[0], rng.randint(2, 3))
                if writable(v2):
                    fields.insert(rng.randint(0, 1), [k2, v2])
            out.append({"stream": "lookalike-stack", "input": {"level": "stack", "fields": fields, "lookalike": tag}})

    # ---- persons: every inner text in the plain braced word in every template (single blanks), and every inner text in every
    # shape in some templates with the separators drawn; the depth-0 look-alikes in every template
    all_templates = [t for _, ts in TEMPLATES for t in ts]
    for kind, i in inner:
        for t in all_templates:
            p = person(kind, i, word(i, SHAPES[0]), template=t, plain=True)
            if p:
                emit_person(p)
    for kind, i in inner:
        for shape in SHAPES:
            for t in (all_templates if not quick else rng.sample(all_templates, 5)):
                p = person(kind, i, word(i, shape), template=t, plain=False)
                if p:
                    emit_person(p)
    for kind, t0 in d0:
        for t in all_templates:
            p = person(kind, t0, t0, template=t, plain=rng.random() < 0.7)
            if p:
                emit_person(p)
    # ---- the seed-independent core of the class on all levels: every inner text x every part of a person, position in the list
    # going round; every depth-0 look-alike in three parts
    k = 0
    for kind, i in inner:
        for b in range(len(TEMPLATES)):
            p = person(kind, i, word(i), bucket=b)
            if p:
                emit_value(p, KINDS[k % len(KINDS)])
                k += 1
    for kind, t0 in d0:
        for b in rng.sample(range(len(TEMPLATES)), 3):
            p = person(kind, t0, t0, bucket=b)
            if p:
                emit_value(p, KINDS[k % len(KINDS)])
                k += 1
    # the plainest members, as they are found in .bib files
    for v in ("{Research @ {MIT}}", "{Barnes and Noble}", "{Smith, Inc.} and Donald E. Knuth", "Donald E. Knuth and {Ops @lab {Z}urich}",
              "{AT{\\&}T Labs, Research} and {Bell = Labs}", "{The \"X\" Group} and {50% Club}", "{a~b} {c  d}, {e\tf}", "{Jan # Feb}, {1--2}, {x, y}"):
        if ok(v.split(" and ")[0]):
            for lv, extra in (("list", {"s": v}), ("fnpair", {"s": v}), ("mwpair", {"s": v, "field": "author"})):
                out.append({"stream": "lookalike-" + {"list": "list", "fnpair": "fn", "mwpair": "mw"}[lv], "input": dict({"level": lv, "lookalike": "fixed"}, **extra)})
    # ---- sampled: any look-alike person, any position, 1..4 persons, all levels
    for _ in range(1200 if quick else 30000):
        emit_value(any_person())
    return out


# ------------------------------------------------------------------ runner of level fnpair (oracle only): the FUNCTION pair, both styles
def impl(case):
    import implutil
    from bibtexparser.middlewares.names import (InvalidNameError, NameParts, parse_single_name_into_parts as pn,
                                                split_multiple_persons_names as sp)
    from props import c14
    v = case["input"]["s"]
    rec = {"sx_in": None, "sx_out": None, "key": "F" + json.dumps(v), "tags": ["fnpair"], "nontrivial": False}

    def parse_all(text):
        names = sp(text)
        try:
            return names, [nc.parts_dict(pn(n)) for n in names]
        except InvalidNameError as e:
            return names, "InvalidNameError: %s" % e

    def run():
        names, ds = parse_all(v)
        res = {"names": names, "ds": ds}
        if isinstance(ds, list):
            ps = [NameParts(first=list(d["first"]), von=list(d["von"]), last=list(d["last"]), jr=list(d["jr"])) for d in ds]
            res["text_last"] = " and ".join(p.merge_last_name_first for p in ps)
            res["again_last"] = parse_all(res["text_last"])
            res["text_first"] = " and ".join(p.merge_first_name_first for p in ps)
            res["again_first"] = parse_all(res["text_first"])
        return res
    g = implutil.guarded(run)
    if g[0] == "exc":
        rec["oracle"] = {"ok": False, "detail": "%s raised in the name functions on %r" % (g[2], v)}
        rec["nontrivial"] = True
        rec["summary"] = "raised " + g[2]
        return rec
    res = g[1]
    ds = res["ds"]
    if not isinstance(ds, list):
        rec["tags"].append("fnpair_invalid")
        rec["oracle"] = {"ok": True, "detail": "some name invalid: law not applicable"}
        rec["summary"] = "invalid"
        return rec
    rec["summary"] = repr((res["text_last"], res["text_first"]))[:200]
    if not all(c14.admissible(d) for d in ds):
        rec["tags"].append("fnpair_outside_premises")
        rec["oracle"] = {"ok": True, "detail": "outside the premises"}
        return rec
    rec["nontrivial"] = any(len(nc.all_words(d)) >= 2 for d in ds)
    rec["tags"] += ["fnpair_last_style_checked", "persons=%d" % len(ds)]
    verdict = None
    k3 = nc.in_k3(ds)
    if k3:
        rec["tags"].append("fnpair_in_K3_class")
    if res["again_last"][1] != ds:
        verdict = {"ok": False, "detail": "function pair, last-name-first: %r -> %r -> merged %r -> %r"
                   % (v, ds, res["text_last"], res["again_last"])}
        if k3:
            verdict["known"] = "K3"
    if verdict is None:
        if c14_magic.first_style_applies(ds):
            rec["tags"].append("fnpair_first_style_checked")
            if res["again_first"][1] != ds:
                verdict = {"ok": False, "detail": "function pair, first-name-first (these persons written first-name-first ARE these persons "
                           "for the name rules): %r -> %r -> merge_first_name_first joined by ' and ' %r -> %r"
                           % (v, ds, res["text_first"], res["again_first"])}
        else:
            rec["tags"].append("fnpair_first_style_no_inverse")
    rec["oracle"] = verdict or {"ok": True, "detail": ""}
    return rec
