"""C03 - block raw texts tile the source; line numbers are true."""
import gens_split as G
import splitcommon as SC
from props import c03_selfref as SELF

ENGINE = "split"
RULE = ("streams: T = all token sequences over the 14-token splitter alphabet up to length 4 (quick) / 5 (thorough) plus random "
        "longer ones; G = grammar derivations; M = mutations of G; U = arbitrary code points; S = size-scaled families; "
        "the library's own artefacts as input (props/c03_selfref.py): W = one target block of every kind (valid, aborting in the "
        "splitter, duplicate key, duplicate field) with the writer's warning comment for its own line count and the near misses "
        "(other counts, digit systems, case, blanks, doubled, bare template; default and custom templates) above / a blank line "
        "above / on the same line / after a remark / below / far from it; W-ctx = that text inside comments, values, macros, "
        "preambles, the target itself, the raw of a failed block; W-self = default separator / indent / VAL_SEP / reserved words "
        "as text; W-doc = documents of several such blocks; L = libraries built by constructor holding such text, written and "
        "read back; R = (parse -> write) x 2..4 + final parse under default and custom formats, empty and default stacks, "
        "EVERY parse judged by the oracle on the text it was given (with the empty and with the default parse stack), the model "
        "compared on the last text parsed. "
        "distinct = distinct input text; non-trivial = the parse yields at least two blocks or a failed block")
TRUSTED = ["oracle instance: str.lower restricted to ASCII for the @type text (other inputs skipped for the model comparison, "
           "still checked by the Python oracle)"]
ASSUMPTIONS = ["CPython's Unicode predicates (isspace, \\w) enter the model as per-character flags",
               "Python's re module implements the mark regex as the per-position classification of Model/Lexer.v (checked by the lexer correspondence, op 130)"]
CASE_TIMEOUT_S = 60


def generate(rng, tier):
    cases = []
    maxlen = 4 if tier == "quick" else 5
    for t in G.token_seqs(maxlen):
        cases.append({"stream": "T", "input": {"text": t}})
    n_long = 2000 if tier == "quick" else 60000
    for _ in range(n_long):
        cases.append({"stream": "T-long", "input": {"text": G.random_token_seq(rng, maxlen + 1, 14)}})
    n_g = 400 if tier == "quick" else 20000
    docs = []
    for _ in range(n_g):
        text, items = G.gen_doc(rng)
        docs.append(text)
        cases.append({"stream": "G", "input": {"text": text, "items": items}})
    n_m = 600 if tier == "quick" else 30000
    for _ in range(n_m):
        cases.append({"stream": "M", "input": {"text": G.mutate(rng, rng.choice(docs))}})
    n_u = 200 if tier == "quick" else 5000
    for _ in range(n_u):
        cases.append({"stream": "U", "input": {"text": G.garbage(rng)}})
    # E: edge characters in front of / behind documents, mutated documents and token sequences
    for _ in range(400 if tier == "quick" else 10000):
        r = rng.random()
        t = rng.choice(docs) if r < 0.4 else (G.mutate(rng, rng.choice(docs)) if r < 0.7 else G.random_token_seq(rng, 0, 6))
        cases.append({"stream": "E", "input": {"text": G.edge_wrap(rng, t)}})
    for name, text in G.scaled(tier):
        cases.append({"stream": "S", "input": {"text": text, "name": name}})
    # the library's own artefacts as input: appended after the older streams, which keep their inputs
    cases += SELF.generate(rng, tier)
    return cases


def _judge(text, lib, items=None):
    """the property statement on the blocks of one parse of `text` -> (ok, detail)"""
    ok, detail, offs = SC.tiles(text, lib.blocks)
    if ok:
        ok, detail = SC.true_lines(text, lib.blocks, offs)
    if ok:
        for b in lib.blocks:
            e = b if type(b).__name__ == "Entry" else getattr(b, "ignore_error_block", None)
            if e is not None and type(e).__name__ == "Entry":
                lo, hi = e.start_line, e.start_line + e.raw.count("\n")
                for f in e.fields:
                    if not (isinstance(f.start_line, int) and lo <= f.start_line <= hi):
                        ok, detail = False, "field %r line %r outside its entry's lines %d..%d" % (f.key, f.start_line, lo, hi)
    return ok, detail


def impl(case):
    if "cycles" in case["input"]:
        return SELF.impl_cycles(case, _judge)
    if "segs" in case["input"]:
        return SELF.impl_segs(case, _judge)
    text = case["input"]["text"]
    rec, r = SC.base_record(text)
    # lexer correspondence rides along on small inputs (op 130 has its own cases in C01)
    if r[0] == "exc":
        rec["oracle"] = {"ok": False, "detail": "parse raised " + r[2]}
        rec["nontrivial"] = True
        return rec
    lib = r[1]
    ok, detail, offs = SC.tiles(text, lib.blocks)
    if ok:
        ok, detail = SC.true_lines(text, lib.blocks, offs)
    if ok:
        # a field whose key and '=' share a line reports that line: checked exactly on grammar documents,
        # and as a range on everything else
        for b in lib.blocks:
            e = b if type(b).__name__ == "Entry" else getattr(b, "ignore_error_block", None)
            if e is not None and type(e).__name__ == "Entry":
                lo, hi = e.start_line, e.start_line + e.raw.count("\n")
                for f in e.fields:
                    if not (isinstance(f.start_line, int) and lo <= f.start_line <= hi):
                        ok, detail = False, "field %r line %r outside its entry's lines %d..%d" % (f.key, f.start_line, lo, hi)
        items = case["input"].get("items")
        if ok and items is not None and SC.doc_is_nodup(items):
            ents = [it for it in items if it["kind"] == "entry"]
            got = [b for b in lib.blocks if type(b).__name__ == "Entry"]
            if len(ents) == len(got):
                for it, b in zip(ents, got):
                    if [f.start_line for f in b.fields] != [f[2] for f in it["fields"]]:
                        ok, detail = False, "field lines %r != %r in %r" % ([f.start_line for f in b.fields], [f[2] for f in it["fields"]], it["raw"][:50])
    rec["oracle"] = {"ok": ok, "detail": detail}
    kinds = SC.block_kinds(lib)
    rec["nontrivial"] = len(kinds) >= 2 or any(k not in ("Entry", "String", "Preamble", "ExplicitComment", "ImplicitComment") for k in kinds)
    rec["key"] = text if len(text) < 200 else str(hash(text))
    rec["tags"] = sorted(set(kinds)) or ["empty"]
    return rec


def shrink(case):
    if "text" not in case["input"] or "cycles" in case["input"]:
        return SELF.shrink(case)
    return SC.shrink_text(case)
