"""C20, streams `wtarget` / `psource`: EVERY KIND OF TARGET write_file can be handed, every form of path parse_file / write_file can be given.

The property says `write_file writes exactly the text write_string returns, to a path or to a file object` and
`parse_file(path, encoding) equals parse_string of the file's decoded content`.  A "file object" is whatever takes `str` in
`write`: real files from open() in every writing mode / encoding / newline setting / buffering, io.TextIOWrapper over binary
streams, the tempfile wrappers (NamedTemporaryFile and SpooledTemporaryFile are NOT io.TextIOBase instances), codecs stream
writers, compressed text files, pipes and sockets, io.StringIO and subclasses, a pure-Python io.TextIOBase subclass, and
duck-typed objects that have nothing but write(str).  The object may have been written to before (the text goes to its
position).  A "path" is a str: relative, absolute, with blanks / non-ASCII / very long components, through symbolic links,
hard links, `..` and doubled slashes, a str subclass.

Verdict (from the property statement, nothing else):
  wtarget   the TWIN oracle: the same target is built a second time and handed the expected text (the manual composition of
            c20.py: prepend_middleware / default-or-given stack in order / writer) by ONE `twin.write(text)`; what arrives at
            both must be equal (bytes on disk after close for real files, the buffer's bytes, the concatenation of the str
            pieces for duck-typed objects - every piece must be a str), write_file must return None, and when the twin's
            write raises (a codec that cannot encode the text: the sink is the runtime's) write_file must raise the same class.
            For the kinds where it is a closed formula the twin itself is checked against
            `translate_newlines(pre + text + post).encode(encoding, errors)`.
            Where the sink's final content is `old ++ text` as a str (no seek, no trailer, identity newline translation) the case
            also goes to the model (op 73, file-object kind appends to `old`, path kind replaces); otherwise it is oracle-only
            (sx_in None, the convention of the stateful stream).
  psource   manual composition of c20.py on the runtime's decoding of the bytes (op 72 of the model: the path form is not part
            of the model, every case is comparable).
  outside   pathlib.Path / bytes / os.PathLike / int descriptors as path, binary or read-only or closed file objects, missing
            files: the property does not speak about them - what happens is RECORDED in the distribution, nothing is demanded.
"""
import json

UNIVERSAL = ["utf-8", "utf-16", "utf-8-sig", "utf-16-le", "utf-16-be", "utf-32"]
NARROW = ["latin-1", "gbk", "cp1252", "ascii"]
NEWLINES = [None, "", "\n", "\r\n", "\r"]
ERRORS = [None, None, None, "strict", "replace", "xmlcharrefreplace", "backslashreplace"]
EXISTING = "% existing content, longer than nothing at all\n@misc{old, t = {x}}\n" * 3
POST = "% written by the caller after write_file\n"
PRES = ["", "", "PRE\n", "% header\r\n", "@comment{written before}\n\n", "x"]

NAMES = ["out.bib", "my refs.bib", " lead.bib", "trail.bib ", "réfs-文献.bib", "x" * 200 + ".bib", "名" * 80 + ".bib", ".hidden",
         "UPPER.BIB", "noext", "a.b.c.bib", "new\nline.bib", "tab\there.bib", "quo'te\".bib", "per%cent$dollar.bib", "back\\slash.bib",
         "{brace}@.bib", "*glob?.bib", "#hash;semi&.bib", "é.bib", "\u202eRTL.bib", "emoji\U0001F600.bib", "-dash.bib", "~tilde.bib"]
FORMS = ["abs", "rel", "dotrel", "sub", "subrel", "dotdot", "dblslash", "deep", "uprel", "symlink_abs", "symlink_rel", "symlink_chain",
         "symlink_dir", "hardlink", "strsub"]
OUTSIDE_PATH = ["pathlib", "bytes", "pathlike", "fd", "missing", "directory"]

# file-object kinds; (kind, seekable-before-the-call, has a closed formula for the bytes)
FILE_KINDS = [("open_w", True, True), ("open_a", False, False), ("open_wplus", True, True), ("open_x", True, True), ("open_rplus", True, False),
              ("open_aplus", False, False), ("fd_open", False, True), ("tiow_bytesio", True, True), ("tiow_buffered", False, True),
              ("tiow_random", True, True), ("named_tmp", True, True), ("named_tmp_w", False, True), ("tmpfile", True, True),
              ("spooled_small", True, False), ("spooled_big", True, False), ("codecs_open_w", False, True), ("codecs_open_a", False, False),
              ("codecs_open_wplus", False, True), ("codecs_writer", False, True), ("codecs_srw", False, True), ("compressed", False, True),
              ("pipe", False, True), ("socket", False, True), ("stringio", True, False), ("stringio_sub", True, False),
              ("stringio_init", True, False), ("textiobase_sub", False, False), ("duck_min", False, False), ("duck_none", False, False),
              ("duck_slots", False, False), ("duck_ns", False, False), ("duck_getattr", False, False), ("duck_attrs", False, False),
              ("duck_strict", False, False), ("duck_instattr", False, False)]
OUTSIDE_FILE = ["binary_bytesio", "binary_open_wb", "readonly_open_r", "closed_stringio", "closed_file"]
_KIND = {k: (s, f) for k, s, f in FILE_KINDS}
NO_ENC = ("stringio", "stringio_sub", "stringio_init", "textiobase_sub", "duck_min", "duck_none", "duck_slots", "duck_ns", "duck_getattr",
          "duck_attrs", "duck_strict", "duck_instattr")
NO_NEWLINE = NO_ENC[3:] + ("codecs_open_w", "codecs_open_a", "codecs_open_wplus", "codecs_writer", "codecs_srw")


# ------------------------------------------------------------------ generators
def _params(rng, tk, text, i=None):
    """The parameters of one file-object target; `i` not None: rotating instead of drawn (bounded part)."""
    pick = (lambda pool: rng.choice(pool)) if i is None else (lambda pool: pool[i % len(pool)])
    p = {}
    if tk not in NO_ENC:
        narrow = (rng.random() < 0.3) if i is None else (i % 4 == 3)
        p["enc"] = pick(NARROW) if narrow else pick(UNIVERSAL)
        if tk.startswith("spooled") and p["enc"] in ("utf-16", "utf-32", "utf-8-sig"):
            p["enc"] = "utf-8"          # read back as text through the wrapper itself: keep the mark out of it
        p["errors"] = pick(ERRORS) if (narrow and tk not in ("compressed",)) else None
    if tk not in NO_NEWLINE:
        p["nl"] = pick(NEWLINES)
        if tk.startswith("spooled") and p["nl"] in ("\r", "\r\n", None):
            p["nl"] = ""
    if tk in ("open_w", "open_a", "open_wplus", "fd_open"):
        p["buf"] = pick([-1, -1, 1, 16, 100000])
    if tk in ("tiow_bytesio", "tiow_buffered", "tiow_random"):
        p["wt"], p["lb"] = pick([False, True, False]), pick([False, False, True, True])
    if tk == "compressed":
        p["codec"] = pick(["gzip", "bz2", "lzma"])
    if tk == "spooled_small":
        p["max"] = pick([1, 16, 200])
    p["pre"] = pick(PRES)
    if _KIND[tk][0] and (rng.random() < 0.35 if i is None else i % 3 == 1):
        p["seek"] = pick(["start", "mid", "end", "end"])
    p["post"] = bool(rng.random() < 0.4) if i is None else (i % 2 == 0)
    if tk in ("duck_min", "duck_none", "duck_slots", "duck_ns", "duck_getattr", "duck_attrs", "duck_strict", "duck_instattr", "textiobase_sub",
              "pipe", "socket", "compressed", "codecs_writer", "codecs_srw") and p.get("seek"):
        del p["seek"]
    return p


def _wcase(c20, rng, tk, p, simple):
    text, di = c20.rdoc(rng)
    if simple:
        ps, am, fmt = None, None, None
    else:
        ps, am = c20.rargs(rng)
        fmt = c20.rfmt(rng)
    return {"stream": "wtarget", "input": dict(op="wtarget", text=text, parsed=rng.choice(["default", "raw"]), ps=ps, am=am, fmt=fmt,
                                               cont=rng.choice(["list", "tuple", "iter"]), tk=tk, p=p)}


def generate(rng, quick):
    import props.c20 as c20
    n = 1 if quick else 12
    cases = []
    i = 0
    # bounded: every file-object kind x rotating encoding / newline / history (three each: default arguments, then stacks)
    for tk, _, _ in FILE_KINDS:
        for k in range(3):
            i += 1
            cases.append(_wcase(c20, rng, tk, _params(rng, tk, None, i), simple=(k == 0)))
    # bounded: every path form for write_file (fresh, existing, through links) and parse_file, names rotating
    for fi, form in enumerate(FORMS):
        for k in range(2):
            i += 1
            p = dict(form=form, name=NAMES[(fi * 2 + k + 3 * (i % 5)) % len(NAMES)], existing=bool(k))
            cases.append(_wcase(c20, rng, "path", p, simple=(k == 0)))
            cases.append(_pcase(c20, rng, form, NAMES[(fi * 2 + k) % len(NAMES)], simple=(k == 0)))
    for ni, name in enumerate(NAMES):
        cases.append(_wcase(c20, rng, "path", dict(form=FORMS[ni % 3], name=name, existing=ni % 2 == 0), simple=True))
        cases.append(_pcase(c20, rng, FORMS[(ni + 1) % 3], name, simple=True))
    for form in ("fifo", "large", "large", "fifo"):
        c = _pcase(c20, rng, form, NAMES[i % 5], simple=False)
        if form == "large":          # the stack is not the subject here and every stage's graph of a 70 kB library goes over the wire
            c["input"].update(ps=[], am=None)
        cases.append(c)
        i += 1
    # outside the property: recorded only
    for k in OUTSIDE_FILE:
        cases.append(_wcase(c20, rng, "outside", dict(what=k), simple=True))
    for k in OUTSIDE_PATH:
        if k != "fd":
            cases.append(_wcase(c20, rng, "outside", dict(what=k, name=NAMES[i % 5]), simple=True))
        cases.append(_pcase(c20, rng, "outside_" + k, NAMES[i % 5], simple=True))
        i += 1
    # random
    for _ in range(200 * n):
        tk = rng.choice(FILE_KINDS)[0]
        cases.append(_wcase(c20, rng, tk, _params(rng, tk, None), simple=rng.random() < 0.4))
    for _ in range(50 * n):
        p = dict(form=rng.choice(FORMS), name=rng.choice(NAMES), existing=rng.random() < 0.5)
        cases.append(_wcase(c20, rng, "path", p, simple=rng.random() < 0.4))
    for _ in range(70 * n):
        cases.append(_pcase(c20, rng, rng.choice(FORMS + ["fifo"]), rng.choice(NAMES), simple=rng.random() < 0.4))
    return cases


def _pcase(c20, rng, form, name, simple):
    text, di = c20.rdoc(rng)
    encs = c20.DOC_ENC.get(di, c20.ENCODINGS if text.isascii() else ["utf-8", "utf-16"])
    fe = rng.choice(encs)
    if simple:
        ps, am = None, None
    else:
        ps, am = c20.rargs(rng)
    return {"stream": "psource", "input": dict(op="psource", text=text, file_enc=fe, read_enc=None if (fe == "utf-8" and rng.random() < 0.5) else fe,
                                               ps=ps, am=am, cont=rng.choice(["list", "tuple", "gen"]), form=form, name=name)}


def shrink(case):
    inp = case["input"]
    out = []
    for a in ("ps", "am"):
        st = inp.get(a)
        if st:
            for i in range(len(st)):
                out.append(dict(inp, **{a: st[:i] + st[i + 1:]}))
    if inp.get("fmt"):
        out.append(dict(inp, fmt=None))
    if inp.get("text"):
        import props.c20 as c20
        for d in c20.DOCS:
            if len(d) < len(inp["text"]):
                out.append(dict(inp, text=d))
    p = inp.get("p") or {}
    for k in ("seek", "post", "pre", "errors"):
        if p.get(k):
            q = dict(p)
            q[k] = "" if k == "pre" else (False if k == "post" else None)
            out.append(dict(inp, p=q))
    return [{"stream": case.get("stream", "shrink"), "input": x} for x in out]


# ------------------------------------------------------------------ the surroundings of a case
class Scratch:
    def __init__(self):
        import os
        import tempfile
        base = "/dev/shm" if (os.path.isdir("/dev/shm") and os.access("/dev/shm", os.W_OK | os.X_OK)) else None
        self.root = os.path.realpath(tempfile.mkdtemp(prefix="verif_c20t_", dir=base))
        self.cwd0 = os.getcwd()
        self.closers = []

    def sub(self, name):
        import os
        d = os.path.join(self.root, name)
        os.makedirs(d, exist_ok=True)
        return d

    def leave(self):
        import os
        import shutil
        for f in reversed(self.closers):
            try:
                f()
            except Exception:  # noqa: BLE001
                pass
        try:
            os.chdir(self.cwd0)
        except OSError:
            pass
        shutil.rmtree(self.root, ignore_errors=True)


def layout(d, form, name, content, tags):
    """Lay out `form` below the (empty) directory d.  content: bytes the file holds beforehand, None = it does not exist yet.
    -> (the path to hand to the library, the real file to look at afterwards, directory to change into or None)."""
    import os

    def put(real):
        os.makedirs(os.path.dirname(real), exist_ok=True)
        if content is not None:
            with open(real, "wb") as fh:
                fh.write(content)
        return real
    j = os.path.join
    cwd = None
    if form in ("abs", "strsub"):
        real = put(j(d, name))
        path = real
        if form == "strsub":
            import props.userclasses as userclasses
            path = userclasses.get().StrSub(real)
    elif form == "rel":
        real, path, cwd = put(j(d, name)), name, d
    elif form == "dotrel":
        real, path, cwd = put(j(d, name)), "./" + name, d
    elif form == "sub":
        real = put(j(d, "sub dir", "ünter", name))
        path = real
    elif form == "subrel":
        real, path, cwd = put(j(d, "sub dir", "ünter", name)), "sub dir/ünter/" + name, d
    elif form == "dotdot":
        real = put(j(d, name))
        os.makedirs(j(d, "sub"), exist_ok=True)
        path = d + "/sub/../" + name
    elif form == "dblslash":
        real = put(j(d, "s", name))
        path = d + "//s/.//" + name
    elif form == "deep":
        real = put(j(d, *(["%d" % k + "d" * 180 for k in range(6)] + [name])))
        path = real
    elif form == "uprel":
        real, path, cwd = put(j(d, name)), "../" + name, j(d, "work")
        os.makedirs(cwd, exist_ok=True)
    elif form == "symlink_abs":
        real = put(j(d, "real", name))
        path = j(d, "link to it.bib")
        os.symlink(real, path)
    elif form == "symlink_rel":
        real = put(j(d, "real", name))
        os.makedirs(j(d, "links"), exist_ok=True)
        path = j(d, "links", "l.bib")
        os.symlink("../real/" + name, path)
    elif form == "symlink_chain":
        real = put(j(d, "real", name))
        os.symlink("real/" + name, j(d, "l2.bib"))
        path = j(d, "l1.bib")
        os.symlink("l2.bib", path)
    elif form == "symlink_dir":
        real = put(j(d, "real", name))
        os.symlink("real", j(d, "ldir"))
        path = j(d, "ldir", name)
    elif form == "hardlink":
        if content is None:
            content = b""
            tags.append("hardlink_needs_file")
        real = put(j(d, "real", name))
        path = j(d, "hard.bib")
        os.link(real, path)
    elif form in ("fifo", "large"):
        real = j(d, name)
        path = real
        if form == "large":
            put(real)
    else:
        raise ValueError(form)
    return path, real, cwd


class _Reader:
    """Collects everything that arrives at a descriptor, in a thread (pipes and sockets hold only so much)."""

    def __init__(self, read):
        import threading
        self.chunks = []

        def run():
            try:
                while True:
                    b = read(65536)
                    if not b:
                        break
                    self.chunks.append(b)
            except OSError:
                pass
        self.t = threading.Thread(target=run, daemon=True)
        self.t.start()

    def result(self):
        self.t.join(25)
        return b"".join(self.chunks)


def _duck_classes():
    import io
    import types

    class DuckMin:
        def __init__(self):
            self.parts = []

        def write(self, s):
            self.parts.append(s)
            return len(s)

    class DuckNone:
        def __init__(self):
            self.parts = []

        def write(self, s):
            self.parts.append(s)

    class DuckSlots:
        __slots__ = ("parts",)

        def __init__(self):
            self.parts = []

        def write(self, s):
            self.parts.append(s)
            return len(s)

    class DuckGetattr:
        """The way tempfile wraps a file: everything is looked up on the wrapped object when asked for."""

        def __init__(self):
            self.__dict__["inner"] = io.StringIO()

        def __getattr__(self, name):
            if name.startswith("__"):
                raise AttributeError(name)
            return getattr(self.__dict__["inner"], name)

        @property
        def parts(self):
            return [self.__dict__["inner"].getvalue()]

    class DuckAttrs(DuckMin):
        name, mode, encoding, errors, newlines, closed = "<duck>", "w", "utf-8", "strict", None, False

    class DuckStrict(DuckMin):
        def write(self, s):
            if type(s) is not str and not isinstance(s, str):
                raise TypeError("write() argument must be str, not %s" % type(s).__name__)
            return DuckMin.write(self, s)

    class DuckInstAttr:
        def __init__(self):
            self.parts = []
            self.write = lambda s: (self.parts.append(s), len(s))[1]

    def duck_ns():
        parts = []
        o = types.SimpleNamespace(write=parts.append, parts=parts)
        return o

    class MyStringIO(io.StringIO):
        encoding_hint = "none"

        def __init__(self, *a, **k):
            super().__init__(*a, **k)
            self.n_writes = 0

        def write(self, s):
            self.n_writes += 1
            return super().write(s)

    class PyText(io.TextIOBase):
        def __init__(self):
            super().__init__()
            self.parts = []

        def writable(self):
            return True

        def write(self, s):
            if not isinstance(s, str):
                raise TypeError("write() argument must be str, not %s" % type(s).__name__)
            self.parts.append(s)
            return len(s)
    return dict(duck_min=DuckMin, duck_none=DuckNone, duck_slots=DuckSlots, duck_getattr=DuckGetattr, duck_attrs=DuckAttrs, duck_strict=DuckStrict,
                duck_instattr=DuckInstAttr, duck_ns=duck_ns, stringio_sub=MyStringIO, textiobase_sub=PyText)


def _pieces(parts):
    if all(isinstance(x, str) for x in parts):
        return "".join(parts)
    return ["NOT-STR PIECES"] + [type(x).__name__ for x in parts]


def make_target(tk, p, d, sc):
    """Build the target below directory d.  -> (file object, collect) where collect() finishes with it and returns what arrived."""
    import codecs
    import io
    import os
    import tempfile
    enc, nl, errors = p.get("enc", "utf-8"), p.get("nl"), p.get("errors")
    path = os.path.join(d, "t.bib")

    def disk():
        with open(path, "rb") as fh:
            return fh.read()

    def closing(f, then=disk):
        def collect():
            f.close()
            return then()
        return f, collect
    if tk in ("open_w", "open_a", "open_wplus", "open_x", "open_rplus", "open_aplus"):
        mode = {"open_w": "w", "open_a": "a", "open_wplus": "w+", "open_x": "x", "open_rplus": "r+", "open_aplus": "a+"}[tk]
        if mode in ("a", "r+", "a+"):
            with open(path, "wb") as fh:
                fh.write(EXISTING.encode(enc))
        f = open(path, mode, encoding=enc, newline=nl, errors=errors, buffering=p.get("buf", -1))
        sc.closers.append(f.close)
        return closing(f)
    if tk == "fd_open":
        fd = os.open(path, os.O_WRONLY | os.O_CREAT | os.O_TRUNC, 0o644)
        f = open(fd, "w", encoding=enc, newline=nl, errors=errors, buffering=p.get("buf", -1))
        sc.closers.append(f.close)
        return closing(f)
    if tk in ("tiow_bytesio", "tiow_buffered", "tiow_random"):
        kw = dict(encoding=enc, newline=nl, errors=errors, write_through=p.get("wt", False), line_buffering=p.get("lb", False))
        if tk == "tiow_bytesio":
            raw = io.BytesIO()
            f = io.TextIOWrapper(raw, **kw)

            def collect():
                f.flush()
                return raw.getvalue()
            return f, collect
        raw = io.BufferedWriter(io.FileIO(path, "w")) if tk == "tiow_buffered" else io.BufferedRandom(io.FileIO(path, "w+"))
        f = io.TextIOWrapper(raw, **kw)
        sc.closers.append(f.close)
        return closing(f)
    if tk in ("named_tmp", "named_tmp_w"):
        f = tempfile.NamedTemporaryFile("w+" if tk == "named_tmp" else "w", encoding=enc, newline=nl, errors=errors, dir=d, suffix=".bib", delete=False)
        sc.closers.append(f.close)

        def collect():
            f.close()
            with open(f.name, "rb") as fh:
                return fh.read()
        return f, collect
    if tk == "tmpfile":
        f = tempfile.TemporaryFile("w+", encoding=enc, newline=nl, errors=errors, dir=d)
        sc.closers.append(f.close)

        def collect():
            f.flush()
            data = os.pread(f.fileno(), os.fstat(f.fileno()).st_size, 0)
            f.close()
            return data
        return f, collect
    if tk in ("spooled_small", "spooled_big"):
        f = tempfile.SpooledTemporaryFile(max_size=p.get("max", 10 ** 7), mode="w+", encoding=enc, newline=nl, errors=errors, dir=d)
        sc.closers.append(f.close)

        def collect():
            f.seek(0)
            text = f.read()
            f.close()
            return text
        return f, collect
    if tk in ("codecs_open_w", "codecs_open_a", "codecs_open_wplus"):
        mode = {"codecs_open_w": "w", "codecs_open_a": "a", "codecs_open_wplus": "w+"}[tk]
        if mode == "a":
            with open(path, "wb") as fh:
                fh.write(EXISTING.encode(enc))
        f = codecs.open(path, mode, encoding=enc, errors=errors or "strict")
        sc.closers.append(f.close)
        return closing(f)
    if tk in ("codecs_writer", "codecs_srw"):
        raw = io.BytesIO()
        if tk == "codecs_writer":
            f = codecs.getwriter(enc)(raw, errors or "strict")
        else:
            f = codecs.StreamReaderWriter(raw, codecs.getreader(enc), codecs.getwriter(enc), errors or "strict")
        return f, raw.getvalue
    if tk == "compressed":
        mod = __import__(p["codec"])
        f = mod.open(path, "wt", encoding=enc, newline=nl, errors=errors)
        sc.closers.append(f.close)

        def then():
            with mod.open(path, "rb") as fh:
                return fh.read()
        return closing(f, then)
    if tk == "pipe":
        r, w = os.pipe()
        rd = _Reader(lambda n: os.read(r, n))
        f = os.fdopen(w, "w", encoding=enc, newline=nl, errors=errors)

        def done():        # the reading thread must be gone before the descriptor's number can be used again by a later case
            try:
                f.close()
            except Exception:  # noqa: BLE001
                pass
            rd.t.join(25)
            os.close(r)
        sc.closers.append(done)

        def collect():
            f.close()
            return rd.result()
        return f, collect
    if tk == "socket":
        import socket
        a, b = socket.socketpair()
        rd = _Reader(b.recv)
        f = a.makefile("w", encoding=enc, newline=nl, errors=errors)

        def done():
            for x in (f, a):
                try:
                    x.close()
                except Exception:  # noqa: BLE001
                    pass
            rd.t.join(25)
            b.close()
        sc.closers.append(done)

        def collect():
            f.close()
            a.close()
            return rd.result()
        return f, collect
    if tk == "stringio":
        f = io.StringIO(newline=nl) if "nl" in p else io.StringIO()
        return f, f.getvalue
    if tk == "stringio_init":
        f = io.StringIO(EXISTING, newline=nl) if "nl" in p else io.StringIO(EXISTING)
        return f, f.getvalue
    D = _duck_classes()
    if tk == "stringio_sub":
        f = D[tk]()
        return f, f.getvalue
    f = D[tk]()
    return f, (lambda: _pieces(f.parts))


def translate(text, nl):
    import os
    if nl in ("", "\n"):
        return text
    return text.replace("\n", os.linesep if nl is None else nl)


def drive(tk, p, d, sc, writer):
    """History of the target, then the call, then what the caller does afterwards -> (return value of the call, what arrived)."""
    f, collect = make_target(tk, p, d, sc)
    pre = p.get("pre") or ""
    seek = p.get("seek")
    a = pre[:len(pre) // 2]
    if a:
        f.write(a)
    pos = f.tell() if seek == "mid" else None
    if pre[len(a):]:
        f.write(pre[len(a):])
    if seek == "start":
        f.seek(0)
    elif seek == "mid":
        f.seek(pos)
    elif seek == "end":
        f.seek(0, 2)
    r = writer(f)
    if p.get("post"):
        f.write(POST)
    return r, collect()


def outside_target(what, p, d, sc):
    import io
    import os
    import pathlib
    path = os.path.join(d, p.get("name") or "t.bib")
    look = lambda: open(path, "rb").read() if os.path.isfile(path) else None  # noqa: E731
    if what == "binary_bytesio":
        f = io.BytesIO()
        return f, f.getvalue
    if what == "binary_open_wb":
        f = open(path, "wb")
        sc.closers.append(f.close)
        return f, lambda: (f.close(), look())[1]
    if what in ("readonly_open_r", "closed_file"):
        with open(path, "w") as fh:
            fh.write("old")
        f = open(path, "r" if what == "readonly_open_r" else "w")
        sc.closers.append(f.close)
        if what == "closed_file":
            f.close()
        return f, lambda: (f.close(), look())[1]
    if what == "closed_stringio":
        f = io.StringIO()
        f.close()
        return f, lambda: None
    if what == "pathlib":
        return pathlib.Path(path), look
    if what == "bytes":
        return os.fsencode(path), look
    if what == "pathlike":
        class P:
            def __fspath__(self):
                return path
        return P(), look
    if what == "missing":
        return os.path.join(d, "no such directory", "x.bib"), lambda: None
    if what == "directory":
        return d, lambda: None
    raise ValueError(what)


# ------------------------------------------------------------------ runners
def impl(case):
    inp = case["input"]
    return impl_wtarget(inp) if inp["op"] == "wtarget" else impl_psource(inp)


def _stack_tags(rec, ps, am, cont, got):
    n_mw = len(ps or []) + len(am or [])
    rec["tags"] += ["stack_%d" % min(n_mw, 4), "both_args" if (ps is not None and am is not None) else
                    ("full_stack" if ps is not None else ("addition" if am is not None else "defaults"))]
    if cont in ("gen", "iter"):
        rec["tags"].append("one_shot_iterable")
    if got[0] == "exc":
        rec["tags"].append("raises_" + got[2])


def impl_wtarget(inp):
    import io
    import locale
    import os
    import enc
    import implutil
    import bibtexparser
    from bibtexparser import writer as W
    import props.c06 as c06
    import props.c20 as c20
    tk, p = inp["tk"], inp["p"]
    ps, am, cont, f = inp.get("ps"), inp.get("am"), inp.get("cont", "list"), inp.get("fmt")
    rec = {"key": json.dumps(inp, sort_keys=True), "tags": ["wtarget", "wt_" + tk], "nontrivial": True}
    ref = c20.Ref()
    fo_ref, fo = c06.make_fmt(f), c06.make_fmt(f)
    lib0 = c20.source_lib(inp)
    in_enc = c20.enc_lib(lib0)
    exp = implutil.guarded(lambda: W.write(ref.run(c20.source_lib(inp), c20.ref_stack(ps, am, c20.DEFAULT_UNPARSE, prepend=True)), fo_ref))
    kw = {}
    if ps is not None:
        kw["parse_stack"] = c20.build_stack(ps, cont)
    if am is not None:
        kw["append_middleware"] = c20.build_stack(am, cont)
    if f is not None:
        kw["bibtex_format"] = fo
    sc = Scratch()
    sx_in = None
    try:
        if tk == "outside":
            what = p["what"]
            tgt, look = outside_target(what, p, sc.sub("impl"), sc)
            got = implutil.guarded(lambda: (bibtexparser.write_file(tgt, lib0, **kw), look()))
            if got[0] == "exc":
                res = "raises_" + got[2]
            else:
                arrived = got[1][1]
                want = exp[1].encode(locale.getpreferredencoding(False)) if exp[0] == "ok" else None
                res = "arrives_as_the_text" if (arrived == want and want is not None) else ("nothing_arrives" if not arrived else "arrives_differently")
            rec["tags"] += ["wt_outside_" + what, "wt_outside_%s_%s" % (what, res)]
            rec.update(sx_in=None, sx_out=None, summary="%s: %s" % (what, res), oracle={"ok": True, "detail": ""})
            _stack_tags(rec, ps, am, cont, got)
            return rec
        if tk == "path":
            tags = []
            old = (EXISTING * 4).encode("utf-8") if p.get("existing") else None
            path, real, cwd = layout(sc.sub("impl"), p["form"], p["name"], old, tags)
            rec["tags"] += ["wt_form_" + p["form"], "wt_path_existing" if old is not None else "wt_path_fresh"] + tags
            if not p["name"].isascii():
                rec["tags"].append("wt_name_non_ascii")
            if len(p["name"]) > 100 or p["form"] == "deep":
                rec["tags"].append("wt_name_long")
            if cwd:
                os.chdir(cwd)

            def call():
                r = bibtexparser.write_file(path, lib0, **kw)
                with open(real, "rb") as fh:
                    return r, fh.read()
            got = implutil.guarded(call)
            os.chdir(sc.cwd0)
            lenc = locale.getpreferredencoding(False)
            want = implutil.guarded(lambda: (None, exp[1].replace("\n", os.linesep).encode(lenc))) if exp[0] == "ok" else exp
            if want[0] == "exc" and exp[0] == "ok":
                want = ("exc", implutil.EXC_OTHER, "UnicodeEncodeError")
                rec["tags"].append("sink_refuses_text")
            elif os.linesep == "\n":
                sx_in = [73, 0, enc.enc_str("OLD" if old is not None else ""), in_enc, c20.enc_ostack(ps, 0), c20.enc_ostack(am, 100), c20.enc_ofmt(f, fo), ref.table]
            dec = lambda b: b.decode(lenc)  # noqa: E731
        else:
            is_text = [None]

            def lib_writer(fobj):
                is_text[0] = isinstance(fobj, io.TextIOBase)
                return bibtexparser.write_file(fobj, lib0, **kw)
            got = implutil.guarded(lambda: drive(tk, p, sc.sub("impl"), sc, lib_writer))
            rec["tags"] += ["wt_is_TextIOBase_%s" % is_text[0]]
            for k in ("enc", "nl", "errors", "seek", "codec"):
                if k in p and (p[k] is not None or k == "nl"):
                    rec["tags"].append("wt_%s_%r" % (k, p[k]))
            if p.get("pre"):
                rec["tags"].append("wt_written_to_before")
            if p.get("post"):
                rec["tags"].append("wt_written_to_after")
            if exp[0] == "ok":
                text = exp[1]
                want = implutil.guarded(lambda: drive(tk, p, sc.sub("twin"), sc, lambda fobj: (fobj.write(text), None)[1]))
                if text == "" and want[0] == "ok" and got[0] == "ok" and got[1][1] != want[1][1]:
                    # the empty text may arrive as no piece at all (a codec that marks the start of the stream does so at the first
                    # write(), even of nothing): both are "pieces whose concatenation is the text"
                    none = implutil.guarded(lambda: drive(tk, p, sc.sub("twin0"), sc, lambda fobj: None))
                    if none[0] == "ok" and none[1][1] == got[1][1]:
                        want = none
                        rec["tags"].append("wt_empty_text_as_no_write")
                if want[0] == "exc":
                    rec["tags"].append("sink_refuses_text" if want[2] == "UnicodeEncodeError" else "wt_twin_raises_" + want[2])
                elif "wt_empty_text_as_no_write" in rec["tags"]:
                    pass
                elif _KIND[tk][1] and not p.get("seek") and not (tk in ("pipe", "socket", "compressed") and p.get("enc") in ("utf-16", "utf-32")):
                    # (CPython's text layer writes no byte order mark to a stream that cannot seek: the runtime's, the twin has it too)
                    # the twin against the closed formula
                    whole = (p.get("pre") or "") + text + (POST if p.get("post") else "")
                    nl = "" if tk in NO_NEWLINE else p.get("nl")
                    formula = translate(whole, nl).encode(p.get("enc", "utf-8"), p.get("errors") or "strict")
                    if want[1][1] != formula:
                        rec.update(sx_in=None, sx_out=None, summary="harness", oracle={"ok": False, "detail": "HARNESS: the twin target received %r, the formula "
                                   "gives %r (%s %r)" % (want[1][1][:80], formula[:80], tk, p)})
                        return rec
                    rec["tags"].append("wt_twin_checked_against_formula")
                identity_nl = (tk in NO_NEWLINE or p.get("nl") in ("", "\n")
                               or (p.get("nl") is None and os.linesep == "\n" and not tk.startswith("stringio")))
                if (want[0] == "ok" and not p.get("seek") and not p.get("post") and identity_nl and not p.get("errors")
                        and tk not in ("stringio_init", "open_rplus")):
                    old = (EXISTING if tk in ("open_a", "open_aplus", "codecs_open_a") else "") + (p.get("pre") or "")
                    sx_in = [73, 1, enc.enc_str(old), in_enc, c20.enc_ostack(ps, 0), c20.enc_ostack(am, 100), c20.enc_ofmt(f, fo), ref.table]
            else:
                want = exp
                sx_in = [73, 1, enc.enc_str(""), in_enc, c20.enc_ostack(ps, 0), c20.enc_ostack(am, 100), c20.enc_ofmt(f, fo), ref.table]
            e = p.get("enc", "utf-8")
            dec = lambda b: b if isinstance(b, str) else (b.decode(e) if isinstance(b, bytes) else repr(b))  # noqa: E731
            if sx_in is not None and tk in ("open_a", "open_aplus", "codecs_open_a") and e in ("utf-16", "utf-32", "utf-8-sig"):
                dec = lambda b: b.decode(e).replace("\ufeff", "")  # noqa: E731  (the codec of the second handle may mark again: the runtime's)
                if "\ufeff" in (exp[1] if exp[0] == "ok" else ""):
                    sx_in = None
    finally:
        sc.leave()
    if got[0] == "ok" and want[0] == "ok":
        same = got[1][1] == want[1][1] and got[1][0] is None
    else:
        same = got[0] == want[0] and got[2] == want[2]
    shown = ("raised %s" % got[2]) if got[0] == "exc" else repr(got[1][1])[:200]
    if sx_in is not None:
        try:
            rec["sx_out"] = c20.outcome(got, lambda v: enc.enc_str(dec(v[1])))
        except UnicodeDecodeError:
            sx_in = None
    if sx_in is None:
        rec["sx_out"] = None
        rec["tags"].append("wt_oracle_only")
    else:
        rec["tags"].append("wt_model_compared")
    rec["sx_in"] = None if (sx_in is None or c20.has99(sx_in) or c20.has99(rec["sx_out"])) else sx_in
    if rec["sx_in"] is None:
        rec["sx_out"] = None
    rec["summary"] = shown
    if same:
        rec["oracle"] = {"ok": True, "detail": ""}
    else:
        wanted = ("raise %s" % want[2]) if want[0] == "exc" else repr(want[1][1])[:200]
        ret = "" if (got[0] == "exc" or got[1][0] is None) else " and returned %r instead of None" % (got[1][0],)
        rec["oracle"] = {"ok": False, "detail": "write_file(<%s %s>, library) does not hand the target the text of write_string (the manual composition): "
                                                "arrived %s%s; the same target handed that text by one write() receives / must: %s"
                                                % (tk, json.dumps(p, sort_keys=True, ensure_ascii=True)[:300], shown, ret, wanted)}
    _stack_tags(rec, ps, am, cont, got)
    return rec


def impl_psource(inp):
    import os
    import pathlib
    import enc
    import implutil
    import bibtexparser
    from bibtexparser.splitter import Splitter
    import props.c20 as c20
    ps, am, cont, form, name = inp.get("ps"), inp.get("am"), inp.get("cont", "list"), inp["form"], inp["name"]
    rec = {"key": json.dumps(inp, sort_keys=True), "tags": ["psource", "ps_form_" + form], "nontrivial": True}
    text = inp["text"]
    if form == "large":
        text = (text or "@misc{k, t = {v}}\n") * (1 + 70000 // max(1, len(text or "@misc{k, t = {v}}\n")))
        rec["tags"].append("ps_larger_than_64k")
    data = text.encode(inp["file_enc"])
    ref = c20.Ref()
    dres = implutil.guarded(lambda: c20.decode_ref(data, inp["read_enc"]))

    def reference():
        lib = Splitter(dres[1]).split()
        ref.stable.append([enc.enc_str(dres[1]), implutil.r_ok(c20.enc_lib(lib))])
        return ref.run(lib, c20.ref_stack(ps, am, c20.DEFAULT_PARSE, prepend=False))
    exp = dres if dres[0] == "exc" else implutil.guarded(reference)
    kw = {}
    if ps is not None:
        kw["parse_stack"] = c20.build_stack(ps, cont)
    if am is not None:
        kw["append_middleware"] = c20.build_stack(am, cont)
    if inp["read_enc"] is not None:
        kw["encoding"] = inp["read_enc"]
    sc = Scratch()
    try:
        d = sc.sub("impl")
        if form.startswith("outside_"):
            what = form[8:]
            real = os.path.join(d, name)
            with open(real, "wb") as fh:
                fh.write(data)
            if what == "fd":
                path = os.open(real, os.O_RDONLY)
            elif what == "pathlib":
                path = pathlib.Path(real)
            elif what == "bytes":
                path = os.fsencode(real)
            elif what == "pathlike":
                class P:
                    def __fspath__(self):
                        return real
                path = P()
            elif what == "missing":
                path = os.path.join(d, "no such file.bib")
            else:
                path = d
            got = implutil.guarded(lambda: bibtexparser.parse_file(path, **kw))
            if what == "fd":
                try:            # open() closes a descriptor it was given; close it here only if it still is that file
                    if os.fstat(path).st_ino == os.stat(real).st_ino:
                        os.close(path)
                except OSError:
                    pass
            res = ("raises_" + got[2]) if got[0] == "exc" else ("parses_the_content" if c20.outcome(got, c20.enc_lib) == c20.outcome(exp, c20.enc_lib)
                                                                  else "returns_something_else")
            rec["tags"] += ["ps_outside_%s_%s" % (what, res)]
            rec.update(sx_in=None, sx_out=None, summary="%s: %s" % (what, res), oracle={"ok": True, "detail": ""})
            _stack_tags(rec, ps, am, cont, got)
            return rec
        tags = []
        path, real, cwd = layout(d, form, name, data, tags)
        if form == "fifo":
            os.mkfifo(real)
            import threading
            import time

            def feed():
                t0 = time.time()
                fd = None
                while fd is None and time.time() - t0 < 20:
                    try:
                        fd = os.open(real, os.O_WRONLY | os.O_NONBLOCK)
                    except OSError:
                        time.sleep(0.002)
                if fd is None:
                    return
                try:
                    os.set_blocking(fd, True)
                    view = memoryview(data)
                    while len(view):
                        view = view[os.write(fd, view[:4096]):]
                except OSError:
                    pass
                finally:
                    os.close(fd)
            threading.Thread(target=feed, daemon=True).start()
            # (a library that never opens it leaves the feeder waiting: it gives up by itself)
        if not name.isascii():
            rec["tags"].append("ps_name_non_ascii")
        if len(name) > 100 or form == "deep":
            rec["tags"].append("ps_name_long")
        if cwd:
            os.chdir(cwd)
        got = implutil.guarded(lambda: bibtexparser.parse_file(path, **kw))
        os.chdir(sc.cwd0)
    finally:
        sc.leave()
    sx_in = [72, c20.outcome(dres, enc.enc_str), ref.stable, c20.enc_ostack(ps, 0), c20.enc_ostack(am, 100), ref.table]
    rec["sx_out"] = c20.outcome(got, c20.enc_lib)
    e_out = c20.outcome(exp, c20.enc_lib)
    same = rec["sx_out"] == e_out
    show = lambda r: ("raised %s" % r[2]) if r[0] == "exc" else repr([type(b).__name__ + ":" + str(b.parser_metadata.get("trace")) for b in r[1].blocks])[:200]  # noqa: E731
    rec["summary"] = show(got)
    rec["oracle"] = {"ok": same, "detail": "" if same else
                     "parse_file(<%s path, file name %r>, ...) differs from parse_string of the file's decoded content followed by the stack: got %s, "
                     "composition gives %s" % (form, name[:60], show(got), ("raised code %s" % exp[1]) if exp[0] == "exc" else show(exp))}
    rec["sx_in"] = None if (c20.has99(sx_in) or c20.has99(rec["sx_out"])) else sx_in
    rec["tags"].append("enc_%s_as_%s" % (inp["file_enc"], inp["read_enc"]))
    _stack_tags(rec, ps, am, cont, got)
    return rec
